(** * C09 — connections implement the Relay cursor algorithm; paging visits each edge once.

    This file contains only statements, each closed by [exact], and their [Print Assumptions].

    Vocabulary (RelaySpec.v, written from the GraphQL Cursor Connections Specification):
      [connection_of edges S]   S is the strictly increasing (by cursor) permutation of [edges]; its
                                existence says the cursors are distinct
      [spec_edges S before after first last]   the Relay EdgesToReturn over S, cursors read as
                                positions in the order; [None] = "throw an error"
      [relay_edges_to_return]   the literal Relay text (a cursor without an edge is ignored)
      [has_next_required/allowed], [has_prev_required/allowed]   the HasNextPage / HasPreviousPage
                                algorithms: the value the text demands and the value it permits
      [edge_beyond_end all page], [edge_before_start all page]   an edge of the connection that is
                                not on the page and lies beyond / before every edge of the page
      [walk_forward], [walk_backward]   the paging client
    Model (RelayModel.v, transcription of the Go code):
      [edges_to_return]         pagination.EdgesToReturn
      [serve a ar]              what a client observes of the field built by Connection(config)
                                for the application callbacks [a] and the arguments [ar]
    Applications (RelayProofs.v):
      [app_all_ok a edges S]    ResolveAllEdges hands over [edges], directly or as a promise
      [app_window_ok a S]       ResolveEdges hands over, directly or as a promise, some list made
                                of edges of S without repetition that contains at least the first
                                [limit] (last [-limit]) edges between the two cursors;
                                ResolveTotalCount answers the size of the connection
      [app_ok a edges S]        [connection_of edges S] and one of the two *)
From Coq Require Import List ZArith Bool Sorting.Sorted Sorting.Permutation.
From ApiFu Require Import Base.Sexp Relay.CursorCodec Relay.CursorCodecProofs Relay.CursorCodecTotal
     Relay.RelayModel Relay.RelayModelF Relay.RelaySpec Relay.RelayProofs Relay.RelayInstance
     Relay.RelaySerFailProofs Relay.RelayFirstLast Relay.RelayPromiseCompose.
From ApiFu Require Fut.Plan Fut.ExecAsync Fut.FutSpec Fut.AsyncRun Fut.FutProofs.
Import ListNotations.
Open Scope Z_scope.

Section C09.
  (** the application's ConnectionConfig: decoded cursor values with cursorLess, edge values with
      EdgeCursor, SerializeCursor / DeserializeCursor at CursorType *)
  Variables C E : Type.
  Variable ltb : C -> C -> bool.
  Variable cur : E -> C.
  Variable encode : C -> bytes.
  Variable decode : bytes -> option C.

  (** cursors are totally ordered *)
  Hypothesis ltb_irrefl : forall a, ltb a a = false.
  Hypothesis ltb_trans : forall a b c, ltb a b = true -> ltb b c = true -> ltb a c = true.
  Hypothesis ltb_total : forall a b, ltb a b = true \/ a = b \/ ltb b a = true.

  (** ** Stage 1 — pagination.EdgesToReturn, for every edge list, every cursor position and
      every first/last (also both, also negative) *)

  (** returned edges = the specification's; Go's slice panic on a negative count is the
      specification's "throw an error" *)
  Theorem C09_relay_edges_eq : forall edges S after before first last,
    connection_of C E ltb cur edges S ->
    match edges_to_return C E ltb cur edges after before first last with
    | Ret (page, _) => spec_edges C E ltb cur S before after first last = Some page
    | Panic => spec_edges C E ltb cur S before after first last = None
    end.
  Proof. exact (edges_eq C E ltb cur ltb_irrefl ltb_trans ltb_total). Qed.

  (** the position reading of cursors is the literal Relay algorithm whenever the cursors are
      cursors of edges and [after] precedes [before] *)
  Theorem C09_relay_literal_agrees : forall S after before,
    ordered C E ltb cur S ->
    is_cursor_of C E cur S after -> is_cursor_of C E cur S before ->
    (forall a b, after = Some a -> before = Some b -> ltb a b = true) ->
    relay_apply_cursors C E ltb cur S before after = position_apply_cursors C E ltb cur S before after.
  Proof. exact (relay_literal_agrees C E ltb cur ltb_irrefl ltb_trans ltb_total). Qed.

  (** in cursor order *)
  Theorem C09_relay_sorted : forall edges S after before first last page pi,
    connection_of C E ltb cur edges S ->
    edges_to_return C E ltb cur edges after before first last = Ret (page, pi) ->
    StronglySorted (fun x y => ltb (cur x) (cur y) = true) page.
  Proof. exact (page_sorted C E ltb cur ltb_irrefl ltb_trans ltb_total). Qed.

  (** startCursor / endCursor are the cursors of the first / last returned edge *)
  Theorem C09_relay_cursors : forall edges after before first last page pi,
    edges_to_return C E ltb cur edges after before first last = Ret (page, pi) ->
    pi_start pi = option_map cur (hd_error page) /\ pi_end pi = option_map cur (last_error page).
  Proof. exact (page_cursors C E ltb cur). Qed.

  (** hasNextPage: true whenever the specification requires it, only when it allows it, and
      never when no further edge exists in that direction *)
  Theorem C09_relay_has_next_required : forall edges S after before first last page pi,
    connection_of C E ltb cur edges S ->
    edges_to_return C E ltb cur edges after before first last = Ret (page, pi) ->
    has_next_required C E ltb cur S before after first = true -> pi_next pi = true.
  Proof. exact (has_next_required_holds C E ltb cur ltb_irrefl ltb_trans ltb_total). Qed.

  Theorem C09_relay_has_next_allowed : forall edges S after before first last page pi,
    connection_of C E ltb cur edges S ->
    edges_to_return C E ltb cur edges after before first last = Ret (page, pi) ->
    pi_next pi = true -> has_next_allowed C E ltb cur S before after first = true.
  Proof. exact (has_next_allowed_holds C E ltb cur ltb_irrefl ltb_trans ltb_total). Qed.

  Theorem C09_relay_has_next_sound : forall edges S after before first last page pi,
    connection_of C E ltb cur edges S ->
    edges_to_return C E ltb cur edges after before first last = Ret (page, pi) ->
    pi_next pi = true -> edge_beyond_end C E ltb cur edges page.
  Proof. exact (has_next_sound C E ltb cur ltb_irrefl ltb_trans ltb_total). Qed.

  (** hasPreviousPage likewise.  With [first] and [last] together (which a connection field
      rejects) EdgesToReturn answers "are there more than [last] edges among the first [first]",
      the specification's formula counts all edges of the range: required-ness is stated for the
      other combinations, allowed-ness and soundness for all. *)
  Theorem C09_relay_has_prev_required : forall edges S after before first last page pi,
    connection_of C E ltb cur edges S ->
    edges_to_return C E ltb cur edges after before first last = Ret (page, pi) ->
    both_given first last = false ->
    has_prev_required C E ltb cur S before after last = true -> pi_prev pi = true.
  Proof. exact (has_prev_required_holds C E ltb cur ltb_irrefl ltb_trans ltb_total). Qed.

  Theorem C09_relay_has_prev_allowed : forall edges S after before first last page pi,
    connection_of C E ltb cur edges S ->
    edges_to_return C E ltb cur edges after before first last = Ret (page, pi) ->
    pi_prev pi = true -> has_prev_allowed C E ltb cur S before after last = true.
  Proof. exact (has_prev_allowed_holds C E ltb cur ltb_irrefl ltb_trans ltb_total). Qed.

  Theorem C09_relay_has_prev_sound : forall edges S after before first last page pi,
    connection_of C E ltb cur edges S ->
    edges_to_return C E ltb cur edges after before first last = Ret (page, pi) ->
    pi_prev pi = true -> edge_before_start C E ltb cur edges page.
  Proof. exact (has_prev_sound C E ltb cur ltb_irrefl ltb_trans ltb_total). Qed.

  (** ** The connection field *)

  (** a negative count, a missing count, first and last together: an error (whatever the
      application does), not a crash *)
  Theorem C09_relay_arg_errors : forall (a : app C E) ar,
    args_rejected (a_first ar) (a_last ar) = true ->
    exists e, serve C E ltb cur encode decode a ar = RError e /\
              (e = EFirstNegative \/ e = EBothFirstLast \/ e = ELastNegative \/ e = ENoCount).
  Proof. exact (arg_errors C E ltb cur encode decode). Qed.

  (** one accepted request, in either mode, sync or promise: exactly the Relay edges, in cursor
      order, start/end cursors serialised from the first/last returned edge ([""] when there is
      none), flags within [required, allowed] and never without a further edge, totalCount the
      size of the connection.  [af], [bf]: what the cursor arguments decode to ([None] for an
      absent, null or empty argument). *)
  Theorem C09_connection_response : forall (a : app C E) edges S ar af bf,
    app_ok C E ltb cur a edges S ->
    args_rejected (a_first ar) (a_last ar) = false ->
    decode_arg C decode (a_after ar) EInvalidAfter = Ok af ->
    decode_arg C decode (a_before ar) EInvalidBefore = Ok bf ->
    exists page sp,
      serve C E ltb cur encode decode a ar = RData page (Ok sp) (Ok (len S)) /\
      spec_edges C E ltb cur S bf af (a_first ar) (a_last ar) = Some page /\
      ordered C E ltb cur page /\
      sp_start sp = match hd_error page with Some e => encode (cur e) | None => [] end /\
      sp_end sp = match last_error page with Some e => encode (cur e) | None => [] end /\
      (has_next_required C E ltb cur S bf af (a_first ar) = true -> sp_next sp = true) /\
      (sp_next sp = true -> has_next_allowed C E ltb cur S bf af (a_first ar) = true) /\
      (has_prev_required C E ltb cur S bf af (a_last ar) = true -> sp_prev sp = true) /\
      (sp_prev sp = true -> has_prev_allowed C E ltb cur S bf af (a_last ar) = true) /\
      (sp_next sp = true -> edge_beyond_end C E ltb cur S page) /\
      (sp_prev sp = true -> edge_before_start C E ltb cur S page).
  Proof. exact (serve_ok C E ltb cur ltb_irrefl ltb_trans ltb_total encode decode). Qed.

  Theorem C09_relay_total_count : forall (a : app C E) edges S ar af bf,
    app_ok C E ltb cur a edges S ->
    args_rejected (a_first ar) (a_last ar) = false ->
    decode_arg C decode (a_after ar) EInvalidAfter = Ok af ->
    decode_arg C decode (a_before ar) EInvalidBefore = Ok bf ->
    exists page pi, serve C E ltb cur encode decode a ar = RData page pi (Ok (Z.of_nat (length edges))).
  Proof. exact (total_count C E ltb cur ltb_irrefl ltb_trans ltb_total encode decode). Qed.

  (** ** Stage 2 *)

  (** limited-window mode = all-edges mode: same edges, same cursors, same totalCount, the same
      flag in the direction of travel, and a flag that can only be weaker in the other direction
      (so it stays within [required, allowed] by [C09_connection_response]) *)
  Theorem C09_relay_window_equiv : forall (a1 a2 : app C E) edges S ar af bf,
    connection_of C E ltb cur edges S ->
    app_all_ok C E a1 edges S -> app_window_ok C E ltb cur a2 S ->
    args_rejected (a_first ar) (a_last ar) = false ->
    decode_arg C decode (a_after ar) EInvalidAfter = Ok af ->
    decode_arg C decode (a_before ar) EInvalidBefore = Ok bf ->
    exists page sp1 sp2,
      serve C E ltb cur encode decode a1 ar = RData page (Ok sp1) (Ok (len S)) /\
      serve C E ltb cur encode decode a2 ar = RData page (Ok sp2) (Ok (len S)) /\
      sp_start sp2 = sp_start sp1 /\ sp_end sp2 = sp_end sp1 /\
      (a_first ar <> None -> sp_next sp2 = sp_next sp1 /\ (sp_prev sp2 = true -> sp_prev sp1 = true)) /\
      (a_last ar <> None -> sp_prev sp2 = sp_prev sp1 /\ (sp_next sp2 = true -> sp_next sp1 = true)).
  Proof. exact (window_equiv C E ltb cur ltb_irrefl ltb_trans ltb_total encode decode). Qed.

  (** directly or through a promise: the same answer, for all arguments (also rejected ones) *)
  Theorem C09_relay_promise_equiv : forall (a1 a2 : app C E) ar,
    app_has_all a1 = app_has_all a2 -> app_total a1 = app_total a2 ->
    (exists l, delivers E (app_all a1) l /\ delivers E (app_all a2) l) ->
    (forall af bf limit, exists l, delivers E (app_edges a1 af bf limit) l /\ delivers E (app_edges a2 af bf limit) l) ->
    serve C E ltb cur encode decode a1 ar = serve C E ltb cur encode decode a2 ar.
  Proof. exact (promise_equiv C E ltb cur encode decode). Qed.

  (** following endCursor with [after] (startCursor with [before]) with any page size n >= 1
      visits every edge exactly once, in order: the concatenation of the pages is the connection.
      Hypotheses: every emitted cursor is accepted back and denotes the same position, and no
      serialised cursor is the empty string (both proved for the real codec below).  Fuel: one
      request more than there are edges always suffices ([OutOfFuel] is a distinct outcome). *)
  Theorem C09_walk_forward_exact : forall (a : app C E) edges S,
    app_ok C E ltb cur a edges S ->
    (forall e, In e S -> decode (encode (cur e)) = Some (cur e)) ->
    (forall c, encode c <> []) ->
    forall n, 1 <= n ->
    walk_forward E (as_server C E ltb cur encode decode a) n (Datatypes.S (length S)) None = Done S.
  Proof. exact (walk_forward_exact C E ltb cur ltb_irrefl ltb_trans ltb_total encode decode). Qed.

  Theorem C09_walk_backward_exact : forall (a : app C E) edges S,
    app_ok C E ltb cur a edges S ->
    (forall e, In e S -> decode (encode (cur e)) = Some (cur e)) ->
    (forall c, encode c <> []) ->
    forall n, 1 <= n ->
    walk_backward E (as_server C E ltb cur encode decode a) n (Datatypes.S (length S)) None = Done S.
  Proof. exact (walk_backward_exact C E ltb cur ltb_irrefl ltb_trans ltb_total encode decode). Qed.

  (** Arbitrary cursor strings, for ANY codec ([decode] an arbitrary function): rejected with the
      error of their argument or treated as some position [af] / [bf] in the cursor order, at which
      the answer is the full C09 answer.  The statement for the real codec — every byte string
      decoded within a stated fuel, the panic outcome excluded, the model the check runs — is
      [C09_arbitrary_cursor] below. *)
  Theorem C09_arbitrary_cursor_any_codec : forall (a : app C E) edges S ar,
    app_ok C E ltb cur a edges S ->
    args_rejected (a_first ar) (a_last ar) = false ->
    serve C E ltb cur encode decode a ar = RError EInvalidAfter \/
    serve C E ltb cur encode decode a ar = RError EInvalidBefore \/
    exists af bf, response_ok C E ltb cur encode S af bf (a_first ar) (a_last ar)
                    (serve C E ltb cur encode decode a ar).
  Proof. exact (arbitrary_cursor C E ltb cur ltb_irrefl ltb_trans ltb_total encode decode). Qed.

  (** ** Stage B *)

  (** SerializeCursor as a partial function ([encode_f]; RelayModelF.v is the model the check runs).
      completeConnection on ANY list of edges: a negative count panics (excluded by the resolver's
      argument checks), an empty page serialises nothing, a non-empty page serialises the cursors
      of its first and last edge and answers with the error [ESerialize] — not a panic, no page —
      when either cannot be serialised. *)
  Theorem C09_serialize_failure_cases : forall (encode_f : C -> option bytes) (a : app C E) ar bf af l,
    match edges_to_return C E ltb cur l af bf (a_first ar) (a_last ar) with
    | Panic => complete_now_f C E ltb cur encode_f a ar bf af l = Err EPanicked
    | Ret (page, pi) =>
        match page with
        | [] => exists c, complete_now_f C E ltb cur encode_f a ar bf af l = Ok c /\ cn_edges c = []
        | x :: _ =>
            exists y, last_error page = Some y /\
            match encode_f (cur x), encode_f (cur y) with
            | Some s, Some e =>
                exists c, complete_now_f C E ltb cur encode_f a ar bf af l = Ok c /\ cn_edges c = page /\
                          exists sp, cn_page_info c = Ok (Sync sp) /\ sp_start sp = s /\ sp_end sp = e
            | _, _ => complete_now_f C E ltb cur encode_f a ar bf af l = Err ESerialize
            end
        end
    end.
  Proof. exact (complete_now_f_cases C E ltb cur). Qed.

  (** when every edge the application hands over has a cursor that serialises (to [encode c]), the
      resolver with the failing SerializeCursor IS the resolver all theorems above speak about *)
  Theorem C09_model_f_refines : forall (encode_f : C -> option bytes) (a : app C E) ar,
    app_encodable C E cur encode encode_f a ->
    resolve_f C E ltb cur encode_f decode a ar = resolve C E ltb cur encode decode a ar.
  Proof. exact (fun encode_f => resolve_f_eq C E ltb cur encode encode_f decode). Qed.

  (** hence one accepted request against the model the check runs: everything
      [C09_connection_response] says, the edges delivered with their serialised cursors *)
  Theorem C09_connection_response_f : forall (encode_f : C -> option bytes) (a : app C E) edges S ar af bf sel,
    app_ok C E ltb cur a edges S ->
    (forall e, In e S -> encode_f (cur e) = Some (encode (cur e))) ->
    args_rejected (a_first ar) (a_last ar) = false ->
    decode_arg C decode (a_after ar) EInvalidAfter = Ok af ->
    decode_arg C decode (a_before ar) EInvalidBefore = Ok bf ->
    response_ok C E ltb cur encode S af bf (a_first ar) (a_last ar) (serve C E ltb cur encode decode a ar) /\
    serve_f C E ltb cur encode_f decode sel a ar =
      lift C E cur encode sel (serve C E ltb cur encode decode a ar).
  Proof. exact (fun encode_f => serve_f_ok C E ltb cur ltb_irrefl ltb_trans ltb_total encode encode_f decode). Qed.

  (** ConnectionConfig.Direction: a forward-only connection answers exactly as the bidirectional
      one when [first] is an int and neither [last] nor [before] is written (not even as null),
      and is rejected before the resolver runs otherwise; backward-only symmetrically.  So every
      theorem above holds of one-directional connections on the arguments they define. *)
  Theorem C09_forward_only : forall (encode_f : C -> option bytes) sel (a : app C E) w,
    match w_first w, warg_given (w_last w) || warg_given (w_before w) with
    | WVal _, false => serve_dir C E ltb cur encode_f decode ForwardOnly sel a w
                       = serve_dir C E ltb cur encode_f decode Bidirectional sel a w
    | _, _ => serve_dir C E ltb cur encode_f decode ForwardOnly sel a w = FError EValidation
    end.
  Proof. exact (fun encode_f => forward_only_serves C E ltb cur encode_f decode). Qed.

  Theorem C09_backward_only : forall (encode_f : C -> option bytes) sel (a : app C E) w,
    match w_last w, warg_given (w_first w) || warg_given (w_after w) with
    | WVal _, false => serve_dir C E ltb cur encode_f decode BackwardOnly sel a w
                       = serve_dir C E ltb cur encode_f decode Bidirectional sel a w
    | _, _ => serve_dir C E ltb cur encode_f decode BackwardOnly sel a w = FError EValidation
    end.
  Proof. exact (fun encode_f => backward_only_serves C E ltb cur encode_f decode). Qed.

  (** cost: the number of edges defaultConnectionCost charges for ([last] if given, else [first])
      bounds the number of edges an accepted request returns *)
  Theorem C09_cost_bounds_page : forall (a : app C E) edges S ar af bf,
    app_ok C E ltb cur a edges S ->
    args_rejected (a_first ar) (a_last ar) = false ->
    decode_arg C decode (a_after ar) EInvalidAfter = Ok af ->
    decode_arg C decode (a_before ar) EInvalidBefore = Ok bf ->
    exists page pi t, serve C E ltb cur encode decode a ar = RData page pi t /\
                      Z.of_nat (length page) <= max_edge_count ar.
  Proof. exact (cost_bounds_page C E ltb cur ltb_irrefl ltb_trans ltb_total encode decode). Qed.

  (** [first] AND [last] through the public pagination.EdgesToReturn: hasPreviousPage is the
      specification's formula applied to the edges that survive the [first]-truncation (the prose
      reading, sound by [C09_relay_has_prev_sound]); hasNextPage is the formula itself *)
  Theorem C09_first_last_prev_exact : forall edges S after before n m page pi,
    connection_of C E ltb cur edges S ->
    edges_to_return C E ltb cur edges after before (Some n) (Some m) = Ret (page, pi) ->
    pi_prev pi = count_gt E (keep_first E n (position_apply_cursors C E ltb cur S before after)) m /\
    pi_next pi = count_gt E (position_apply_cursors C E ltb cur S before after) n.
  Proof. exact (first_last_prev_exact C E ltb cur ltb_irrefl ltb_trans ltb_total). Qed.
End C09.

(** ** The real codec (SerializeCursor / DeserializeCursor for Go int and string cursors) *)

(** Deserialize(Serialize(c)) = c for every 64-bit int and every string shorter than 2^32 *)
Theorem C09_cursor_roundtrip : forall c, cursor_ok c -> cursor_decode (kind_of c) (cursor_encode c) = Some c.
Proof. exact cursor_roundtrip. Qed.

Theorem C09_cursor_encode_nonempty : forall c, cursor_encode c <> [].
Proof. exact cursor_encode_nonempty. Qed.

(** the hypotheses of the walk theorems hold for the real codec and the harness's cursor order *)
Theorem C09_walk_forward_exact_codec : forall (E : Type) (cur : E -> cursor) (k : kind) (a : app cursor E) edges S,
  app_ok cursor E cursor_ltb cur a edges S ->
  (forall e, In e S -> kind_of (cur e) = k /\ cursor_ok (cur e)) ->
  forall n, 1 <= n ->
  walk_forward E (as_server cursor E cursor_ltb cur cursor_encode (cursor_decode k) a) n (Datatypes.S (length S)) None = Done S.
Proof. exact walk_forward_codec. Qed.

Theorem C09_walk_backward_exact_codec : forall (E : Type) (cur : E -> cursor) (k : kind) (a : app cursor E) edges S,
  app_ok cursor E cursor_ltb cur a edges S ->
  (forall e, In e S -> kind_of (cur e) = k /\ cursor_ok (cur e)) ->
  forall n, 1 <= n ->
  walk_backward E (as_server cursor E cursor_ltb cur cursor_encode (cursor_decode k) a) n (Datatypes.S (length S)) None = Done S.
Proof. exact walk_backward_codec. Qed.

(** ** Stage B: the decoder terminates and is bounded, for every cursor type and EVERY byte string *)

(** with the literal formula of the specification NO implementation can satisfy both clauses of C09
    when [first] and [last] are given together: edges 1,2,3, first = 2, last = 2 — the formula
    demands hasPreviousPage although nothing precedes the page [1;2] *)
Theorem C09_first_last_dilemma :
  exists (S : list Z) (first last : option Z) (page : list Z),
    spec_edges Z Z Z.ltb (fun x => x) S None None first last = Some page /\
    has_prev_required Z Z Z.ltb (fun x => x) S None None last = true /\
    ~ edge_before_start Z Z Z.ltb (fun x => x) S page.
Proof. exact first_last_dilemma. Qed.

(** Decoder.Skip (transcribed for every first byte 0x00-0xff, [mp_header]): skipping any number of
    values from any byte string needs no more fuel than there are bytes, although array32 / map32
    headers may claim 2^32-1 elements and Skip recurses *)
Theorem C09_skip_terminates : forall fuel todo b, (length b <= fuel)%nat -> mp_skip fuel todo b <> SkOutOfFuel.
Proof. exact mp_skip_fuel. Qed.

(** Go's Skip is recursive (the defect fixed by MaxCursorLength was its stack overflow).
    [skip_depth] transcribes it in that shape — a container's elements are skipped by nested calls —
    and reports how deep the calls were stacked: it computes exactly what the counting transcription
    [mp_skip] (used by the decoder) computes, and the depth never exceeds the number of bytes it
    consumed — hence, with [C09_cursor_decode_input_bounded], never 65536. *)
Theorem C09_skip_depth_agrees : forall f k b, (length b <= f)%nat ->
  dk_result (skip_depth f k b) = mp_skip f k b.
Proof. exact skip_depth_agrees. Qed.

Theorem C09_skip_depth_bounded : forall f k b r d, skip_depth f k b = DkOk r d -> (length r + d <= length b)%nat.
Proof. exact skip_depth_bounded. Qed.

(** DeserializeCursor: fuel = the length of the string always suffices ... *)
Theorem C09_cursor_decode_terminates : forall fuel k s, (length s <= fuel)%nat -> cursor_decode_f fuel k s <> DOutOfFuel.
Proof. exact cursor_decode_never_out_of_fuel. Qed.

(** ... more fuel changes nothing ... *)
Theorem C09_cursor_decode_fuel_irrelevant : forall fuel k s, (length s <= fuel)%nat ->
  cursor_decode_f fuel k s = cursor_decode_f (length s) k s.
Proof. exact cursor_decode_fuel_irrelevant. Qed.

(** ... so the [None] of [cursor_decode] (used by all theorems above) is an error, never an
    exhausted fuel ... *)
Theorem C09_cursor_decode_total : forall k s,
  (exists c, cursor_decode_f (length s) k s = DOk c /\ cursor_decode k s = Some c) \/
  (cursor_decode_f (length s) k s = DErr /\ cursor_decode k s = None).
Proof. exact cursor_decode_total. Qed.

(** ... the decoded value is never larger than the cursor string (a str32 / bin32 header claiming
    4 GiB is an error unless the bytes are there) ... *)
Theorem C09_cursor_decode_bounded : forall fuel k s c, cursor_decode_f fuel k s = DOk c -> (cursor_size c <= length s)%nat.
Proof. exact cursor_decode_bounded. Qed.

(** ... and the msgpack document handed to the decoder has at most MaxCursorLength = 65536 bytes
    (bounding the number of Skip calls, hence the depth of Go's recursive Skip) *)
Theorem C09_cursor_decode_input_bounded : forall fuel k s c, cursor_decode_f fuel k s = DOk c ->
  exists b, b64_decode s = Some b /\ (N.of_nat (length b) <= max_cursor_length)%N.
Proof. exact cursor_decode_input_bounded. Qed.

(** SerializeCursor (with its length bound) succeeds on every encodable cursor — every 64-bit int,
    every string / TimeBasedCursor id up to 32000 bytes ([cursor_ok_int/_str/_time]) — and what it
    returns is accepted back *)
Theorem C09_cursor_roundtrip_f : forall c, cursor_ok c ->
  exists s, cursor_encode_f c = Some s /\ cursor_decode (kind_of c) s = Some c.
Proof. exact cursor_roundtrip_f. Qed.

Theorem C09_cursor_ok_time : forall n i, (- 2 ^ 63 <= n < 2 ^ 63)%Z -> (N.of_nat (length i) <= 32000)%N ->
  Forall (fun x => (x < 256)%N) i -> cursor_ok (CTime n i).
Proof. exact cursor_ok_time. Qed.

(** TimeBasedCursor.LessThan is a strict total order (the hypotheses of all theorems, for struct cursors) *)
Theorem C09_cursor_order : (forall a, cursor_ltb a a = false) /\
  (forall a b c, cursor_ltb a b = true -> cursor_ltb b c = true -> cursor_ltb a c = true) /\
  (forall a b, cursor_ltb a b = true \/ a = b \/ cursor_ltb b a = true).
Proof. exact (conj cursor_ltb_irrefl (conj cursor_ltb_trans cursor_ltb_total)). Qed.

(** ** "Arbitrary cursor strings never crash the server — they are either rejected with an error or
    treated as some position in the cursor order": the clause of C09 at full strength, for the model
    the check runs ([serve_f]: the Connection resolver with SerializeCursor / DeserializeCursor as
    transcribed in CursorCodec.v — base64url, msgpack for int / string / TimeBasedCursor with
    Decoder.Skip for every type code, MaxCursorLength), for every application that answers, ANY
    count arguments and ANY byte strings as [after] / [before]:
    (1) DeserializeCursor reaches a value or an error on every byte string within fuel = its length
        (the explicit out-of-fuel outcome is excluded; [C09_cursor_decode_bounded] /
        [_input_bounded] bound what it builds and what it hands to msgpack, [C09_skip_depth_bounded]
        the recursion depth of Skip);
    (2) the field never answers with the panic outcome (every Go panic of the transcribed code —
        slicing with a negative count, a missing count — is an explicit outcome of the model);
    (3) rejected counts are one of the four argument errors;
    (4) otherwise each cursor string is either rejected with the error of its argument or decoded to
        a cursor value [af] / [bf] — a position in the total cursor order, whether or not an edge
        carries it — and the answer is the full C09 answer at those positions ([response_ok]),
        delivered with the serialised cursors.
    What a Coq theorem about a transcription cannot say — that the Go runtime executes encoding/
    base64 and vmihailenco/msgpack as transcribed (memory safety of the real library) — is the tie,
    not the theorem: every hostile string of the run is decoded by the real code under recover with
    its allocation measured and compared with the transcription (trusted base, level_note). *)
Theorem C09_arbitrary_cursor :
  forall (E : Type) (cur : E -> cursor) (k : kind) (a : app cursor E) edges S ar sel,
  app_ok cursor E cursor_ltb cur a edges S ->
  (forall e, In e S -> kind_of (cur e) = k /\ cursor_ok (cur e)) ->
  (forall s, cursor_decode_f (length s) k s <> DOutOfFuel) /\
  serve_f cursor E cursor_ltb cur cursor_encode_f (cursor_decode k) sel a ar <> FError EPanicked /\
  (args_rejected (a_first ar) (a_last ar) = true ->
     exists e, serve_f cursor E cursor_ltb cur cursor_encode_f (cursor_decode k) sel a ar = FError e /\
               (e = EFirstNegative \/ e = EBothFirstLast \/ e = ELastNegative \/ e = ENoCount)) /\
  (args_rejected (a_first ar) (a_last ar) = false ->
     serve_f cursor E cursor_ltb cur cursor_encode_f (cursor_decode k) sel a ar = FError EInvalidAfter \/
     serve_f cursor E cursor_ltb cur cursor_encode_f (cursor_decode k) sel a ar = FError EInvalidBefore \/
     exists af bf,
       decode_arg cursor (cursor_decode k) (a_after ar) EInvalidAfter = Ok af /\
       decode_arg cursor (cursor_decode k) (a_before ar) EInvalidBefore = Ok bf /\
       response_ok cursor E cursor_ltb cur cursor_encode S af bf (a_first ar) (a_last ar)
         (serve cursor E cursor_ltb cur cursor_encode (cursor_decode k) a ar) /\
       serve_f cursor E cursor_ltb cur cursor_encode_f (cursor_decode k) sel a ar =
         lift cursor E cur cursor_encode sel (serve cursor E cursor_ltb cur cursor_encode (cursor_decode k) a ar)).
Proof. exact (fun E cur k a edges S ar sel Happ Hcur => arbitrary_cursor_codec E cur k a edges S Happ Hcur ar sel). Qed.

(** ** Stage B: "paging visits each edge once" for the model the check runs — SerializeCursor /
    DeserializeCursor with MaxCursorLength, int, string and struct (TimeBasedCursor) cursors — through
    a forward-only or bidirectional connection forwards, a backward-only or bidirectional one
    backwards.  [as_server_dir d a] is the field of a connection with Direction [d]
    (RelayModelF.serve_dir, arguments the client does not write are absent). *)
Theorem C09_walk_forward_exact_dir_codec :
  forall (E : Type) (cur : E -> cursor) (k : kind) (a : app cursor E) edges S d,
  app_ok cursor E cursor_ltb cur a edges S ->
  (forall e, In e S -> kind_of (cur e) = k /\ cursor_ok (cur e)) ->
  d = ForwardOnly \/ d = Bidirectional ->
  forall n, 1 <= n ->
  walk_forward E (as_server_dir cursor E cursor_ltb cur cursor_encode_f (cursor_decode k) d a) n (Datatypes.S (length S)) None = Done S.
Proof. exact (fun E cur k a edges S d Happ Hcur Hd n Hn => walk_forward_dir_codec E cur k a edges S Happ Hcur d n Hd Hn). Qed.

Theorem C09_walk_backward_exact_dir_codec :
  forall (E : Type) (cur : E -> cursor) (k : kind) (a : app cursor E) edges S d,
  app_ok cursor E cursor_ltb cur a edges S ->
  (forall e, In e S -> kind_of (cur e) = k /\ cursor_ok (cur e)) ->
  d = BackwardOnly \/ d = Bidirectional ->
  forall n, 1 <= n ->
  walk_backward E (as_server_dir cursor E cursor_ltb cur cursor_encode_f (cursor_decode k) d a) n (Datatypes.S (length S)) None = Done S.
Proof. exact (fun E cur k a edges S d Happ Hcur Hd n Hn => walk_backward_dir_codec E cur k a edges S Happ Hcur d n Hd Hn). Qed.

(** ** Stage B: TimeBasedConnection's ResolveEdges (the generic-Connection side of it; which range
    queries it asks belongs to C16).  [time_resolve_edges answers] transcribes how it collects the
    EdgeGetter's answers — slices appended as they come, promises joined, the continuation appending
    to the same slice.  Whatever mixture of direct answers and promises the getter uses, what is
    handed to the Connection machinery is a permutation of the concatenation of all answers:
    nothing dropped, nothing twice (so [app_window_ok] is met whenever the answers together contain
    the needed window, and every theorem above applies). *)
Theorem C09_time_resolve_edges_delivers : forall (E : Type) (answers : list (result (later (list E)))) (ls : list (list E)),
  Forall2 (delivers E) answers ls ->
  exists L, delivers E (time_resolve_edges E answers) L /\ Permutation L (concat ls).
Proof. exact time_resolve_edges_delivers. Qed.

(** ** Stage B: promises, composed with the executor model of C02 and the idle handler of C15.
    RelayModel treats a promise as "will deliver a value or an error"; goroutines and the
    IdleHandler are outside it.  What it needs from them — a resolver answering through a promise
    yields under every schedule the response it would yield answering directly — is C02's theorem
    about the executor model (Fut/ExecAsync.run) once the connection field is written as a C02 plan
    ([plan_of_result]: the field is asynchronous iff the resolver returned a promise; on the lazy
    zero-edge path also pageInfo / totalCount).  Two applications handing over the same edges, one
    directly, one through promises: under ANY two fair idle handlers (C15_handler_record_is_fair_
    scheduler: api-fu's handler is one) both runs finish, with the same data, both conforming. *)
Theorem C09_promise_composes_with_executor :
  forall (C E : Type) (ltb : C -> C -> bool) (cur : E -> C) (encode : C -> bytes) (decode : bytes -> option C)
         (node : E -> Z) (k_edges k_page_info k_total k_cursor k_node k_prev k_next k_start k_end : bytes)
         (a1 a2 : app C E) ar key md sigma1 sigma2 fuel1 fuel2 jfuel,
    app_has_all a1 = app_has_all a2 -> app_total a1 = app_total a2 ->
    (exists l, delivers E (app_all a1) l /\ delivers E (app_all a2) l) ->
    (forall af bf limit, exists l, delivers E (app_edges a1 af bf limit) l /\ delivers E (app_edges a2 af bf limit) l) ->
    let plan a := [(key, plan_of_result C E cur encode node k_edges k_page_info k_total k_cursor k_node k_prev k_next k_start k_end
                           (fst (resolve C E ltb cur encode decode a ar)))] in
    Fut.AsyncRun.fair sigma1 -> Fut.AsyncRun.fair sigma2 ->
    (Fut.Plan.count_async (plan a1) <= fuel1)%nat -> (Fut.Plan.count_async (plan a2) <= fuel2)%nat ->
    (Fut.FutProofs.resp_depth (plan a1) < jfuel)%nat ->
    exists r1 r2,
      Fut.ExecAsync.run Fut.ExecAsync.fixed_flags sigma1 md fuel1 jfuel (plan a1) = Fut.ExecAsync.Done r1 /\
      Fut.ExecAsync.run Fut.ExecAsync.fixed_flags sigma2 md fuel2 jfuel (plan a2) = Fut.ExecAsync.Done r2 /\
      Fut.ExecAsync.r_data r1 = Fut.ExecAsync.r_data r2 /\
      Fut.FutSpec.conforms (plan a1) (Fut.ExecAsync.r_data r1) (Fut.ExecAsync.r_errors r1) /\
      Fut.FutSpec.conforms (plan a1) (Fut.ExecAsync.r_data r2) (Fut.ExecAsync.r_errors r2).
Proof. exact connection_promise_composes. Qed.

Print Assumptions C09_relay_edges_eq.
Print Assumptions C09_relay_literal_agrees.
Print Assumptions C09_relay_sorted.
Print Assumptions C09_relay_cursors.
Print Assumptions C09_relay_has_next_required.
Print Assumptions C09_relay_has_next_allowed.
Print Assumptions C09_relay_has_next_sound.
Print Assumptions C09_relay_has_prev_required.
Print Assumptions C09_relay_has_prev_allowed.
Print Assumptions C09_relay_has_prev_sound.
Print Assumptions C09_relay_arg_errors.
Print Assumptions C09_connection_response.
Print Assumptions C09_relay_total_count.
Print Assumptions C09_relay_window_equiv.
Print Assumptions C09_relay_promise_equiv.
Print Assumptions C09_walk_forward_exact.
Print Assumptions C09_walk_backward_exact.
Print Assumptions C09_arbitrary_cursor_any_codec.
Print Assumptions C09_cursor_roundtrip.
Print Assumptions C09_cursor_encode_nonempty.
Print Assumptions C09_walk_forward_exact_codec.
Print Assumptions C09_walk_backward_exact_codec.
Print Assumptions C09_serialize_failure_cases.
Print Assumptions C09_model_f_refines.
Print Assumptions C09_connection_response_f.
Print Assumptions C09_forward_only.
Print Assumptions C09_backward_only.
Print Assumptions C09_first_last_prev_exact.
Print Assumptions C09_first_last_dilemma.
Print Assumptions C09_skip_terminates.
Print Assumptions C09_cursor_decode_terminates.
Print Assumptions C09_cursor_decode_fuel_irrelevant.
Print Assumptions C09_cursor_decode_total.
Print Assumptions C09_cursor_decode_bounded.
Print Assumptions C09_cursor_decode_input_bounded.
Print Assumptions C09_cursor_roundtrip_f.
Print Assumptions C09_cursor_ok_time.
Print Assumptions C09_cursor_order.
Print Assumptions C09_promise_composes_with_executor.
Print Assumptions C09_cost_bounds_page.
Print Assumptions C09_walk_forward_exact_dir_codec.
Print Assumptions C09_walk_backward_exact_dir_codec.
Print Assumptions C09_time_resolve_edges_delivers.
Print Assumptions C09_arbitrary_cursor.
Print Assumptions C09_skip_depth_agrees.
Print Assumptions C09_skip_depth_bounded.
