(** * C09 — connections implement the Relay cursor algorithm; paging visits each edge once.

    This file contains only statements, each closed by [exact], and their [Print Assumptions].

    Vocabulary (RelaySpec.v, written from the GraphQL Cursor Connections Specification):
      [connection_of edges S]   S is the strictly increasing (by cursor) permutation of [edges]; its
                                existence says the cursors are distinct
      [spec_edges S before after first last]   the Relay EdgesToReturn over S, cursors read as
                                positions in the order; [None] = "throw an error"
      [relay_edges_to_return]   the literal Relay text (a cursor without an edge is ignored)
      [has_next_required/allowed], [has_prev_required/allowed]   the HasNextPage / HasPreviousPage
                                algorithms: the value the text demands and the value it permits
      [edge_beyond_end all page], [edge_before_start all page]   an edge of the connection that is
                                not on the page and lies beyond / before every edge of the page
      [walk_forward], [walk_backward]   the paging client
    Model (RelayModel.v, transcription of the Go code):
      [edges_to_return]         pagination.EdgesToReturn
      [serve a ar]              what a client observes of the field built by Connection(config)
                                for the application callbacks [a] and the arguments [ar]
    Applications (RelayProofs.v):
      [app_all_ok a edges S]    ResolveAllEdges hands over [edges], directly or as a promise
      [app_window_ok a S]       ResolveEdges hands over, directly or as a promise, some list made
                                of edges of S without repetition that contains at least the first
                                [limit] (last [-limit]) edges between the two cursors;
                                ResolveTotalCount answers the size of the connection
      [app_ok a edges S]        [connection_of edges S] and one of the two *)
From Coq Require Import List ZArith Bool Sorting.Sorted Sorting.Permutation.
From ApiFu Require Import Base.Sexp Relay.CursorCodec Relay.CursorCodecProofs
     Relay.RelayModel Relay.RelaySpec Relay.RelayProofs Relay.RelayInstance.
Import ListNotations.
Open Scope Z_scope.

Section C09.
  (** the application's ConnectionConfig: decoded cursor values with cursorLess, edge values with
      EdgeCursor, SerializeCursor / DeserializeCursor at CursorType *)
  Variables C E : Type.
  Variable ltb : C -> C -> bool.
  Variable cur : E -> C.
  Variable encode : C -> bytes.
  Variable decode : bytes -> option C.

  (** cursors are totally ordered *)
  Hypothesis ltb_irrefl : forall a, ltb a a = false.
  Hypothesis ltb_trans : forall a b c, ltb a b = true -> ltb b c = true -> ltb a c = true.
  Hypothesis ltb_total : forall a b, ltb a b = true \/ a = b \/ ltb b a = true.

  (** ** Stage 1 — pagination.EdgesToReturn, for every edge list, every cursor position and
      every first/last (also both, also negative) *)

  (** returned edges = the specification's; Go's slice panic on a negative count is the
      specification's "throw an error" *)
  Theorem C09_relay_edges_eq : forall edges S after before first last,
    connection_of C E ltb cur edges S ->
    match edges_to_return C E ltb cur edges after before first last with
    | Ret (page, _) => spec_edges C E ltb cur S before after first last = Some page
    | Panic => spec_edges C E ltb cur S before after first last = None
    end.
  Proof. exact (edges_eq C E ltb cur ltb_irrefl ltb_trans ltb_total). Qed.

  (** the position reading of cursors is the literal Relay algorithm whenever the cursors are
      cursors of edges and [after] precedes [before] *)
  Theorem C09_relay_literal_agrees : forall S after before,
    ordered C E ltb cur S ->
    is_cursor_of C E cur S after -> is_cursor_of C E cur S before ->
    (forall a b, after = Some a -> before = Some b -> ltb a b = true) ->
    relay_apply_cursors C E ltb cur S before after = position_apply_cursors C E ltb cur S before after.
  Proof. exact (relay_literal_agrees C E ltb cur ltb_irrefl ltb_trans ltb_total). Qed.

  (** in cursor order *)
  Theorem C09_relay_sorted : forall edges S after before first last page pi,
    connection_of C E ltb cur edges S ->
    edges_to_return C E ltb cur edges after before first last = Ret (page, pi) ->
    StronglySorted (fun x y => ltb (cur x) (cur y) = true) page.
  Proof. exact (page_sorted C E ltb cur ltb_irrefl ltb_trans ltb_total). Qed.

  (** startCursor / endCursor are the cursors of the first / last returned edge *)
  Theorem C09_relay_cursors : forall edges after before first last page pi,
    edges_to_return C E ltb cur edges after before first last = Ret (page, pi) ->
    pi_start pi = option_map cur (hd_error page) /\ pi_end pi = option_map cur (last_error page).
  Proof. exact (page_cursors C E ltb cur). Qed.

  (** hasNextPage: true whenever the specification requires it, only when it allows it, and
      never when no further edge exists in that direction *)
  Theorem C09_relay_has_next_required : forall edges S after before first last page pi,
    connection_of C E ltb cur edges S ->
    edges_to_return C E ltb cur edges after before first last = Ret (page, pi) ->
    has_next_required C E ltb cur S before after first = true -> pi_next pi = true.
  Proof. exact (has_next_required_holds C E ltb cur ltb_irrefl ltb_trans ltb_total). Qed.

  Theorem C09_relay_has_next_allowed : forall edges S after before first last page pi,
    connection_of C E ltb cur edges S ->
    edges_to_return C E ltb cur edges after before first last = Ret (page, pi) ->
    pi_next pi = true -> has_next_allowed C E ltb cur S before after first = true.
  Proof. exact (has_next_allowed_holds C E ltb cur ltb_irrefl ltb_trans ltb_total). Qed.

  Theorem C09_relay_has_next_sound : forall edges S after before first last page pi,
    connection_of C E ltb cur edges S ->
    edges_to_return C E ltb cur edges after before first last = Ret (page, pi) ->
    pi_next pi = true -> edge_beyond_end C E ltb cur edges page.
  Proof. exact (has_next_sound C E ltb cur ltb_irrefl ltb_trans ltb_total). Qed.

  (** hasPreviousPage likewise.  With [first] and [last] together (which a connection field
      rejects) EdgesToReturn answers "are there more than [last] edges among the first [first]",
      the specification's formula counts all edges of the range: required-ness is stated for the
      other combinations, allowed-ness and soundness for all. *)
  Theorem C09_relay_has_prev_required : forall edges S after before first last page pi,
    connection_of C E ltb cur edges S ->
    edges_to_return C E ltb cur edges after before first last = Ret (page, pi) ->
    both_given first last = false ->
    has_prev_required C E ltb cur S before after last = true -> pi_prev pi = true.
  Proof. exact (has_prev_required_holds C E ltb cur ltb_irrefl ltb_trans ltb_total). Qed.

  Theorem C09_relay_has_prev_allowed : forall edges S after before first last page pi,
    connection_of C E ltb cur edges S ->
    edges_to_return C E ltb cur edges after before first last = Ret (page, pi) ->
    pi_prev pi = true -> has_prev_allowed C E ltb cur S before after last = true.
  Proof. exact (has_prev_allowed_holds C E ltb cur ltb_irrefl ltb_trans ltb_total). Qed.

  Theorem C09_relay_has_prev_sound : forall edges S after before first last page pi,
    connection_of C E ltb cur edges S ->
    edges_to_return C E ltb cur edges after before first last = Ret (page, pi) ->
    pi_prev pi = true -> edge_before_start C E ltb cur edges page.
  Proof. exact (has_prev_sound C E ltb cur ltb_irrefl ltb_trans ltb_total). Qed.

  (** ** The connection field *)

  (** a negative count, a missing count, first and last together: an error (whatever the
      application does), not a crash *)
  Theorem C09_relay_arg_errors : forall (a : app C E) ar,
    args_rejected (a_first ar) (a_last ar) = true ->
    exists e, serve C E ltb cur encode decode a ar = RError e /\
              (e = EFirstNegative \/ e = EBothFirstLast \/ e = ELastNegative \/ e = ENoCount).
  Proof. exact (arg_errors C E ltb cur encode decode). Qed.

  (** one accepted request, in either mode, sync or promise: exactly the Relay edges, in cursor
      order, start/end cursors serialised from the first/last returned edge ([""] when there is
      none), flags within [required, allowed] and never without a further edge, totalCount the
      size of the connection.  [af], [bf]: what the cursor arguments decode to ([None] for an
      absent, null or empty argument). *)
  Theorem C09_connection_response : forall (a : app C E) edges S ar af bf,
    app_ok C E ltb cur a edges S ->
    args_rejected (a_first ar) (a_last ar) = false ->
    decode_arg C decode (a_after ar) EInvalidAfter = Ok af ->
    decode_arg C decode (a_before ar) EInvalidBefore = Ok bf ->
    exists page sp,
      serve C E ltb cur encode decode a ar = RData page (Ok sp) (Ok (len S)) /\
      spec_edges C E ltb cur S bf af (a_first ar) (a_last ar) = Some page /\
      ordered C E ltb cur page /\
      sp_start sp = match hd_error page with Some e => encode (cur e) | None => [] end /\
      sp_end sp = match last_error page with Some e => encode (cur e) | None => [] end /\
      (has_next_required C E ltb cur S bf af (a_first ar) = true -> sp_next sp = true) /\
      (sp_next sp = true -> has_next_allowed C E ltb cur S bf af (a_first ar) = true) /\
      (has_prev_required C E ltb cur S bf af (a_last ar) = true -> sp_prev sp = true) /\
      (sp_prev sp = true -> has_prev_allowed C E ltb cur S bf af (a_last ar) = true) /\
      (sp_next sp = true -> edge_beyond_end C E ltb cur S page) /\
      (sp_prev sp = true -> edge_before_start C E ltb cur S page).
  Proof. exact (serve_ok C E ltb cur ltb_irrefl ltb_trans ltb_total encode decode). Qed.

  Theorem C09_relay_total_count : forall (a : app C E) edges S ar af bf,
    app_ok C E ltb cur a edges S ->
    args_rejected (a_first ar) (a_last ar) = false ->
    decode_arg C decode (a_after ar) EInvalidAfter = Ok af ->
    decode_arg C decode (a_before ar) EInvalidBefore = Ok bf ->
    exists page pi, serve C E ltb cur encode decode a ar = RData page pi (Ok (Z.of_nat (length edges))).
  Proof. exact (total_count C E ltb cur ltb_irrefl ltb_trans ltb_total encode decode). Qed.

  (** ** Stage 2 *)

  (** limited-window mode = all-edges mode: same edges, same cursors, same totalCount, the same
      flag in the direction of travel, and a flag that can only be weaker in the other direction
      (so it stays within [required, allowed] by [C09_connection_response]) *)
  Theorem C09_relay_window_equiv : forall (a1 a2 : app C E) edges S ar af bf,
    connection_of C E ltb cur edges S ->
    app_all_ok C E a1 edges S -> app_window_ok C E ltb cur a2 S ->
    args_rejected (a_first ar) (a_last ar) = false ->
    decode_arg C decode (a_after ar) EInvalidAfter = Ok af ->
    decode_arg C decode (a_before ar) EInvalidBefore = Ok bf ->
    exists page sp1 sp2,
      serve C E ltb cur encode decode a1 ar = RData page (Ok sp1) (Ok (len S)) /\
      serve C E ltb cur encode decode a2 ar = RData page (Ok sp2) (Ok (len S)) /\
      sp_start sp2 = sp_start sp1 /\ sp_end sp2 = sp_end sp1 /\
      (a_first ar <> None -> sp_next sp2 = sp_next sp1 /\ (sp_prev sp2 = true -> sp_prev sp1 = true)) /\
      (a_last ar <> None -> sp_prev sp2 = sp_prev sp1 /\ (sp_next sp2 = true -> sp_next sp1 = true)).
  Proof. exact (window_equiv C E ltb cur ltb_irrefl ltb_trans ltb_total encode decode). Qed.

  (** directly or through a promise: the same answer, for all arguments (also rejected ones) *)
  Theorem C09_relay_promise_equiv : forall (a1 a2 : app C E) ar,
    app_has_all a1 = app_has_all a2 -> app_total a1 = app_total a2 ->
    (exists l, delivers E (app_all a1) l /\ delivers E (app_all a2) l) ->
    (forall af bf limit, exists l, delivers E (app_edges a1 af bf limit) l /\ delivers E (app_edges a2 af bf limit) l) ->
    serve C E ltb cur encode decode a1 ar = serve C E ltb cur encode decode a2 ar.
  Proof. exact (promise_equiv C E ltb cur encode decode). Qed.

  (** following endCursor with [after] (startCursor with [before]) with any page size n >= 1
      visits every edge exactly once, in order: the concatenation of the pages is the connection.
      Hypotheses: every emitted cursor is accepted back and denotes the same position, and no
      serialised cursor is the empty string (both proved for the real codec below).  Fuel: one
      request more than there are edges always suffices ([OutOfFuel] is a distinct outcome). *)
  Theorem C09_walk_forward_exact : forall (a : app C E) edges S,
    app_ok C E ltb cur a edges S ->
    (forall e, In e S -> decode (encode (cur e)) = Some (cur e)) ->
    (forall c, encode c <> []) ->
    forall n, 1 <= n ->
    walk_forward E (as_server C E ltb cur encode decode a) n (Datatypes.S (length S)) None = Done S.
  Proof. exact (walk_forward_exact C E ltb cur ltb_irrefl ltb_trans ltb_total encode decode). Qed.

  Theorem C09_walk_backward_exact : forall (a : app C E) edges S,
    app_ok C E ltb cur a edges S ->
    (forall e, In e S -> decode (encode (cur e)) = Some (cur e)) ->
    (forall c, encode c <> []) ->
    forall n, 1 <= n ->
    walk_backward E (as_server C E ltb cur encode decode a) n (Datatypes.S (length S)) None = Done S.
  Proof. exact (walk_backward_exact C E ltb cur ltb_irrefl ltb_trans ltb_total encode decode). Qed.

  (** Arbitrary cursor strings: rejected with an error or treated as some position in the cursor
      order.  Full statement of C09: "arbitrary cursor strings never crash the server — they are
      either rejected with an error or treated as some position in the cursor order."
      Proved here: the dichotomy, for the model, whose DeserializeCursor is a total function.
      Missing (hence _partial): that the real base64 / msgpack decoders cannot panic or exhaust
      memory on malformed input — they are transcribed in CursorCodec.v and compared with the
      real ones on every hostile string of the run, and their behaviour is observed under recover
      and a memory limit, but Go's memory safety is not modelled. *)
  Theorem C09_arbitrary_cursor_partial : forall (a : app C E) edges S ar,
    app_ok C E ltb cur a edges S ->
    args_rejected (a_first ar) (a_last ar) = false ->
    serve C E ltb cur encode decode a ar = RError EInvalidAfter \/
    serve C E ltb cur encode decode a ar = RError EInvalidBefore \/
    exists af bf, response_ok C E ltb cur encode S af bf (a_first ar) (a_last ar)
                    (serve C E ltb cur encode decode a ar).
  Proof. exact (arbitrary_cursor C E ltb cur ltb_irrefl ltb_trans ltb_total encode decode). Qed.
End C09.

(** ** The real codec (SerializeCursor / DeserializeCursor for Go int and string cursors) *)

(** Deserialize(Serialize(c)) = c for every 64-bit int and every string shorter than 2^32 *)
Theorem C09_cursor_roundtrip : forall c, cursor_ok c -> cursor_decode (kind_of c) (cursor_encode c) = Some c.
Proof. exact cursor_roundtrip. Qed.

Theorem C09_cursor_encode_nonempty : forall c, cursor_encode c <> [].
Proof. exact cursor_encode_nonempty. Qed.

(** the hypotheses of the walk theorems hold for the real codec and the harness's cursor order *)
Theorem C09_walk_forward_exact_codec : forall (E : Type) (cur : E -> cursor) (k : kind) (a : app cursor E) edges S,
  app_ok cursor E cursor_ltb cur a edges S ->
  (forall e, In e S -> kind_of (cur e) = k /\ cursor_ok (cur e)) ->
  forall n, 1 <= n ->
  walk_forward E (as_server cursor E cursor_ltb cur cursor_encode (cursor_decode k) a) n (Datatypes.S (length S)) None = Done S.
Proof. exact walk_forward_codec. Qed.

Theorem C09_walk_backward_exact_codec : forall (E : Type) (cur : E -> cursor) (k : kind) (a : app cursor E) edges S,
  app_ok cursor E cursor_ltb cur a edges S ->
  (forall e, In e S -> kind_of (cur e) = k /\ cursor_ok (cur e)) ->
  forall n, 1 <= n ->
  walk_backward E (as_server cursor E cursor_ltb cur cursor_encode (cursor_decode k) a) n (Datatypes.S (length S)) None = Done S.
Proof. exact walk_backward_codec. Qed.

Print Assumptions C09_relay_edges_eq.
Print Assumptions C09_relay_literal_agrees.
Print Assumptions C09_relay_sorted.
Print Assumptions C09_relay_cursors.
Print Assumptions C09_relay_has_next_required.
Print Assumptions C09_relay_has_next_allowed.
Print Assumptions C09_relay_has_next_sound.
Print Assumptions C09_relay_has_prev_required.
Print Assumptions C09_relay_has_prev_allowed.
Print Assumptions C09_relay_has_prev_sound.
Print Assumptions C09_relay_arg_errors.
Print Assumptions C09_connection_response.
Print Assumptions C09_relay_total_count.
Print Assumptions C09_relay_window_equiv.
Print Assumptions C09_relay_promise_equiv.
Print Assumptions C09_walk_forward_exact.
Print Assumptions C09_walk_backward_exact.
Print Assumptions C09_arbitrary_cursor_partial.
Print Assumptions C09_cursor_roundtrip.
Print Assumptions C09_cursor_encode_nonempty.
Print Assumptions C09_walk_forward_exact_codec.
Print Assumptions C09_walk_backward_exact_codec.
