(** * C18 — persisted-query lookups only ever execute the document with that SHA-256.
    This file contains only statements closed by [exact] and their [Print Assumptions]. *)
From Coq Require Import List NArith.
From ApiFu Require Import Base.Sexp Api.PersistedQueryModel Api.PersistedQuerySpec Api.PersistedQueryProofs Api.Sha256.
Import ListNotations.

Section C18.
  Variable sha : bytes -> bytes.
  Hypothesis sha_len : forall t, length (sha t) = 32%nat.

  (** storage contents subset-of {(sha256(t), t)} after every history *)
  Theorem C18_storage_inv : forall rs,
    Forall (fun p => fst p = sha (snd p) /\ snd p <> []) (fst (run sha false [] rs)).
  Proof. exact (storage_inv sha). Qed.

  (** every response equals the response of the reference keeping the registered texts *)
  Theorem C18_refines_spec : forall rs,
    map fst (snd (run sha false [] rs)) = spec_run sha [] rs.
  Proof. exact (refines_spec sha sha_len). Qed.

  (** a hash-only request executes t only if the hash string is the hex spelling of sha t and t
      was registered earlier on this storage (or t is the empty text) *)
  Theorem C18_lookup_exact : forall rs e t,
    ext_version_one e = true ->
    snd (fst (step sha false (fst (run sha false [] rs)) {| rq_query := []; rq_ext := Some e |})) = Exec t ->
    map lower (ext_hash e) = hex_encode (sha t) /\ (t = [] \/ In t (registered rs)).
  Proof. exact (lookup_exact sha sha_len). Qed.

  Theorem C18_lookup_complete : forall rs e t,
    ext_version_one e = true -> In t (registered rs) -> denotes (ext_hash e) = Some (sha t) ->
    exists t', snd (fst (step sha false (fst (run sha false [] rs)) {| rq_query := []; rq_ext := Some e |})) = Exec t'
               /\ sha t' = sha t.
  Proof. exact (lookup_complete sha sha_len). Qed.

  Theorem C18_text_wins : forall st r c q, rq_query r = c :: q ->
    snd (fst (step sha false st r)) = Exec (c :: q) /\
    (fst (fst (step sha false st r)) = st \/ fst (fst (step sha false st r)) = (sha (c :: q), c :: q) :: st).
  Proof. exact (text_wins sha). Qed.

  Theorem C18_disabled_equiv : forall st r,
    (rq_ext r = None \/ exists e, rq_ext r = Some e /\ ext_version_one e = false) ->
    step sha false st r = (st, Exec (rq_query r), []).
  Proof. exact (disabled_equiv sha). Qed.
End C18.

(** The same statements for the digest function the property names: [Api/Sha256.v] is FIPS 180-4
    SHA-256 in Gallina (the correspondence check recomputes with it every digest the harness
    obtained from Go's crypto/sha256, so the section variable above is no longer an assumption
    about the harness).  [sha_len] is discharged by [sha256_len]. *)
Theorem C18_storage_inv_sha256 : forall rs,
  Forall (fun p => fst p = sha256 (snd p) /\ snd p <> []) (fst (run sha256 false [] rs)).
Proof. exact (storage_inv sha256). Qed.

Theorem C18_refines_spec_sha256 : forall rs,
  map fst (snd (run sha256 false [] rs)) = spec_run sha256 [] rs.
Proof. exact (refines_spec sha256 sha256_len). Qed.

Theorem C18_lookup_exact_sha256 : forall rs e t,
  ext_version_one e = true ->
  snd (fst (step sha256 false (fst (run sha256 false [] rs)) {| rq_query := []; rq_ext := Some e |})) = Exec t ->
  map lower (ext_hash e) = hex_encode (sha256 t) /\ (t = [] \/ In t (registered rs)).
Proof. exact (lookup_exact sha256 sha256_len). Qed.

Theorem C18_lookup_complete_sha256 : forall rs e t,
  ext_version_one e = true -> In t (registered rs) -> denotes (ext_hash e) = Some (sha256 t) ->
  exists t', snd (fst (step sha256 false (fst (run sha256 false [] rs)) {| rq_query := []; rq_ext := Some e |})) = Exec t'
             /\ sha256 t' = sha256 t.
Proof. exact (lookup_complete sha256 sha256_len). Qed.

(** every digest is 32 bytes, each below 256 — for every message, of any length *)
Theorem C18_sha256_digest_shape : forall m,
  length (sha256 m) = 32%nat /\ Forall (fun b => (b < 256)%N) (sha256 m).
Proof. exact (fun m => conj (sha256_len m) (sha256_byte_range m)). Qed.

(** the repaired defect, kept as a witness: with the hex error ignored the property is false *)
Theorem C18_refuted_when_hex_error_ignored :
  exists (rs : list request) (e : ext) (t : bytes),
    ext_version_one e = true /\
    snd (fst (step toy_sha true (fst (run toy_sha true [] rs)) {| rq_query := []; rq_ext := Some e |})) = Exec t /\
    map lower (ext_hash e) <> hex_encode (toy_sha t).
Proof. exact lookup_exact_refuted_when_hex_error_ignored. Qed.

Print Assumptions C18_storage_inv.
Print Assumptions C18_refines_spec.
Print Assumptions C18_lookup_exact.
Print Assumptions C18_lookup_complete.
Print Assumptions C18_text_wins.
Print Assumptions C18_disabled_equiv.
Print Assumptions C18_refuted_when_hex_error_ignored.
Print Assumptions C18_storage_inv_sha256.
Print Assumptions C18_refines_spec_sha256.
Print Assumptions C18_lookup_exact_sha256.
Print Assumptions C18_lookup_complete_sha256.
Print Assumptions C18_sha256_digest_shape.
