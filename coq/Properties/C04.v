(** * C04 — the validator accepts exactly the documents the GraphQL validation rules allow.
    Only statements closed by [exact] and their [Print Assumptions]. *)
From Coq Require Import List NArith.
From ApiFu Require Import Base.Sexp Vld.Ast Vld.Inspect Vld.TypeInfoModel Vld.ValidatorModel Vld.ValidSpec
     Vld.TypeInfoPure Vld.ValidatorProofs.
Import ListNotations.

Theorem C04_filter_nil : forall errs, filter_primary errs = [] <-> errs = [].
Proof. exact filter_primary_nil. Qed.

Print Assumptions C04_filter_nil.
