(** * C04 — the validator accepts exactly the documents the GraphQL validation rules allow.
    Only statements closed by [exact] and their [Print Assumptions].

    Reading guide.  [validate_model q pi S F D] is the transcription of validator.ValidateDocument
    (after graphql.ParseAndValidate has parsed the document): NewTypeInfo, the eight rule groups in
    pipeline order, the primary / secondary filter.  [q] switches each repair made in the repository
    on or off ([repaired]: the code as it is now); [pi] is the order in which Go's [range] visits the
    entries of a map (any permutation, [order_ok]); [Done errs] is the list of errors returned,
    [Done []] = accepted.  [Valid S F D] and [valid_5_x_y] are the specification's chapter 5
    (ValidSpec.v), [F] the features enabled for the request.

    FULL STATEMENT (DESIGN section 4), of which the theorems below prove the part marked proved:

      validate_verdict   : order_ok pi -> schema_ok S = true -> [further decidable hypotheses, below] ->
                           (validate_model repaired pi S F D = Done [] <-> Valid S F D)
      validate_error_located : order_ok pi -> In e errs -> validate_model repaired pi S F D = Done errs ->
                           e_locs e <> [] /\ every location is the position of a node of D

    proved here:  - never Panic / OutOfFuel, any schema and document          (C04_validate_no_panic)
                  - the verdict does not depend on pi                         (C04_accept_deterministic, C04_verdict_deterministic)
                  - accepted <-> every rule group silent                      (C04_accepted_iff_rules_silent)
                  - rule group <-> specification section, for 5.7 (directives), 5.5.1 (fragment
                    declarations), 5.4 (arguments), 5.6 (values), 5.2.1.1 / 5.2.2.1 / root types
                    (operations), each in both directions
                    (the C04_rule_..._iff theorems), and what this gives for the pipeline        (C04_validate_verdict_partial,
                                                                               C04_violation_rejected_partial)
                  - the cycle search of 5.5.2.2 and the work list of 5.8 against order-free
                    characterisations                                         (C04_cycle_search_iff, C04_variables_rule_iff)
                  - the secondary-error filter                                (the C04_filter_... theorems), NewTypeInfo total
                  - accepted -> 5.3.1, 5.3.3, every field defined, hence 5.4 without side condition
                                                                              (C04_accepted_fields_hold, C04_accepted_arguments_hold)
                  - a secondary error is never returned: when no rule group reports a primary error, no
                    rule group reports anything (both pipelines)                 (C04_secondary_never_alone, C04_no_primary_then_nothing)
                  - accepted -> 5.5.2.2 and 5.8.1 - 5.8.5 in the Spec's own formulation; the Spec's
                    fuel-bounded reachability is the transitive closure; accepted -> 5.5.2.3 and, unconditionally, 5.6
                                                                              (C04_accepted_cycles_variables, C04_spec_reachable_from,
                                                                               C04_accepted_spreads_possible, C04_accepted_valid_sections)
                  - the converse directions for 5.3.1 / 5.3.3, 5.5.2.1 - 5.5.2.3 and 5.8, and with them
                    validate_verdict up to 5.2.3.1 and 5.3.2: accepted <-> all other sections hold and the
                    subscription check and the overlapping-fields pass (in the model's terms) find nothing
                                                                              (C04_fields_valid_silent, C04_spreads_valid_no_primary,
                                                                               C04_variables_valid_no_primary, C04_verdict_up_to_two_rules_partial)
                  - addFieldSelections files exactly the inductively collected fields ([InC]) when selection
                    sets sit at distinct positions                               (C04_collect_complete, C04_collect_sound,
                                                                               C04_subscription_single_root_model)
                  - 5.2.3.1: the Spec's CollectFields holds exactly the inductively collected fields, so the
                    subscription check is 5.2.3.1; validate_verdict up to 5.3.2 alone   (C04_spec_collected_complete,
                                                                               C04_subscription_check_is_5_2_3_1, C04_verdict_up_to_merge_partial)
                  - 5.3.2, soundness (accepted -> the fields under one response key can merge, recursively),
                    fields defined on every possible object type, acyclicity as chains
                                                                              (C04_accepted_merge_sound, C04_fields_defined_on_possible,
                                                                               C04_spreads_silent_acyclic_chains)
                  - SOUNDNESS: accepted -> Valid, every section of chapter 5 in the Spec's own formulation,
                    5.3.2 included                                               (C04_accepted_valid, C04_accepted_5_3_2)
                  - COMPLETENESS for 5.3.2: the Spec's FieldsInSetCanMerge holds of every selection set (and the
                    sections it leans on hold) -> the overlapping-fields pass reports nothing; its ingredients:
                    the Spec's [collected] is complete with the parent each field is collected under; what
                    addFieldSelections files stands for a member of [collected]; SameResponseShape and
                    FieldsInSetCanMerge are symmetric, commute with the order of two appended lists and are
                    monotone in the fuel; a located field merges with itself (its sub-selections are the
                    [collected] list of a selection set of the document)
                                                                              (C04_valid_merge_pass_silent,
                                                                               C04_spec_collected_complete_parents, C04_filed_collected,
                                                                               C04_spec_same_response_shape_sym, C04_spec_fields_can_merge_comm,
                                                                               C04_spec_shape_fuel_monotone, C04_spec_merge_fuel_monotone,
                                                                               C04_located_subfields_merge)
                  - validate_verdict: accepted <-> Valid, for the pipeline as it is (with the checked-pairs
                    memo) and for the one before it, under DECIDABLE hypotheses that the extracted checker
                    evaluates on every case: on the schema schema_ok, schema_args_ok, schema_impls_ok,
                    schema_defaults_ok, schema_types_wf (Hyps.v); on the document: selection sets and fields
                    sit at pairwise distinct positions (true of every parsed document)
                                                                              (C04_validate_verdict, C04_validate_verdict_plain,
                                                                               C04_invalid_rejected)
                  - validate_error_located: every error the validator returns (with the memo and without) carries
                    at least one location and each of its locations is the position of a node of the document -
                    of a node ast.Inspect visits or of the type condition of a fragment definition, which it
                    does not visit ([all_node_positions], the list the check compares reported locations with);
                    no hypothesis on the schema or the document.  Rule group by rule group (operations, both
                    field visitors incl. the overlapping-fields pass, arguments, fragment declarations, spreads
                    and the cycle search, values incl. validateCoercion, directives, variables incl. the work
                    list), from: every subtree of the document's tree is the tree ast.Inspect walks beneath its
                    root node, so the parts of a visited node are nodes of the document; NewTypeInfo moves nothing
                                                                              (C04_validate_error_located, C04_validate_error_located_plain,
                                                                               C04_node_closure, C04_node_positions_annotated)
    Both statements of DESIGN section 4 are proved.  The theorems named ..._partial are the earlier,
    weaker forms of validate_verdict; they are kept because other properties cite them. *)
From Coq Require Import List NArith Bool.
From ApiFu Require Import Base.Sexp Vld.Ast Vld.Inspect Vld.InspectProofs Vld.TypeInfoModel Vld.TypeInfoPure Vld.ValidatorModel Vld.ValidSpec
     Vld.Hyps Vld.ProofsCommon Vld.ProofsDirectives Vld.ProofsArguments Vld.ProofsFragDecl Vld.ProofsValues
     Vld.ProofsCycles Vld.ProofsVarsOrder Vld.ProofsOrder Vld.ProofsOperations Vld.ProofsTotal Vld.Enumerate Vld.ProofsFields Vld.ProofsMemo Vld.ValidatorProofs Vld.ProofsSpreads Vld.ProofsSecondary Vld.ProofsSecondaryAll Vld.ProofsSpreadsSpec Vld.ProofsFieldsConverse Vld.ProofsVarsConverse Vld.ProofsComplete Vld.ProofsCollect Vld.ProofsMergeSound Vld.ProofsMergeNames Vld.ProofsMergeLocal Vld.ProofsCollectEntries Vld.ProofsMergeSpec Vld.ProofsValid Vld.ProofsPossibleFields Vld.ProofsSpecCollect Vld.ProofsSubscription Vld.ProofsSpecReach Vld.ProofsVarsSpec Vld.ProofsDepth Vld.ProofsDepthRule Vld.MemoTransfer Vld.ProofsMemoConverse Vld.MemoEquiv Vld.ProofsTypeInfoValues Vld.Witness Vld.ProofsSpecMergeTheory Vld.ProofsSpecCollectP Vld.ProofsSpecLoc Vld.ProofsMergeBridge Vld.ProofsMergeComplete Vld.ProofsVerdict Vld.ValidatorCheck Vld.ProofsLocatedBase Vld.ProofsLocated Vld.ProofsLocatedPos Vld.ProofsLocatedAll.
Import ListNotations.

(** ** determinism: acceptance is a function of schema, features and document alone *)
Theorem C04_accept_deterministic : forall pi1 pi2 S F D,
  order_ok pi1 -> order_ok pi2 ->
  (validate_model repaired pi1 S F D = Done [] <-> validate_model repaired pi2 S F D = Done []).
Proof. exact validate_accept_order. Qed.

(** the repaired validator never panics and never runs out of fuel: for EVERY schema, feature set
    and document (no well-formedness assumed: undefined fragments, spread cycles, unknown types,
    selection sets on leaves, ... included) and every map order the outcome is a list of errors.
    The only premise is that a Go range visits each map entry once.  (Exported to C03.) *)
Theorem C04_validate_no_panic : forall pi S F D,
  order_ok pi -> exists errs, validate_model repaired pi S F D = Done errs.
Proof. exact validate_no_panic. Qed.

(** hence the verdict proper: accepted under both orders, or rejected (a non-empty list of errors)
    under both *)
Theorem C04_verdict_deterministic : forall pi1 pi2 S F D,
  order_ok pi1 -> order_ok pi2 ->
  (validate_model repaired pi1 S F D = Done [] /\ validate_model repaired pi2 S F D = Done []) \/
  (exists e1 l1 e2 l2, validate_model repaired pi1 S F D = Done (e1 :: l1) /\ validate_model repaired pi2 S F D = Done (e2 :: l2)).
Proof. exact validate_verdict_order. Qed.

(** ** the checked-pairs memo of the overlapping-fields pass (repair 92e8fdd)
    [validate_model_memo] is ValidateDocument as it is on the current tree; [validate_model] is the
    same pipeline with the overlapping-fields pass without the two sets of checked pairs (the
    algorithm the other theorems of this file speak about).  Proved: the memoised validator is
    total, and it accepts whatever the plain one accepts (every check it makes, the plain one makes
    too).  NOT proved: the converse (the memo never hides a conflict) — it needs the acyclicity of
    the fragment graph that the spread rule establishes; the check compares the two on every case
    (mismatch memo-changes-model-verdict). *)
Theorem C04_validate_memo_no_panic : forall pi S F D,
  order_ok pi -> exists errs, validate_model_memo repaired pi S F D = Done errs.
Proof. exact validate_memo_no_panic. Qed.
Theorem C04_memo_accepts_what_plain_accepts_partial : forall q pi S F D,
  validate_model q pi S F D = Done [] -> validate_model_memo q pi S F D = Done [].
Proof. exact validate_memo_accepts. Qed.

(** what acceptance BY THE VALIDATOR AS IT IS (with the memo: the model the check ties to the code)
    guarantees over a well-formed schema: every section whose "accepted => holds" direction is
    proved, in one statement.  None of them depends on the overlapping-fields pass, so the open memo
    converse is not needed here. *)
Theorem C04_memo_accepted_valid : forall pi S F D,
  order_ok pi -> schema_ok S = true -> validate_model_memo repaired pi S F D = Done [] ->
  valid_5_2_1_1 D = true /\ valid_5_2_2_1 D = true /\ valid_root S D = true /\
  valid_5_3_1 S F D = true /\ valid_5_3_3 S F D = true /\ fields_defined S F D = true /\
  valid_5_4 S F D = true /\
  valid_5_5_1 S F D = true /\ valid_5_5_2_1 D = true /\
  (values_typed_input S F D = true -> valid_5_6 S F D = true) /\
  valid_5_7 S D = true.
Proof. exact memo_accepted_valid. Qed.

(** ** the depth bound of the overlapping-fields recursion
    "fragment cycle detected" (the secondary error EDepth of validateSameResponseShape, bound = number
    of fields + 1) is never reported for a document with uniquely named fragments and no spread
    cycle: every chain of fields nested through selection sets, inline fragments and fragment spreads
    ([Hle]) is then shorter than the number of fields — the definitions entered along a chain are
    pairwise distinct, and inside one definition the chain descends structurally.  This is the
    combinatorial half of the memo converse and of secondary_never_alone. *)
Theorem C04_depth_bound_suffices : forall D,
  NoDup (frag_names D) -> (forall n, In n (frag_names D) -> ~ exists x, reach D n x /\ edge D x n) ->
  forall ss f, In ss (all_subs D) -> InC D ss f -> Hle D (max_depth D) f.
Proof. exact depth_suffices. Qed.
Theorem C04_no_depth_error_without_cycle : forall pi, order_ok pi -> forall S F A,
  NoDup (frag_names A) -> (forall n, In n (frag_names A) -> ~ exists x, reach A n x /\ edge A x n) ->
  forall errs, rule_fields repaired pi S F A = Done errs -> forall e, In e errs -> e_kind e <> EDepth.
Proof. exact rule_fields_no_depth. Qed.
(** a silent cycle rule means: no fragment reaches itself *)
Theorem C04_spreads_silent_acyclic : forall pi S F A,
  order_ok pi -> rule_fragment_spreads repaired pi S F A = Done [] ->
  forall n, In n (frag_names A) -> ~ exists x, reach A n x /\ edge A x n.
Proof. exact silent_acyclic. Qed.

(** ** the memo never hides a conflict: the validator as it is = the memo-free pipeline
    For documents whose field occurrences have pairwise distinct positions ([field_positions_distinct]:
    the memo identifies a pair of fields by their two positions; true of parsed documents by
    C06_parse_pos_injective / C06_parse_bytes_pos_injective).  After a silent memoised run the two
    sets of checked pairs are a certificate (every pair in them passed its local checks and its
    sub-pairs are again in the sets or passed theirs: ProofsMemoConverse.v); with the depth bound
    (accepted documents have no spread cycle) the plain pass then answers "ok".  Hence determinism
    for the model the check ties to the code. *)
Theorem C04_memo_equiv : forall pi S F D,
  order_ok pi -> field_positions_distinct (pti_doc (q_unwrap_obj repaired) S F D) ->
  (validate_model_memo repaired pi S F D = Done [] <-> validate_model repaired pi S F D = Done []).
Proof. exact validate_memo_iff. Qed.
Theorem C04_memo_accept_deterministic : forall pi1 pi2 S F D,
  order_ok pi1 -> order_ok pi2 -> field_positions_distinct (pti_doc (q_unwrap_obj repaired) S F D) ->
  (validate_model_memo repaired pi1 S F D = Done [] <-> validate_model_memo repaired pi2 S F D = Done []).
Proof. exact validate_memo_accept_order. Qed.
Theorem C04_memo_verdict_deterministic : forall pi1 pi2 S F D,
  order_ok pi1 -> order_ok pi2 -> field_positions_distinct (pti_doc (q_unwrap_obj repaired) S F D) ->
  (validate_model_memo repaired pi1 S F D = Done [] /\ validate_model_memo repaired pi2 S F D = Done []) \/
  (exists e1 l1 e2 l2, validate_model_memo repaired pi1 S F D = Done (e1 :: l1) /\ validate_model_memo repaired pi2 S F D = Done (e2 :: l2)).
Proof. exact validate_memo_verdict_order. Qed.
(** the same with the hypothesis on the document as parsed: NewTypeInfo does not touch positions
    ([field_positions D]: the positions of the field selections written in D, selection set by
    selection set) — dischargeable from C06_parse_pos_injective through the Syn -> Vld conversion *)
Theorem C04_field_positions_of_annotated : forall qo S F D,
  field_positions_distinct (pti_doc qo S F D) <-> doc_field_positions_distinct D.
Proof. exact field_positions_distinct_pti. Qed.
Theorem C04_memo_equiv_parsed : forall pi S F D,
  order_ok pi -> doc_field_positions_distinct D ->
  (validate_model_memo repaired pi S F D = Done [] <-> validate_model repaired pi S F D = Done []).
Proof. exact validate_memo_iff_parsed. Qed.
Theorem C04_memo_accept_deterministic_parsed : forall pi1 pi2 S F D,
  order_ok pi1 -> order_ok pi2 -> doc_field_positions_distinct D ->
  (validate_model_memo repaired pi1 S F D = Done [] <-> validate_model_memo repaired pi2 S F D = Done []).
Proof. exact validate_memo_accept_order_parsed. Qed.

(** the rule-level statement, for any quirks: a silent memoised overlapping-fields pass implies a
    silent plain one, given the depth bound for the collected fields *)
Theorem C04_memo_never_hides_a_conflict : forall pi, order_ok pi -> forall q S D,
  (forall x y, In x (occs D) -> In y (occs D) -> sel_pos (fst3 x) = sel_pos (fst3 y) -> x = y) ->
  forall F, (forall ss f, In ss (all_subs D) -> InC D ss f -> Hle D (max_depth D) f) ->
  rule_fields_m q pi S F D = Done [] -> rule_fields q pi S F D = Done [].
Proof. exact memo_converse_rule. Qed.

(** ** what NewTypeInfo records for argument values (interface to C05's bridge Val/BridgeC04Doc.v)
    The expected type of an argument value is the declared argument type with the location's default
    flag; of a list item the item type; of an object field the declared field type with the field's
    default flag (looking through list wrappers); and the errors the variables rule emits while it
    walks one annotated argument value are [usage_errs], a recursion over the UNannotated value of
    the shape of C05's [usage_ok]. *)
Theorem C04_typeinfo_arguments : forall qo S defs dnil args,
  ti_args qo S defs dnil args =
  map (fun a => {| a_name := a_name a; a_pos := a_pos a;
                   a_value := match match defs with Some l => assoc (a_name a) l | None => None end with
                              | Some def => ti_value qo S (Some (in_type def)) (dnil (in_default def)) (a_value a)
                              | None => ti_value qo S None false (a_value a)
                              end |}) args.
Proof. exact ti_args_spec. Qed.
Theorem C04_typeinfo_list_items : forall qo S sc e d a vs p,
  ti_value_in qo S sc e d (VList a vs p) =
  VList {| va_expected := e; va_default := d; va_scalar := sc |}
        (map (ti_value_in qo S (nested_mark S sc e (match list_item e with Some _ => true | None => false end)) (list_item e) false) vs) p.
Proof. exact ti_value_list. Qed.
Theorem C04_typeinfo_object_fields : forall qo S sc e d a fs p,
  ti_value_in qo S sc e d (VObject a fs p) =
  VObject {| va_expected := e; va_default := d; va_scalar := sc |} (map (object_field qo S sc e) fs) p.
Proof. exact ti_value_object. Qed.
Theorem C04_variable_usages_in_value : forall qo S vars v sc e dd,
  flat_map (var_fe vars) (vnodes var_g (tree_value (ti_value_in qo S sc e dd v))) = usage_errs qo S vars sc e dd v.
Proof. exact vars_value_errs. Qed.

(** ** the pipeline *)
(** NewTypeInfo never indexes an empty scope stack *)
Theorem C04_type_info_total : forall qo S F D, type_info qo S F D = Some (pti_doc qo S F D).
Proof. exact type_info_pure. Qed.

(** accepted iff every rule group, run on the annotated document, is silent (the filter never
    turns a non-empty list of errors into an empty one) *)
Theorem C04_accepted_iff_rules_silent : forall q pi S F D,
  validate_model q pi S F D = Done [] <->
  all_rules q pi S F (pti_doc (q_unwrap_obj q) S F D) = Done [].
Proof. exact validate_model_nil. Qed.

Theorem C04_all_rules_silent : forall q pi S F A,
  all_rules q pi S F A = Done [] <->
  rule_operations q A = Done [] /\ rule_fields q pi S F A = Done [] /\ rule_arguments q pi S A = Done [] /\
  (rule_fragment_declarations pi S F A = [] /\ rule_fragment_spreads q pi S F A = Done []) /\
  rule_values q pi S A = Done [] /\ rule_directives q S A = Done [] /\ rule_variables pi S A = Done [].
Proof. exact all_rules_nil. Qed.

(** the filter: nothing is dropped unless something stays; a secondary error is returned only when
    every error was secondary *)
Theorem C04_filter_nil : forall errs, filter_primary errs = [] <-> errs = [].
Proof. exact filter_primary_nil. Qed.
Theorem C04_filter_secondary_only_without_primary : forall errs e,
  In e (filter_primary errs) -> e_sec e = true -> forall e', In e' errs -> e_sec e' = true.
Proof. exact filter_primary_secondary. Qed.

(** ** secondary_never_alone
    A secondary error ("no field info", "no location type", "undefined fragment" met again by
    addFieldSelections, ...) repeats what another rule reports as a primary error; ValidateDocument
    drops the secondary ones when a primary one exists.  It never returns a secondary error: when no
    rule group reports a primary error, no rule group reports anything.  Hypotheses on the schema,
    both decidable and evaluated on every generated schema: [schema_ok], and [schema_args_ok]: the
    argument definitions of a field, of an introspection meta field or of a directive have distinct
    names (they are the keys of a Go map) and input types (schema.New rejects anything else).
    [validate_model_memo] is the pipeline as it is (checked-pairs memo), [validate_model] the same
    without the memo; [all_rules] / [all_rules_m] are they before the filter, on the document
    NewTypeInfo annotates. *)
Theorem C04_secondary_never_alone : forall pi, order_ok pi -> forall S F D errs e,
  schema_ok S = true -> schema_args_ok S = true ->
  validate_model_memo repaired pi S F D = Done errs -> In e errs -> e_sec e = false.
Proof. exact secondary_never_alone_memo. Qed.
Theorem C04_secondary_never_alone_plain : forall pi, order_ok pi -> forall S F D errs e,
  schema_ok S = true -> schema_args_ok S = true ->
  validate_model repaired pi S F D = Done errs -> In e errs -> e_sec e = false.
Proof. exact secondary_never_alone. Qed.
Theorem C04_no_primary_then_nothing : forall pi, order_ok pi -> forall S F D errs,
  schema_ok S = true -> schema_args_ok S = true ->
  all_rules_m repaired pi S F (pti_doc (q_unwrap_obj repaired) S F D) = Done errs -> primary errs = [] -> errs = [].
Proof. exact no_primary_then_nothing_memo. Qed.
(** on the way: without a primary error every operation has a root type, every field occurrence
    sits on a composite, defined parent type ([good]), and so on ([schema_args_ok] not needed) *)
Theorem C04_no_primary_then_scopes_good : forall pi S F D errs,
  order_ok pi -> schema_ok S = true ->
  all_rules repaired pi S F (pti_doc (q_unwrap_obj repaired) S F D) = Done errs -> primary errs = [] ->
  valid_root S D = true /\
  (forall d o, In d D -> In o (ssels_ss S F (model_def_scope S F d) (def_sub d)) -> good S (fst o)) /\
  r_errs (inspect (fields_enter S F) pop (tree_doc (pti_doc (q_unwrap_obj repaired) S F D)) rst0) = [] /\
  rule_fragment_declarations pi S F (pti_doc (q_unwrap_obj repaired) S F D) = [] /\
  rule_directives repaired S (pti_doc (q_unwrap_obj repaired) S F D) = Done [] /\
  rule_fragment_spreads repaired pi S F (pti_doc (q_unwrap_obj repaired) S F D) = Done [].
Proof. exact no_primary_then_silent. Qed.

(** ** what C01's [doc_ok] takes from validation (C01 Properties header, INTERFACE TO C04)
    (a) type conditions composite: valid_5_5_1;  (b) @skip/@include conditions, literal half:
    valid_5_7 and valid_5_6 (the [if:] literal coerces to Boolean!) — the variable half
    ("a variable used in a directive is declared Boolean") is C04_accepted_variable_usages_allowed
    with C04_usage_allowed_at_named_nonnull, see C04_validate_ok_doc_ok_partial below;  (c) the root type exists: valid_root;  (f) every field is
    defined on the parent type of its selection set: fields_defined, valid_5_3_1.
    (d) (e) (i-depth) are C01's own, (g) is C05's, (h) is [schema_ok]. *)
Theorem C04_accepted_doc_ok_conjuncts : forall pi S F D,
  order_ok pi -> schema_ok S = true -> validate_model_memo repaired pi S F D = Done [] ->
  valid_5_5_1 S F D = true /\
  (valid_5_7 S D = true /\ (values_typed_input S F D = true -> valid_5_6 S F D = true)) /\
  valid_root S D = true /\
  (fields_defined S F D = true /\ valid_5_3_1 S F D = true).
Proof. exact accepted_doc_ok_conjuncts. Qed.

(** ** 5.5.2.2 and 5.8 in the Spec's own formulation
    The Spec decides reachability between fragments by a fuel-bounded breadth-first closure
    ([ValidSpec.reach]); it is exactly the transitive closure of "spreads directly" (the fuel, one
    more than the number of spreads written in the document, always suffices). *)
Theorem C04_spec_reachable_from : forall D n x, In x (reachable_from D n) <-> plus (spreads_of D) n x.
Proof. exact spec_reachable_from. Qed.
Theorem C04_spec_op_fragments : forall D d x,
  In x (op_fragments D d) <-> In x (spreads_of_def d) \/ exists f, In f (spreads_of_def d) /\ plus (spreads_of D) f x.
Proof. exact spec_op_fragments. Qed.

(** accepted => no fragment reaches itself (5.5.2.2); variable names unique per operation (5.8.1),
    declared with input types (5.8.2), every use declared (5.8.3), every variable used (5.8.4), every
    use allowed at its position (5.8.5) — uses enumerated by the Spec with the Spec's types, over
    the fragments the Spec says the operation includes *)
Theorem C04_accepted_cycles_variables : forall pi S F D,
  order_ok pi -> schema_ok S = true -> validate_model_memo repaired pi S F D = Done [] ->
  valid_5_5_2_2 D = true /\
  valid_5_8_1 D = true /\ valid_5_8_2 S F D = true /\ valid_5_8_3 S F D = true /\ valid_5_8_4 S F D = true /\ valid_5_8_5 S F D = true.
Proof. exact memo_accepted_cycles_variables. Qed.

(** 5.5.2.3: every spread and typed inline fragment can apply.  The validator takes the
    implementations of an interface from Schema.InterfaceImplementations, the Spec from the object
    types that declare it: [schema_impls_ok] (decidable, evaluated on every generated schema) says
    that the two agree and that type names are unique keys. *)
Theorem C04_accepted_spreads_possible : forall pi S F D,
  order_ok pi -> schema_impls_ok S = true -> validate_model_memo repaired pi S F D = Done [] -> valid_5_5_2_3 S F D = true.
Proof. exact memo_accepted_spreads_possible. Qed.

(** every section for which "accepted => holds" is proved, in one statement and without side
    condition on the document (5.6 needs [schema_args_ok]: argument types are input types) *)
Theorem C04_accepted_valid_sections : forall pi S F D,
  order_ok pi -> schema_ok S = true -> schema_args_ok S = true -> validate_model_memo repaired pi S F D = Done [] ->
  valid_5_2_1_1 D = true /\ valid_5_2_2_1 D = true /\ valid_root S D = true /\
  valid_5_3_1 S F D = true /\ valid_5_3_3 S F D = true /\
  valid_5_4 S F D = true /\
  valid_5_5_1 S F D = true /\ valid_5_5_2_1 D = true /\ valid_5_5_2_2 D = true /\
  valid_5_6 S F D = true /\
  valid_5_7 S D = true /\
  valid_5_8_1 D = true /\ valid_5_8_2 S F D = true /\ valid_5_8_3 S F D = true /\ valid_5_8_4 S F D = true /\ valid_5_8_5 S F D = true.
Proof. exact memo_accepted_valid_sections. Qed.

(** the same per use, without the Spec's "if the declared type is an input type" escape; and what
    "allowed at a position of type b!" (the [if:] of @skip / @include, b = Boolean) says about the
    declared type: it is b under non-null wrappers, and it is non-null itself unless the position or
    the variable has a default *)
Theorem C04_accepted_variable_usages_allowed : forall pi S F D,
  order_ok pi -> schema_ok S = true -> validate_model_memo repaired pi S F D = Done [] ->
  forall ot n vars dirs sub, In (DOp ot n vars dirs sub) D ->
  forall u, In u (op_usages S F D (DOp ot n vars dirs sub)) ->
  exists vd, find_var (u_name u) vars = Some vd /\
  exists vt, declared_type S F (vd_type vd) = Some vt /\
  forall lt, u_type u = Some lt -> usage_allowed vd vt lt (u_default u) = true.
Proof. exact memo_accepted_usages_allowed. Qed.
Theorem C04_usage_allowed_at_named_nonnull : forall vd vt b ds,
  usage_allowed vd vt (StNonNull (StNamed b)) ds = true ->
  peel vt = StNamed b /\
  (is_nonnull vt = true \/ ds = true \/ exists x, vd_default vd = Some x /\ is_null x = false).
Proof. exact usage_allowed_named. Qed.

(** ** validate_ok_doc_ok (partial): the conjuncts of C01's [doc_ok] that rest on a validation rule
    (items (a), (b), (c), (f) of the list in C01's Properties header), in this development's terms.
    NOT here: the step from "defined on the parent type of the selection set" to "defined on every
    possible object type" and the merged sub-selections (items (f) second half and (i): C03's
    [validate_establishes_typing], over the execution document and schema), (d) (e) (C01's own),
    (g) (C05), (h) (schema construction). *)
Theorem C04_validate_ok_doc_ok_partial : forall pi S F D,
  order_ok pi -> schema_ok S = true -> validate_model_memo repaired pi S F D = Done [] ->
  valid_5_5_1 S F D = true /\
  (valid_5_7 S D = true /\ (values_typed_input S F D = true -> valid_5_6 S F D = true)) /\
  (forall ot n vars dirs sub, In (DOp ot n vars dirs sub) D ->
   forall u, In u (op_usages S F D (DOp ot n vars dirs sub)) ->
   exists vd, find_var (u_name u) vars = Some vd /\
   exists vt, declared_type S F (vd_type vd) = Some vt /\
   forall lt, u_type u = Some lt -> usage_allowed vd vt lt (u_default u) = true) /\
  valid_root S D = true /\
  (fields_defined S F D = true /\ valid_5_3_1 S F D = true).
Proof. exact validate_ok_doc_ok_partial. Qed.

(** ** the converse directions: the Spec's sections leave a rule group without (primary) errors
    5.3.1 / 5.3.3 with root types and type conditions: the first visitor of validateFields reports
    nothing and every selection set has a composite parent type. *)
Theorem C04_fields_valid_silent : forall S F D,
  schema_ok S = true ->
  valid_root S D = true -> valid_5_5_1 S F D = true -> valid_5_3_1 S F D = true -> valid_5_3_3 S F D = true ->
  (forall d o, In d D -> In o (ssels_ss S F (model_def_scope S F d) (def_sub d)) -> good S (fst o)) /\
  r_errs (inspect (fields_enter S F) pop (tree_doc (pti_doc (q_unwrap_obj repaired) S F D)) rst0) = [].
Proof. exact fields_valid_silent. Qed.
(** 5.5.2.1 - 5.5.2.3: validateFragmentSpreads reports no primary error *)
Theorem C04_spreads_valid_no_primary : forall pi, order_ok pi -> forall S F D,
  schema_impls_ok S = true -> NoDup (frag_names D) -> forall errs,
  valid_5_5_2_1 D = true -> valid_5_5_2_2 D = true -> valid_5_5_2_3 S F D = true ->
  rule_fragment_spreads repaired pi S F (pti_doc (q_unwrap_obj repaired) S F D) = Done errs -> primary errs = [].
Proof. exact spreads_valid_no_primary. Qed.
(** 5.8.1 - 5.8.5: validateVariables reports no primary error.  [schema_defaults_ok]: a non-null
    directive argument or input object field has no [null] default (the one case in which TypeInfo's
    "this location has a default" and the specification's differ). *)
Theorem C04_variables_valid_no_primary : forall pi S F D errs,
  order_ok pi -> schema_ok S = true -> schema_defaults_ok S = true -> valid_5_5_1_1 D = true ->
  valid_5_8_1 D = true -> valid_5_8_2 S F D = true -> valid_5_8_3 S F D = true -> valid_5_8_4 S F D = true -> valid_5_8_5 S F D = true ->
  rule_variables pi S (pti_doc (q_unwrap_obj repaired) S F D) = Done errs -> primary errs = [].
Proof. exact variables_valid_no_primary_schema. Qed.

(** ** validate_verdict up to two rules (partial)
    Accepted <-> every section of chapter 5 other than 5.2.3.1 and 5.3.2 holds in the Spec's
    formulation, and the subscription check and the overlapping-fields pass — these two stated in the
    model's terms ([sub_ok]: addFieldSelections collects exactly one response name; the pass with the
    memo reports no primary error) — find nothing.  What separates this from validate_verdict is the
    equivalence of these two with the Spec's CollectFields / FieldsInSetCanMerge. *)
Theorem C04_verdict_up_to_two_rules_partial : forall pi S F D,
  order_ok pi ->
  schema_ok S = true -> schema_args_ok S = true -> schema_impls_ok S = true -> schema_defaults_ok S = true ->
  (validate_model_memo repaired pi S F D = Done [] <->
   (valid_5_2_1_1 D = true /\ valid_5_2_2_1 D = true /\ valid_root S D = true /\
    valid_5_3_1 S F D = true /\ valid_5_3_3 S F D = true /\
    valid_5_4 S F D = true /\
    valid_5_5_1 S F D = true /\ valid_5_5_2_1 D = true /\ valid_5_5_2_2 D = true /\ valid_5_5_2_3 S F D = true /\
    valid_5_6 S F D = true /\
    valid_5_7 S D = true /\
    valid_5_8_1 D = true /\ valid_5_8_2 S F D = true /\ valid_5_8_3 S F D = true /\ valid_5_8_4 S F D = true /\ valid_5_8_5 S F D = true) /\
   (forall d, In d D -> sub_ok repaired (pti_doc (q_unwrap_obj repaired) S F D) (pti_def (q_unwrap_obj repaired) S F d) = true) /\
   (forall e2, rule_fields_m repaired pi S F (pti_doc (q_unwrap_obj repaired) S F D) = Done e2 -> primary e2 = [])).
Proof. exact verdict_up_to_two_rules. Qed.

(** ** addFieldSelections against an inductive characterisation (the model side of 5.2.3.1)
    [InC A ss f]: field [f] is written in [ss], or in an inline fragment of it, or in the fragment a
    spread of it names — transitively.  When the selection sets of the document sit at pairwise
    distinct positions (true of a parsed document), addFieldSelections files exactly these fields,
    whatever it visits first and however often a fragment is spread; hence the subscription check
    "one entry" says: the collected fields exist and share one response name. *)
Theorem C04_collect_complete : forall A,
  (forall s1 s2, In s1 (all_subs A) -> In s2 (all_subs A) -> ss_pos s1 = ss_pos s2 -> s1 = s2) ->
  forall fuel ss m v, In ss (all_subs A) -> collect repaired A fuel [] [] ss = COk m v ->
  forall f, InC A ss f -> In (response_name f) (keys m).
Proof. exact collect_complete. Qed.
Theorem C04_collect_sound : forall A fuel ss m v k,
  collect repaired A fuel [] [] ss = COk m v -> In k (keys m) -> exists f, InC A ss f /\ response_name f = k.
Proof. exact collect_sound. Qed.
Theorem C04_subscription_single_root_model : forall A,
  (forall s1 s2, In s1 (all_subs A) -> In s2 (all_subs A) -> ss_pos s1 = ss_pos s2 -> s1 = s2) ->
  forall ss m v, In ss (all_subs A) -> add_selections repaired A [] (Some ss) = COk m v ->
  (Nat.eqb (length m) 1 = true <->
   (exists f, InC A ss f) /\ forall f g, InC A ss f -> InC A ss g -> response_name f = response_name g).
Proof. exact single_key_iff. Qed.

(** ** 5.3.2, soundness: what the overlapping-fields pass guarantees of an accepted document
    For EVERY selection set [ss] of the document (as NewTypeInfo annotates it) addFieldSelections
    succeeds, and the map [m] it files the collected fields in — one entry per response key, each field
    with the parent type of the selection set it is written in — is [MergeOK]: any two fields [x]
    before [y] under one key
      - have types of compatible shapes ([ShapeOK]: list / non-null wrappers agree, leaf types are
        equal, and for composite types the same holds of any two fields under one key of the merged
        sub-selections, recursively);
      - have known parent types [pa], [pb]; and when [pa] = [pb] or one of them is not an object type
        ([may_overlap]) they select the same field name, have identical arguments ([args_check]),
        and the map of their merged sub-selections is [MergeOK] again.
    (Two fields under one key whose parents are different object types can never both apply.)
    [C04_subscription_single_root_model] / [C04_collect_complete] say which fields [m] holds.
    For the pipeline with the memo the field selections must sit at pairwise distinct positions
    (the memo identifies a pair of fields by their positions; true of parsed documents, C06). *)
Theorem C04_accepted_merge_sound : forall pi S F D,
  order_ok pi -> doc_field_positions_distinct D -> validate_model_memo repaired pi S F D = Done [] ->
  forall ss, In ss (all_subs (pti_doc (q_unwrap_obj repaired) S F D)) ->
  exists m v, add_selections repaired (pti_doc (q_unwrap_obj repaired) S F D) [] (Some ss) = COk m v /\
              MergeOK S (pti_doc (q_unwrap_obj repaired) S F D) m.
Proof. exact memo_accepted_merge_sound. Qed.
Theorem C04_accepted_merge_sound_plain : forall pi S F D,
  order_ok pi -> validate_model repaired pi S F D = Done [] ->
  forall ss, In ss (all_subs (pti_doc (q_unwrap_obj repaired) S F D)) ->
  exists m v, add_selections repaired (pti_doc (q_unwrap_obj repaired) S F D) [] (Some ss) = COk m v /\
              MergeOK S (pti_doc (q_unwrap_obj repaired) S F D) m.
Proof. exact accepted_merge_sound. Qed.
(** the two predicates, unfolded once (they are inductive: the recursion goes through the merged
    sub-selections) *)
Theorem C04_merge_ok_unfold : forall S A m, MergeOK S A m ->
  forall k l, In (k, l) m ->
  ForallOrdPairs (fun x y =>
    ShapeOK S A (fst3 x) (fst3 y) /\
    exists pa pb, snd (fst x) = Some pa /\ snd (fst y) = Some pb /\
      (may_overlap S pa pb = true ->
       name_eqb (sel_name (fst3 x)) (sel_name (fst3 y)) = true /\
       args_check repaired (fst3 x) (fst3 y) = MOk /\
       exists m1 v1 m2 v2, add_selections repaired A [] (sel_sub (fst3 x)) = COk m1 v1 /\
                           add_selections repaired A m1 (sel_sub (fst3 y)) = COk m2 v2 /\ MergeOK S A m2)) l.
Proof. exact merge_ok_unfold. Qed.
Theorem C04_shape_ok_unfold : forall S A X Y, ShapeOK S A X Y ->
  exists tX tY a b, shape_type X = inl tX /\ shape_type Y = inl tY /\ shape_loop tX tY = inl (a, b) /\
    (is_leaf_sty S a || is_leaf_sty S b = true -> sty_eqb a b = true) /\
    (is_leaf_sty S a || is_leaf_sty S b = false ->
     exists m1 v1 m2 v2, add_selections repaired A [] (sel_sub X) = COk m1 v1 /\ add_selections repaired A m1 (sel_sub Y) = COk m2 v2 /\
                         forall k l, In (k, l) m2 -> ForallOrdPairs (fun x y => ShapeOK S A (fst3 x) (fst3 y)) l).
Proof. exact shape_ok_unfold. Qed.

(** for ANY two distinct fields filed under one response key (whichever was filed first): their parent
    types are known, and if these may overlap the two fields select the same field name *)
Theorem C04_merge_ok_parents_names : forall S A m,
  MergeOK S A m -> forall k l, In (k, l) m -> forall x y, In x l -> In y l -> x <> y ->
  exists pa pb, snd (fst x) = Some pa /\ snd (fst y) = Some pb /\
                (may_overlap S pa pb = true -> sel_name (fst3 x) = sel_name (fst3 y)).
Proof. exact merge_ok_parents_names. Qed.

(** ** the local checks of the overlapping-fields pass are the Spec's (towards 5.3.2 in the Spec's encoding)
    valuesAreIdentical is [same_value]; the argument comparison (lengths, then for every argument of B
    the LAST argument of that name of A) is [same_args] when argument names are unique on both fields
    (5.4.2); the unwrapping loop of validateSameResponseShape is [strip_shape] on types without a
    non-null directly inside a non-null ([wf_sty]).  What remains open of 5.3.2 is that the two
    traversals pair the same fields (the Spec pairs all fields of [collected] with equal response
    names, the validator the fields filed under one key, in its own order). *)
Theorem C04_values_identical_spec : forall v w, values_identical v w = same_value v w.
Proof. exact values_identical_spec. Qed.
Theorem C04_args_check_same_args : forall X Y,
  NoDup (map a_name (sel_args X)) -> NoDup (map a_name (sel_args Y)) ->
  (args_check repaired X Y = MOk <-> same_args (sel_args X) (sel_args Y) = true).
Proof. exact args_check_same_args. Qed.
Theorem C04_shape_loop_strip : forall tA tB a b,
  wf_sty tA = true -> wf_sty tB = true -> (shape_loop tA tB = inl (a, b) <-> strip_shape tA tB = Some (a, b)).
Proof. exact shape_loop_strip. Qed.

(** ** conjunct (f) of C01's doc_ok: defined on the parent type => defined on every possible object type
    [possible S F p] (the Spec's GetPossibleTypes): [p] itself for an object type, the visible object
    types that declare the interface, the members of the union.  [schema_ifaces_ok] (decidable,
    evaluated on every generated schema): an object type has the fields of the interfaces it declares,
    requiring no more features than the interface's field (ObjectType.satisfyInterface), and union
    members are object types. *)
Theorem C04_defined_on_possible : forall S F,
  schema_impls_ok S = true -> schema_ifaces_ok S = true ->
  forall p n d, field_def_of S F p n = Some d -> forall x, In x (possible S F p) -> field_def_of S F x n <> None.
Proof. exact defined_on_possible. Qed.
Theorem C04_fields_defined_on_possible : forall S F D,
  schema_impls_ok S = true -> schema_ifaces_ok S = true -> fields_defined S F D = true ->
  forall o, In o (all_fields S F D) ->
  forall p, fo_parent o = Some p ->
  match fo_field o with
  | SField _ _ n _ _ _ _ => forall x, In x (possible S F p) -> field_def_of S F x n <> None
  | _ => True
  end.
Proof. exact fields_defined_on_possible. Qed.

(** ** acyclicity in the shape of C01's [acyclic_frags]
    [spread_chain D ss l]: l = n1 :: n2 :: ... is a path of the spread graph that starts in [ss] — n1
    is spread somewhere in [ss] (at any depth), n2 in the body of n1, ..., every fragment defined
    ([fragment]: the first definition of the name).  [acyclic_spreads D]: no defined fragment occurs
    in a chain that starts in its own body.  Stated on the document as written. *)
Theorem C04_spreads_silent_acyclic_chains : forall pi S F D,
  order_ok pi -> validate_model_memo repaired pi S F D = Done [] ->
  forall n d l, fragment D n = Some d -> spread_chain D (def_sub d) l -> ~ In n l.
Proof. exact memo_accepted_acyclic_spreads. Qed.
Theorem C04_no_cycle_acyclic_chains : forall D, valid_5_5_2_2 D = true -> acyclic_spreads D.
Proof. exact no_cycle_acyclic_spreads. Qed.

(** ** 5.2.3.1 against the Spec's CollectFields
    [InCS D ss f]: the inductive collection on the document as written (fragments looked up as the Spec
    does).  The Spec's [collected] — visited set of fragment names, fuel one more than the number of
    fragment definitions — holds exactly these fields: the fuel never runs out because every nesting
    level marks a defined fragment not marked before.  With [C04_collect_complete] /
    [C04_collect_sound] the validator's subscription check and the Spec's count agree, operation by
    operation, when fragment names are unique and selection sets sit at distinct positions
    ([doc_set_positions_distinct]: true of parsed documents). *)
Theorem C04_spec_collected_sound : forall S F D parent ss f,
  (exists par, In (f, par) (collected S F D parent ss)) -> InCS D ss f.
Proof. exact collected_sound. Qed.
Theorem C04_spec_collected_complete : forall S F D parent ss f,
  InCS D ss f -> exists par, In (f, par) (collected S F D parent ss).
Proof. exact collected_complete. Qed.
Theorem C04_subscription_check_is_5_2_3_1 : forall S F D k kp n vars dirs ss,
  NoDup (frag_names D) -> doc_set_positions_distinct D -> In (DOp (Some (k, kp)) n vars dirs ss) D ->
  name_eqb k s_subscription_kw = true ->
  forall m v, add_selections repaired (pti_doc (q_unwrap_obj repaired) S F D) [] (Some (def_sub (pti_def (q_unwrap_obj repaired) S F (DOp (Some (k, kp)) n vars dirs ss)))) = COk m v ->
  (Nat.eqb (length m) 1 = true <->
   Nat.eqb (length (dedup (map (fun c => resp_name (fst c)) (collected S F D (root_type S (Some (k, (0, 0)%N))) ss)))) 1 = true).
Proof. exact sub_ok_spec. Qed.
Theorem C04_accepted_single_root : forall pi S F D,
  order_ok pi -> schema_ok S = true -> schema_args_ok S = true -> schema_impls_ok S = true -> schema_defaults_ok S = true ->
  doc_set_positions_distinct D -> validate_model_memo repaired pi S F D = Done [] -> valid_5_2_3_1 S F D = true.
Proof. exact memo_accepted_5_2_3_1. Qed.

(** the two positional hypotheses ([doc_set_positions_distinct], [doc_field_positions_distinct]) in
    their decidable form, evaluated on every generated document *)
Theorem C04_doc_positions_ok_spec : forall D,
  doc_positions_ok D = true -> doc_set_positions_distinct D /\ doc_field_positions_distinct D.
Proof. exact doc_positions_ok_spec. Qed.

(** ** SOUNDNESS of the validator: accepted -> Valid
    The "only if" half of validate_verdict, for the pipeline as it is: a document ValidateDocument
    accepts satisfies every section of chapter 5 in the Spec's own formulation, 5.3.2 included.
    Hypotheses, all decidable and evaluated on every generated case: the five on the schema
    ([schema_types_wf]: no field type has a non-null directly inside a non-null) and the two
    positional ones on the document.
    For 5.3.2 ([C04_accepted_5_3_2]) no correspondence between the order of the Spec's traversal and
    the validator's is needed: every field the Spec collects (with the parent type it is collected
    under) is filed by the validator as an entry; two entries under one key were compared in one
    order or the other, or are the same entry; the Spec's comparisons are symmetric, and reflexive
    because the selection set below every field passed the validator's check on its own; the
    nesting fuel of the Spec is one more than the depth bound of round 4. *)
Theorem C04_accepted_5_3_2 : forall pi S F D,
  order_ok pi ->
  schema_ok S = true -> schema_args_ok S = true -> schema_types_wf S = true ->
  doc_set_positions_distinct D -> doc_field_positions_distinct D ->
  validate_model_memo repaired pi S F D = Done [] -> valid_5_3_2 S F D = true.
Proof. exact memo_accepted_5_3_2. Qed.
Theorem C04_accepted_valid : forall pi S F D,
  order_ok pi ->
  schema_ok S = true -> schema_args_ok S = true -> schema_impls_ok S = true -> schema_defaults_ok S = true -> schema_types_wf S = true ->
  doc_set_positions_distinct D -> doc_field_positions_distinct D ->
  validate_model_memo repaired pi S F D = Done [] -> Valid S F D.
Proof. exact memo_accepted_Valid. Qed.

(** addFieldSelections files every collected field as an entry (the field, the parent type and the
    position of the selection set it is written in), whatever the map it starts from (proof by the
    C03 builder, adopted) *)
Theorem C04_collect_entries : forall A,
  (forall s1 s2, In s1 (all_subs A) -> In s2 (all_subs A) -> ss_pos s1 = ss_pos s2 -> s1 = s2) ->
  forall m ss m' v, In ss (all_subs A) -> add_selections repaired A m (Some ss) = COk m' v ->
  ents_incl m m' /\ forall w f, InCw A ss w f -> has_entry m' f (ss_ann w) (ss_pos w).
Proof. exact add_selections_entries. Qed.

(** ** validate_verdict up to 5.3.2 (partial)
    As [C04_verdict_up_to_two_rules_partial], with the subscription check replaced by the Spec's
    5.2.3.1: what separates this from validate_verdict is the equivalence of the overlapping-fields
    pass with the Spec's FieldsInSetCanMerge / SameResponseShape alone (its soundness, in this
    development's encoding, is [C04_accepted_merge_sound]). *)
Theorem C04_verdict_up_to_merge_partial : forall pi S F D,
  order_ok pi ->
  schema_ok S = true -> schema_args_ok S = true -> schema_impls_ok S = true -> schema_defaults_ok S = true ->
  doc_set_positions_distinct D ->
  (validate_model_memo repaired pi S F D = Done [] <->
   (valid_5_2_1_1 D = true /\ valid_5_2_2_1 D = true /\ valid_root S D = true /\
    valid_5_3_1 S F D = true /\ valid_5_3_3 S F D = true /\
    valid_5_4 S F D = true /\
    valid_5_5_1 S F D = true /\ valid_5_5_2_1 D = true /\ valid_5_5_2_2 D = true /\ valid_5_5_2_3 S F D = true /\
    valid_5_6 S F D = true /\
    valid_5_7 S D = true /\
    valid_5_8_1 D = true /\ valid_5_8_2 S F D = true /\ valid_5_8_3 S F D = true /\ valid_5_8_4 S F D = true /\ valid_5_8_5 S F D = true) /\
   valid_5_2_3_1 S F D = true /\
   (forall e2, rule_fields_m repaired pi S F (pti_doc (q_unwrap_obj repaired) S F D) = Done e2 -> primary e2 = [])).
Proof. exact verdict_up_to_merge. Qed.

(** ** rule groups against sections of the specification *)
(** 5.7.1 – 5.7.3 (directives defined, in valid locations, unique per location): no hypothesis *)
Theorem C04_rule_directives_iff : forall S F D,
  rule_directives repaired S (pti_doc (q_unwrap_obj repaired) S F D) = Done [] <-> valid_5_7 S D = true.
Proof. exact rule_directives_iff. Qed.

(** 5.5.1.1 – 5.5.1.4 (fragment names unique, type conditions exist and are composite, fragments
    used): no hypothesis *)
Theorem C04_rule_fragment_declarations_iff : forall pi, order_ok pi -> forall S F D,
  rule_fragment_declarations pi S F (pti_doc (q_unwrap_obj repaired) S F D) = [] <-> valid_5_5_1 S F D = true.
Proof. exact rule_fragment_declarations_iff. Qed.

(** 5.2.1.1, 5.2.2.1 (operation names unique, an anonymous operation is alone) and root types: the
    rule is silent iff they hold and every subscription collects exactly one response name — the last
    clause (5.2.3.1) still in the model's own terms ([sub_ok]: addFieldSelections succeeds with one
    entry); its equivalence with the Spec's CollectFields belongs to the stage-2 work on 5.3.2 *)
Theorem C04_rule_operations_iff_partial : forall S F D,
  rule_operations repaired (pti_doc (q_unwrap_obj repaired) S F D) = Done [] <->
  valid_5_2_1_1 D = true /\ valid_5_2_2_1 D = true /\ valid_root S D = true /\
  forall d, In d D -> sub_ok repaired (pti_doc (q_unwrap_obj repaired) S F D) (pti_def (q_unwrap_obj repaired) S F d) = true.
Proof. exact rule_operations_iff. Qed.

(** 5.4.1, 5.4.2, 5.4.2.1 (argument names, uniqueness, required arguments): a primary error iff a
    violation, when every field and directive the arguments are given to is defined *)
Theorem C04_rule_arguments_iff : forall pi, order_ok pi -> forall S F D,
  (forall o, In o (all_fields S F D) -> fo_def S F o <> None) ->
  valid_5_7_1 S D = true ->
  (forall top, field_of_scope S F top n_typename = None) ->
  exists errs, rule_arguments repaired pi S (pti_doc (q_unwrap_obj repaired) S F D) = Done errs /\
               (primary errs = [] <-> valid_5_4 S F D = true).
Proof. exact rule_arguments_iff. Qed.

(** 5.6.1 – 5.6.4 (values of correct type, input object field names, uniqueness, required fields):
    a primary error iff a violation, when every typed literal is expected at an input type *)
Theorem C04_rule_values_iff : forall pi, order_ok pi -> forall S F,
  (forall tn defs, raw_body S tn = Some (TInput defs) -> forall nd, In nd defs -> input_sty S (in_type (snd nd))) ->
  (forall top, field_of_scope S F top n_typename = None) ->
  forall D,
  (forall vt, In vt (typed_values S F D) -> input_sty S (snd vt)) ->
  exists errs, rule_values repaired pi S (pti_doc (q_unwrap_obj repaired) S F D) = Done errs /\
               (primary errs = [] <-> valid_5_6 S F D = true).
Proof. exact rule_values_iff. Qed.

(** validateCoercion (the heart of 5.6) against the Spec's [value_facts], literal by literal *)
Theorem C04_coercion_agrees : forall pi, order_ok pi -> forall S,
  (forall tn defs, raw_body S tn = Some (TInput defs) -> forall nd, In nd defs -> input_sty S (in_type (snd nd))) ->
  forall v t allow, input_sty S t ->
  exists errs, coercion repaired pi S v t allow = VR errs /\ (forall e, In e errs -> e_sec e = false) /\
               (errs = [] <-> value_facts S v t allow = []).
Proof. exact coercion_agrees. Qed.

(** 5.5.2.2: the breadth-first cycle search answers "found" exactly when the fragment reaches
    itself along spreads, whatever the order; it never runs out of its fuel *)
Theorem C04_cycle_search_iff : forall D pi, order_ok pi -> forall n,
  cycle_search pi D (graph_fuel D) n [n] [] = Some true <-> exists x, reach D n x /\ edge D x n.
Proof. exact cycle_search_iff. Qed.
Theorem C04_cycle_search_total : forall D pi, order_ok pi -> forall n,
  cycle_search pi D (graph_fuel D) n [n] [] <> None.
Proof. exact (fun D pi H n => cycle_search_total D pi H n). Qed.

(** 5.8: validateVariables is silent iff, for every operation: its variable definitions are fine,
    every variable use in the operation and in every fragment reachable from it is fine, and every
    variable is used there — the work list (whose order is Go's map order) visits exactly the
    reachable fragments and never runs out of fuel *)
Theorem C04_variables_rule_iff : forall S D pi, order_ok pi ->
  (rule_variables pi S D = Done [] <-> forall d, In d D -> vars_fine S D d).
Proof. exact rule_variables_fine. Qed.

(** ** what this gives for the pipeline (the proved part of validate_verdict) *)
(** accepted -> sections 5.7, 5.5.1 hold; 5.4 and 5.6 hold under the decidable side conditions *)
Theorem C04_validate_verdict_partial : forall pi S F D,
  order_ok pi -> validate_model repaired pi S F D = Done [] ->
  valid_5_7 S D = true /\
  valid_5_5_1 S F D = true /\
  (schema_ok S = true -> fields_defined S F D = true -> valid_5_4 S F D = true) /\
  (schema_ok S = true -> values_typed_input S F D = true -> valid_5_6 S F D = true).
Proof. exact accepted_rules_hold. Qed.

Theorem C04_accepted_operations_hold : forall pi S F D,
  validate_model repaired pi S F D = Done [] ->
  valid_5_2_1_1 D = true /\ valid_5_2_2_1 D = true /\ valid_root S D = true.
Proof. exact accepted_operations_hold. Qed.

(** 5.3.1 and 5.3.3 (fields defined; leaf fields without, composite fields with a selection set):
    they hold of every accepted document over a well-formed schema, every selection set then has a
    composite parent type and every field selection a definition — which discharges the side
    condition of the 5.4 clause above *)
Theorem C04_accepted_fields_hold : forall pi S F D,
  order_ok pi -> schema_ok S = true -> validate_model repaired pi S F D = Done [] ->
  fields_defined S F D = true /\ valid_5_3_1 S F D = true /\ valid_5_3_3 S F D = true.
Proof. exact accepted_fields_hold. Qed.
Theorem C04_accepted_arguments_hold : forall pi S F D,
  order_ok pi -> schema_ok S = true -> validate_model repaired pi S F D = Done [] -> valid_5_4 S F D = true.
Proof. exact accepted_arguments_hold. Qed.

(** the errors of the first visitor of validateFields on an annotated document, exactly: one batch
    per field selection, computed from the parent type TypeInfo recorded ([fe_ev1]) *)
Theorem C04_fields_pass_errors : forall S F qo D,
  r_errs (inspect (fields_enter S F) pop (tree_doc (pti_doc qo S F D)) rst0) =
  flat_map (fun d => flat_map (fun o => fe_ev1 S F (fst o) (pti_sel qo S F (fst o) (snd o)))
                              (ssels_ss S F (model_def_scope S F d) (def_sub d))) D.
Proof. exact fields_pass_errors. Qed.

(** 5.5.2.1 (spread targets are defined) holds of every accepted document; the errors of the visitor
    of validateFragmentSpreads, exactly, one batch per spread / typed inline fragment, computed from
    the parent type TypeInfo recorded ([sp_ev1]) — the basis for 5.5.2.3 *)
Theorem C04_accepted_spread_targets_defined : forall pi S F D,
  order_ok pi -> validate_model repaired pi S F D = Done [] -> valid_5_5_2_1 D = true.
Proof. exact accepted_spread_targets_defined. Qed.
Theorem C04_spreads_pass_errors : forall pi S F D st,
  r_stack st = [] ->
  r_errs (inspect (spreads_enter repaired pi S F (pti_doc (q_unwrap_obj repaired) S F D)) pop (tree_doc (pti_doc (q_unwrap_obj repaired) S F D)) st) =
  r_errs st ++
  flat_map (fun d => flat_map (fun o => sp_ev1 pi S F (pti_doc (q_unwrap_obj repaired) S F D) (fst o) (pti_sel (q_unwrap_obj repaired) S F (fst o) (snd o)))
                              (ssels_ss S F (model_def_scope S F d) (def_sub d))) D.
Proof. exact spreads_pass_errors. Qed.

(** a violation of one of these sections -> rejected *)
Theorem C04_violation_rejected_partial : forall pi S F D,
  order_ok pi ->
  (valid_5_7 S D = false \/ valid_5_5_1 S F D = false \/
   (schema_ok S = true /\ fields_defined S F D = true /\ valid_5_4 S F D = false) \/
   (schema_ok S = true /\ values_typed_input S F D = true /\ valid_5_6 S F D = false)) ->
  validate_model repaired pi S F D <> Done [].
Proof. exact violation_rejected. Qed.

(** ** completeness for 5.3.2, and validate_verdict *)
(** the Spec's CollectFields is complete with parents: a field written in the selection set, in an
    inline fragment of it or in a fragment it spreads (transitively) is collected, paired with the
    static scope of the selection set it is written in ([InCSp], ProofsMergeSpec.v) *)
Theorem C04_spec_collected_complete_parents : forall S F D parent ss x,
  InCSp S F D parent ss x -> In x (collected S F D parent ss).
Proof. exact collected_complete_p. Qed.

(** whatever addFieldSelections files for an annotated selection set is already in the map or stands
    for a member of the Spec's [collected] list of that set: it is that member annotated, filed with the
    parent type the Spec pairs it with, under its response name *)
Theorem C04_filed_collected : forall S F D, NoDup (frag_names D) -> forall par ss m m' v,
  add_selections repaired (pti_doc (q_unwrap_obj repaired) S F D) m (Some (pti_ss (q_unwrap_obj repaired) S F par ss)) = COk m' v ->
  forall k l x, In (k, l) m' -> In x l ->
    (exists l0, In (k, l0) m /\ In x l0) \/
    (exists g, In g (collected S F D par ss) /\ fst3 x = pti_sel (q_unwrap_obj repaired) S F (snd g) (fst g) /\ snd (fst x) = snd g /\
               k = response_name (fst3 x)).
Proof. exact filed_collected. Qed.

(** the Spec's recursive checks as wholes: symmetric, insensitive to the order of two appended
    collections, monotone in the fuel *)
Theorem C04_spec_same_response_shape_sym : forall S F D f x y,
  same_response_shape S F D f x y = same_response_shape S F D f y x.
Proof. exact srs_sym. Qed.
Theorem C04_spec_fields_can_merge_comm : forall S F D f l1 l2,
  fields_can_merge S F D f (l1 ++ l2) = fields_can_merge S F D f (l2 ++ l1).
Proof. exact fcm_comm. Qed.
Theorem C04_spec_shape_fuel_monotone : forall S F D f f' x y,
  (f <= f')%nat -> same_response_shape S F D f x y = true -> same_response_shape S F D f' x y = true.
Proof. exact srs_mono_le. Qed.
Theorem C04_spec_merge_fuel_monotone : forall S F D f f' l,
  (f <= f')%nat -> fields_can_merge S F D f l = true -> fields_can_merge S F D f' l = true.
Proof. exact fcm_mono_le. Qed.

(** a field merges with itself: the sub-selections of a field written in a selection set the Spec
    enumerates ([Loc]) are the [collected] list of a selection set the Spec enumerates, so 5.3.2
    speaks of them directly.  (The validator files a field twice when both of two merged fields reach
    it; this is what makes its comparison of the two copies succeed.) *)
Theorem C04_located_subfields_merge : forall S F D,
  composite_name S n_String = false -> valid_5_3_3 S F D = true -> valid_5_5_2_2 D = true -> valid_5_3_2 S F D = true ->
  forall c, Loc S F D c -> fields_can_merge S F D (nesting_bound D) (cf_sub S F D c) = true.
Proof. exact loc_fcm. Qed.

(** 5.3.2 and the sections it leans on => the overlapping-fields pass (with the memo) is silent *)
Theorem C04_valid_merge_pass_silent : forall pi S F D,
  order_ok pi -> schema_ok S = true -> schema_types_wf S = true ->
  valid_root S D = true -> valid_5_3_1 S F D = true -> valid_5_3_3 S F D = true -> valid_5_4_2 S F D = true ->
  valid_5_5_1 S F D = true -> valid_5_5_2_1 D = true -> valid_5_5_2_2 D = true ->
  valid_5_3_2 S F D = true ->
  rule_fields_m repaired pi S F (pti_doc (q_unwrap_obj repaired) S F D) = Done [].
Proof. exact valid_merge_pass_silent. Qed.

(** validate_verdict: the validator as it is accepts exactly the valid documents *)
Theorem C04_validate_verdict : forall pi S F D,
  order_ok pi ->
  schema_ok S = true -> schema_args_ok S = true -> schema_impls_ok S = true -> schema_defaults_ok S = true -> schema_types_wf S = true ->
  doc_set_positions_distinct D -> doc_field_positions_distinct D ->
  (validate_model_memo repaired pi S F D = Done [] <-> Valid S F D).
Proof. exact validate_verdict. Qed.
Theorem C04_validate_verdict_plain : forall pi S F D,
  order_ok pi ->
  schema_ok S = true -> schema_args_ok S = true -> schema_impls_ok S = true -> schema_defaults_ok S = true -> schema_types_wf S = true ->
  doc_set_positions_distinct D -> doc_field_positions_distinct D ->
  (validate_model repaired pi S F D = Done [] <-> Valid S F D).
Proof. exact validate_verdict_plain. Qed.
Theorem C04_invalid_rejected : forall pi S F D,
  order_ok pi ->
  schema_ok S = true -> schema_args_ok S = true -> schema_impls_ok S = true -> schema_defaults_ok S = true -> schema_types_wf S = true ->
  doc_set_positions_distinct D -> doc_field_positions_distinct D ->
  valid_all S F D = false -> exists e errs, validate_model_memo repaired pi S F D = Done (e :: errs).
Proof. exact invalid_rejected. Qed.

(** ** validate_error_located *)
(** whenever a node occurs in the tree of a document, so do all the nodes ast.Inspect visits beneath it
    ([tree_of n]: the tree it walks from [n]) *)
Theorem C04_node_closure : forall D n,
  In n (tree_nodes (tree_doc D)) -> incl (tree_nodes (tree_of n)) (tree_nodes (tree_doc D)).
Proof. exact node_closure. Qed.
(** NewTypeInfo moves nothing: the node positions of the annotated document are those of the document *)
Theorem C04_node_positions_annotated : forall qo S F D,
  all_node_positions (pti_doc qo S F D) = all_node_positions D.
Proof. exact node_positions_pti. Qed.
(** every error returned has a location, and each location is the position of a node of the document *)
Theorem C04_validate_error_located : forall pi, order_ok pi -> forall S F D errs e,
  validate_model_memo repaired pi S F D = Done errs -> In e errs ->
  e_locs e <> [] /\ forall p, In p (e_locs e) -> In p (all_node_positions D).
Proof. exact validate_error_located. Qed.
Theorem C04_validate_error_located_plain : forall pi, order_ok pi -> forall S F D errs e,
  validate_model repaired pi S F D = Done errs -> In e errs ->
  e_locs e <> [] /\ forall p, In p (e_locs e) -> In p (all_node_positions D).
Proof. exact validate_error_located_plain. Qed.

(** ** the repaired defects: with the repair switched off the model shows the defect *)
(** DESIGN 6 row 8: a violation beneath a node carrying arguments / directives was accepted *)
Theorem C04_refuted_before_fix_descend :
  exists q S F D, q_descend q = false /\ valid_5_7_3 D = false /\ validate_model q id_order S F D = Done [].
Proof. exact accepted_violation_before_fix_8. Qed.
(** row 9: a valid document spreading one fragment twice was rejected *)
Theorem C04_refuted_before_fix_revisit :
  exists q S F D, q_revisit_ok q = false /\ Valid S F D /\ validate_model q id_order S F D <> Done [].
Proof. exact valid_rejected_before_fix_9. Qed.
(** row 4: nil dereference on differently named arguments *)
Theorem C04_refuted_before_fix_nil_argument :
  exists q S F D, q_nil_arg q = false /\ validate_model q id_order S F D = Panic PNilArgument.
Proof. exact panic_before_fix_4. Qed.

(** row 30 (validator half): a spread possible only through an implementation the request cannot see *)
Theorem C04_refuted_before_fix_impl_features :
  exists q S F D, q_impl_features q = false /\ valid_5_5_2_3 S F D = false /\ validate_model q id_order S F D = Done [].
Proof. exact accepted_violation_before_fix_30. Qed.

Print Assumptions C04_refuted_before_fix_impl_features.
Print Assumptions C04_accept_deterministic.
Print Assumptions C04_validate_no_panic.
Print Assumptions C04_verdict_deterministic.
Print Assumptions C04_validate_memo_no_panic.
Print Assumptions C04_memo_accepts_what_plain_accepts_partial.
Print Assumptions C04_memo_accepted_valid.
Print Assumptions C04_depth_bound_suffices.
Print Assumptions C04_no_depth_error_without_cycle.
Print Assumptions C04_spreads_silent_acyclic.
Print Assumptions C04_memo_equiv.
Print Assumptions C04_memo_accept_deterministic.
Print Assumptions C04_memo_verdict_deterministic.
Print Assumptions C04_field_positions_of_annotated.
Print Assumptions C04_memo_equiv_parsed.
Print Assumptions C04_memo_accept_deterministic_parsed.
Print Assumptions C04_memo_never_hides_a_conflict.
Print Assumptions C04_typeinfo_arguments.
Print Assumptions C04_typeinfo_list_items.
Print Assumptions C04_typeinfo_object_fields.
Print Assumptions C04_variable_usages_in_value.
Print Assumptions C04_type_info_total.
Print Assumptions C04_accepted_iff_rules_silent.
Print Assumptions C04_all_rules_silent.
Print Assumptions C04_filter_nil.
Print Assumptions C04_filter_secondary_only_without_primary.
Print Assumptions C04_secondary_never_alone.
Print Assumptions C04_secondary_never_alone_plain.
Print Assumptions C04_no_primary_then_nothing.
Print Assumptions C04_no_primary_then_scopes_good.
Print Assumptions C04_accepted_doc_ok_conjuncts.
Print Assumptions C04_spec_reachable_from.
Print Assumptions C04_spec_op_fragments.
Print Assumptions C04_accepted_cycles_variables.
Print Assumptions C04_accepted_spreads_possible.
Print Assumptions C04_accepted_valid_sections.
Print Assumptions C04_accepted_variable_usages_allowed.
Print Assumptions C04_usage_allowed_at_named_nonnull.
Print Assumptions C04_validate_ok_doc_ok_partial.
Print Assumptions C04_fields_valid_silent.
Print Assumptions C04_spreads_valid_no_primary.
Print Assumptions C04_variables_valid_no_primary.
Print Assumptions C04_verdict_up_to_two_rules_partial.
Print Assumptions C04_collect_complete.
Print Assumptions C04_collect_sound.
Print Assumptions C04_subscription_single_root_model.
Print Assumptions C04_accepted_merge_sound.
Print Assumptions C04_accepted_merge_sound_plain.
Print Assumptions C04_merge_ok_unfold.
Print Assumptions C04_shape_ok_unfold.
Print Assumptions C04_merge_ok_parents_names.
Print Assumptions C04_values_identical_spec.
Print Assumptions C04_args_check_same_args.
Print Assumptions C04_shape_loop_strip.
Print Assumptions C04_defined_on_possible.
Print Assumptions C04_fields_defined_on_possible.
Print Assumptions C04_spreads_silent_acyclic_chains.
Print Assumptions C04_no_cycle_acyclic_chains.
Print Assumptions C04_spec_collected_sound.
Print Assumptions C04_spec_collected_complete.
Print Assumptions C04_subscription_check_is_5_2_3_1.
Print Assumptions C04_accepted_single_root.
Print Assumptions C04_doc_positions_ok_spec.
Print Assumptions C04_accepted_5_3_2.
Print Assumptions C04_accepted_valid.
Print Assumptions C04_collect_entries.
Print Assumptions C04_verdict_up_to_merge_partial.
Print Assumptions C04_rule_directives_iff.
Print Assumptions C04_rule_fragment_declarations_iff.
Print Assumptions C04_rule_operations_iff_partial.
Print Assumptions C04_accepted_operations_hold.
Print Assumptions C04_rule_arguments_iff.
Print Assumptions C04_rule_values_iff.
Print Assumptions C04_coercion_agrees.
Print Assumptions C04_cycle_search_iff.
Print Assumptions C04_cycle_search_total.
Print Assumptions C04_variables_rule_iff.
Print Assumptions C04_validate_verdict_partial.
Print Assumptions C04_accepted_fields_hold.
Print Assumptions C04_accepted_arguments_hold.
Print Assumptions C04_fields_pass_errors.
Print Assumptions C04_accepted_spread_targets_defined.
Print Assumptions C04_spreads_pass_errors.
Print Assumptions C04_violation_rejected_partial.
Print Assumptions C04_refuted_before_fix_descend.
Print Assumptions C04_refuted_before_fix_revisit.
Print Assumptions C04_refuted_before_fix_nil_argument.
Print Assumptions C04_spec_collected_complete_parents.
Print Assumptions C04_filed_collected.
Print Assumptions C04_spec_same_response_shape_sym.
Print Assumptions C04_spec_fields_can_merge_comm.
Print Assumptions C04_spec_shape_fuel_monotone.
Print Assumptions C04_spec_merge_fuel_monotone.
Print Assumptions C04_located_subfields_merge.
Print Assumptions C04_valid_merge_pass_silent.
Print Assumptions C04_validate_verdict.
Print Assumptions C04_validate_verdict_plain.
Print Assumptions C04_invalid_rejected.
Print Assumptions C04_node_closure.
Print Assumptions C04_node_positions_annotated.
Print Assumptions C04_validate_error_located.
Print Assumptions C04_validate_error_located_plain.
