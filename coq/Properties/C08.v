(** * C08 — WebSocket sessions obey the operation lifecycle and always clean up.

    Property (properties.jsonl): on a WebSocket connection speaking either supported sub-protocol,
    for every sequence of client frames (well-formed, malformed, out of order, repeated or
    unknown): nothing but a connection error precedes the acknowledgement of a successful init and
    operations sent before it are not executed; while the connection stays open each started query
    or mutation receives exactly one result message followed by exactly one complete, each started
    subscription receives zero or more results followed by exactly one complete once it is stopped
    or its source ends and nothing further for that operation, and a client ping is answered with
    a pong.  However the connection ends — client close, terminate message, protocol error,
    network drop or server-initiated close — every subscription source started on it is stopped
    exactly once, the connection is deregistered, and no goroutine serving it remains.

    This file contains only statements closed by [exact] and their [Print Assumptions].

    Vocabulary (Ws/WsTypes.v): a run is a list of labels — client frames [LFrame], source events
    [LEmit n] / [LSrcEnd n], endings [LEnd e] — in any order and number; [tr p ls] is the trace of
    events the connection produces ([VSend f owner]: sendMessage puts frame f on the outgoing
    queue on behalf of operation [owner]; [VExec], [VSubscribe], [VStop] …: resolver / Stop()
    calls); [fin p ls] the final state.  Operation n is the one started by label number n.

    Stage 3 (section J) joins the two: one interleaved system with the data of stage 1, proved to
    be a restriction of stage 2 and to project, owner by owner, to stage 1's sequential trace.

    Stage 1 (sections A–H) is the sequential semantics of the dispatcher (both handleMessage
    functions and graphqlWSHandler); "sent" means handed to sendMessage.  Stage 2 (section I) is the
    interleaved semantics of read loop, write loop, subscription goroutines and closers with the
    bounded queue; it proves that everything sent while the write loop lives is written or the
    connection goes down, and that going down always completes.

    Reading of two clauses.  "Nothing but a connection error precedes the ack": in
    graphql-transport-ws a ping must be answered at any time, so a pong may precede the ack as
    well (A).  The periodic keep-alive of the write loop is the label [LTick] (one period elapsed and
    the write loop took the tick): graphql-transport-ws writes a pong (its heartbeat; allowed at any
    time), graphql-ws a ka, since fix c3ed4f8 only once the first ack has been queued.

    PARTIAL (stated, not proved): "no goroutine serving it remains" is proved for the actor model
    (I: every actor terminates); on the real runtime it is observed by the correspondence check
    (goroutine profile after every conversation), not proved. *)
From Coq Require Import List NArith ZArith Bool String.
From ApiFu Require Import Ws.WsTypes Ws.WsSpec Ws.WsModel Ws.WsProofs Ws.WsTheorems Ws.WsActors Ws.WsActorsProofs Ws.WsSys Ws.WsSysProofs.
Import ListNotations.
Open Scope list_scope.

(** ** A. ack first *)
Theorem C08_ws_ack_first : forall (p : proto) (ls : list label) pre f post,
  frames (tr p ls) = pre ++ f :: post -> ~ In SAck pre ->
  f = SAck \/ f = SConnError \/ (p = PTws /\ f = SPong).
Proof. exact ws_ack_first. Qed.

(** ** B. nothing operation-related before init *)
(** an operation event (a start accepted by HandleStart, a resolver run, a Stop, a result or a
    complete frame) is preceded by an ack, which is preceded by an accepted init *)
Theorem C08_ws_no_exec_before_init : forall (p : proto) (ls : list label) pre e post,
  tr p ls = pre ++ e :: post -> is_op_event e = true ->
  (exists o, In (VSend SAck o) pre) /\ In (VInit true) pre.
Proof. exact ws_no_exec_before_init. Qed.

(** on a connection whose every init frame is refused (or that gets none) nothing is ever executed
    and no operation frame is ever sent, whatever else the client sends *)
Theorem C08_ws_nothing_without_init : forall (p : proto) (ls : list label),
  (forall id pl, In (LFrame (Msg TInit id pl)) ls -> init_ok pl = false) ->
  forall e, In e (tr p ls) -> is_op_event e = false.
Proof. exact ws_nothing_without_init. Qed.

(** ** C. queries, mutations, documents answered with errors *)
(** a start / subscribe frame with a decodable payload, arriving after an accepted init on a
    connection that has not ended, is started … *)
Theorem C08_ws_start_is_started : forall (p : proto) ls1 id pl d ls2,
  decode_start pl = Some d -> did_init (fin p ls1) = true -> closed (fin p ls1) = false ->
  In (VStart (List.length ls1) id d)
     (tr p (ls1 ++ LFrame (Msg (match p with PWs => TStart | PTws => TSubscribe end) id pl) :: ls2)).
Proof. exact ws_start_is_started. Qed.
Theorem C08_ws_initialised_after_accepted_init : forall (p : proto) ls1 id pl ls2,
  init_ok pl = true -> closed (fin p ls1) = false ->
  did_init (fin p (ls1 ++ LFrame (Msg TInit id pl) :: ls2)) = true.
Proof. exact ws_initialised_after_accepted_init. Qed.
Theorem C08_ws_closed_iff : forall (p : proto) ls, closed (fin p ls) = true <-> exists e, In (LEnd e) ls.
Proof. exact ws_closed_iff. Qed.

(** … and a started operation that is not a subscription owns exactly one result frame followed by
    exactly one complete frame, for ever (whatever happens afterwards, incl. reuse of its id), is
    started once and executed once (not at all when its document is invalid) *)
Theorem C08_ws_query_one_result_one_complete : forall (p : proto) ls n id d,
  In (VStart n id d) (tr p ls) -> is_sublike d = false ->
  owned n (tr p ls) = [SData id (result_class (tr p ls) d n); SComplete id] /\
  count (is_start n) (tr p ls) = 1 /\
  count (is_exec n) (tr p ls) = (match d with DInvalid => 0 | _ => 1 end).
Proof. exact ws_query_one_result_one_complete. Qed.

(** [result_class t d n]: the operation's own result ([CRes n]), unless closing had begun before it was started:
    [beginClosing] cancels the handler's context, an operation dispatched afterwards is still executed
    ([Config.Execute] is called) but its resolvers do not run and the result carries errors only ([CErr]); errors
    only as well for documents that do not validate.  "Closing had begun" = a [VBeginClose] precedes the start in the
    trace ([begun_before]), and the trace has one exactly when the dispatcher's once-guard has fired: *)
Theorem C08_ws_begun_iff_closing : forall (p : proto) ls,
  existsb is_begin (tr p ls) = true <-> WsModel.closing (fin p ls) <> None.
Proof. exact ws_begun_iff_closing. Qed.

(** ** D. subscriptions *)
(** a subscription whose source was started owns its events 1..k in order, then exactly one
    complete if and only if it has been stopped or its source has ended, and nothing else *)
Theorem C08_ws_sub_complete_once_then_silent : forall (p : proto) ls n,
  In (VSubscribe n) (tr p ls) ->
  exists id k,
    In (VStart n id DSub) (tr p ls) /\
    owned n (tr p ls) = evs id n k ++ (if stopped_or_ended n (tr p ls) then [SComplete id] else []).
Proof. exact ws_sub_complete_once_then_silent. Qed.

(** a subscription start is never dropped: it is served (source started, or its failure answered)
    unless a subscription with the same id has been started and has not completed *)
Theorem C08_ws_no_start_dropped : forall (p : proto) ls pre n id d post,
  tr p ls = pre ++ VStart n id d :: post -> is_sublike d = true ->
  served n (tr p ls) = true \/ busy id pre = true.
Proof. exact ws_no_start_dropped. Qed.

(** ** E. ping / pong (graphql-transport-ws) *)
Theorem C08_ws_ping_pong : forall ls id pl,
  closed (fin PTws ls) = false ->
  snd (step false false false PTws (fin PTws ls) (LFrame (Msg TPing id pl))) = [VRecv (Msg TPing id pl); VSend SPong None].
Proof. exact ws_ping_pong. Qed.
(** over a whole run: one pong per ping and one per keep-alive tick, in order, none else; none at all in graphql-ws *)
Theorem C08_ws_pongs_match_pings : forall (p : proto) ls, chk_pongs p 0 (tr p ls) = true.
Proof. exact ws_pongs_match_pings. Qed.

(** the write loop's periodic keep-alive ([LTick] anywhere in a run): a pong in
    graphql-transport-ws, a ka in graphql-ws exactly when an init has been accepted; with (A) — which
    quantifies over runs with ticks anywhere — never before the first ack *)
Theorem C08_ws_tick_keepalive : forall (p : proto) ls,
  closed (fin p ls) = false ->
  snd (step false false false p (fin p ls) LTick) =
  VTick :: match p with
           | PWs => if did_init (fin p ls) then [VSend SKa None] else []
           | PTws => [VSend SPong None]
           end.
Proof. exact ws_tick_keepalive. Qed.

(** ** F. Stop() exactly once *)
Theorem C08_ws_stop_exactly_once : forall (p : proto) ls n,
  In (VSubscribe n) (tr p ls) ->
  count (is_stop n) (tr p ls) <= 1 /\
  (closed (fin p ls) = true -> count (is_stop n) (tr p ls) = 1).
Proof. exact ws_stop_exactly_once. Qed.
Theorem C08_ws_stop_only_started : forall (p : proto) ls n, In (VStop n) (tr p ls) -> In (VSubscribe n) (tr p ls).
Proof. exact ws_stop_only_started. Qed.

(** ** G. deregistration *)
Theorem C08_ws_deregistered : forall (p : proto) ls,
  (closed (fin p ls) = true -> WsModel.registered (fin p ls) = false /\ count is_dereg (tr p ls) = 1) /\
  (closed (fin p ls) = false -> WsModel.registered (fin p ls) = true /\ count is_dereg (tr p ls) = 0).
Proof. exact ws_deregistered. Qed.

(** ** H. the Spec oracle of the correspondence check accepts every trace of the model *)
Theorem C08_ws_model_meets_spec : forall (p : proto) ls, spec_verdict p (tr p ls) = None.
Proof. exact ws_model_meets_spec. Qed.

(** frames that are on their way while the server is closing are still dispatched (the model's runs
    contain frames after every closing frame): the oracle the check uses for that part of an observed
    conversation — same rules, answers may be cut short from trace position k on — accepts every model
    trace as well *)
Theorem C08_ws_model_meets_spec_closing : forall k (p : proto) ls, spec_verdict_from k p (tr p ls) = None.
Proof. exact ws_model_meets_spec_closing. Qed.

(** the repaired defects, kept as witnesses: the model of the code before the repair violates the Spec *)
Theorem C08_ws_ping_refuted_before_fix :
  exists ls, spec_verdict PTws (trace true false false PTws ls) = Some "ping-pong"%string.
Proof. exact ws_ping_refuted_before_fix. Qed.
Theorem C08_ws_id_reuse_refuted_before_fix :
  exists ls, spec_verdict PWs (trace false true false PWs ls) = Some "stale-id-after-source-end"%string.
Proof. exact ws_id_reuse_refuted_before_fix. Qed.

Theorem C08_ws_keepalive_refuted_before_fix :
  exists ls, spec_verdict PWs (trace false false true PWs ls) = Some "ack-not-first"%string.
Proof. exact ws_keepalive_refuted_before_fix. Qed.

(** ** I. stage 2: shutdown always completes (queue capacity [cap] >= 1 as a parameter) *)
(** A handler callback may return only when the handler's context is cancelled ([RWaitCancel]: a resolver
    waiting for a backend with the request's context); [beginClosing] cancels that context ([IRCancelled]
    needs [closing]).  [settling c]: closing has begun, or the connection is ending in another way (the
    client closed / dropped, the server closed its socket) and the read loop is not inside such a
    callback.
    From every reachable settling configuration, every run of internal steps — every
    schedule of read loop, write loop, subscription goroutines and closers — has at most [mu c]
    steps, and a run that cannot be extended ends in the configuration where every actor has
    terminated, HandleClose has run, the connection is deregistered and every stream has been
    stopped exactly once. *)
Theorem C08_ws_quiescent : forall cap, 1 <= cap -> forall c,
  reachable cap true c -> settling c = true ->
  forall ls c', Forall (fun l => internal l = true) ls -> arun cap true c ls = Some c' ->
    List.length ls <= mu c /\
    ((forall l, internal l = true -> astep cap true c' l = None) -> all_gone c' = true /\ cleaned c').
Proof. exact quiescent. Qed.

(** in particular: close completes even if a handler call only returns upon cancellation — once closing has
    begun (by the read loop, by the application's Close(), by the write loop on its way out) … *)
Theorem C08_ws_close_completes_upon_cancellation : forall cap, 1 <= cap -> forall c,
  reachable cap true c -> closing c = true ->
  forall ls c', Forall (fun l => internal l = true) ls -> arun cap true c ls = Some c' ->
    List.length ls <= mu c /\
    ((forall l, internal l = true -> astep cap true c' l = None) -> all_gone c' = true /\ cleaned c').
Proof. exact close_completes_upon_cancellation. Qed.
(** … and a failing write (the client has gone while the read loop waits in such a callback) begins closing *)
Theorem C08_ws_write_failure_begins_closing : forall cap c l c',
  astep cap true c l = Some c' -> (l = ETickFail \/ l = IWTakeFail) -> closing c' = true.
Proof. exact write_failure_begins_closing. Qed.
(** before that repair: drop during such a callback, the write loop fails a write and exits, nobody has
    begun closing: nobody can move, the read loop has not ended, HandleClose has not run *)
Theorem C08_ws_quiescent_refuted_before_fix_cancel :
  exists c, arun 100 false init_cfg (firstn 3 stuck_waiting_run) = Some c /\ ending c = true /\
            (forall l, internal l = true -> astep 100 false c l = None) /\
            all_gone c = false /\ finished c = false /\ registered c = true.
Proof. exact quiescent_refuted_before_fix_cancel. Qed.

(** what (I) rests on.  The write loop's deferred calls run in the order conn.Close(), close(writeLoopDone),
    finishClosing(): whenever the write loop has returned the socket is closed — that is what ends a read loop parked
    in ReadMessage when the peer neither answers the close frame nor drops ([IReadFail]), and finishClosing waits for
    the read loop.  With the order swapped (socket closed last) a peer that stays connected and silent keeps the
    connection for ever. *)
Theorem C08_ws_socket_closed_before_finish : forall cap fixed c,
  reachable cap fixed c -> writer_done c = true -> conn_closed c = true.
Proof. exact socket_closed_before_finish. Qed.
Theorem C08_ws_quiescent_refuted_when_socket_closed_last :
  exists c, arun_close_last 100 init_cfg silent_peer_run = Some c /\ settling c = true /\
            (forall l, internal l = true -> astep_close_last 100 c l = None) /\
            all_gone c = false /\ finished c = false /\ registered c = true.
Proof. exact quiescent_refuted_when_socket_closed_last. Qed.
(** sendMessage never gives up while the write loop lives: a full queue is back-pressure, not loss *)
Theorem C08_ws_send_fails_only_after_writer_exit : forall cap c l c',
  astep cap true c l = Some c' ->
  (l = IRSendFail \/ exists i, l = IGDataFail i \/ l = IGCompleteFail i) -> writer_done c = true.
Proof. exact send_fails_only_after_writer_exit. Qed.

(** and such a run exists *)
Theorem C08_ws_quiescent_run_exists : forall cap, 1 <= cap -> forall n c,
  mu c <= n -> reachable cap true c -> settling c = true ->
  exists ls c', Forall (fun l => internal l = true) ls /\ arun cap true c ls = Some c' /\
                all_gone c' = true /\ cleaned c'.
Proof. exact quiescent_run_exists. Qed.

Theorem C08_ws_actors_stop_at_most_once : forall cap fixed c,
  reachable cap fixed c -> Forall (fun g => g_stops g <= 1) (gs c).
Proof. exact actors_stop_at_most_once. Qed.

(** defect #31, kept as witnesses: before the repair (sendMessage could only complete by
    enqueueing) there are reachable configurations on the way out in which nobody can move although
    the read loop (resp. a subscription goroutine) has not terminated and HandleClose has not run *)
Theorem C08_ws_quiescent_refuted_before_fix_reader :
  exists c, arun 100 false init_cfg stuck_reader_run = Some c /\ ending c = true /\
            (forall l, internal l = true -> astep 100 false c l = None) /\
            all_gone c = false /\ finished c = false /\ registered c = true.
Proof. exact quiescent_refuted_before_fix_reader. Qed.
Theorem C08_ws_quiescent_refuted_before_fix_goroutine :
  exists c, arun 1 false init_cfg stuck_goroutine_run = Some c /\ ending c = true /\
            (forall l, internal l = true -> astep 1 false c l = None) /\ all_gone c = false.
Proof. exact quiescent_refuted_before_fix_goroutine. Qed.

(** HandleClose happens after the read loop's last handler return.  A handler call in flight is the read
    loop in [RBusy prog]; the application's Close(), a drop, a failing write, the exit of the write loop
    can all happen while it lasts.  In every reachable configuration in which HandleClose has run the
    read loop has ended, stays ended, no subscription can be registered any more (the list of goroutines
    keeps its length under every step) and every stream ever registered has been taken out of the map
    and stopped exactly once. *)
Theorem C08_ws_close_after_last_handler : forall cap c,
  reachable cap true c -> finished c = true ->
  rd c = RDone /\ Forall (fun g => g_inmap g = false /\ g_stops g = 1) (gs c) /\
  (forall l c', astep cap true c l = Some c' -> rd c' = RDone /\ List.length (gs c') = List.length (gs c)).
Proof. exact ws_close_after_last_handler. Qed.

(** ** J. stage 3: the two models joined (Ws/WsSys.v) *)
(** One transition system: the actors of stage 2 carrying the dispatcher and the table of sources of
    stage 1.  The read loop takes real client frames ([YFrame f]): what [handleMessage] decides (and
    its Stop() / go func() effects) happens when the frame is taken, the frames it sends become the
    read loop's program and go through the bounded queue one blocking send at a time; a goroutine takes
    an event ([YEmit]), sends the data frame later, notices the end of its source ([IGEnd]) or its
    cancellation, sends its complete later; [y_hist] lists the labels in the order of these commit
    points.  [y_rcalls] / [y_gcalls]: frames handed to sendMessage so far by the read loop / by each
    goroutine.

    (J1) Every run of the joined system is a run of stage 2 on its configuration: the joined system only
    restricts stage 2 (to the programs handleMessage really runs) and adds bookkeeping. *)
Theorem C08_sys_runs_are_stage2_runs : forall cap p ls y y',
  yrun cap p y ls = Some y' -> arun cap true (y_c y) (erase_run cap p y ls) = Some (y_c y').
Proof. exact yrun_erases. Qed.

(** (J2) … and projects to the sequential trace of stage 1, owner by owner.  In every reachable state,
    with ls the labels committed so far: the dispatcher is in stage 1's state [fin p ls]; goroutine i
    serves the i-th source x of that state, the application's Stop() has been called on its stream
    exactly as often as stage 1 says, and what it has handed to sendMessage plus what it still has in
    hand (the data frame of an event taken, the complete it owes) is exactly [owned (s_op x) (tr p ls)];
    for every owner without a source (None = connection-level frames; queries, mutations, failed
    subscribes) what the read loop has handed to sendMessage plus its remaining program (plus what an
    early return after a failed ack / ka send dropped — only once the write loop has exited) is
    exactly what [tr p ls] attributes to that owner; HandleClose has run iff stage 1 is closed.
    Hence every theorem of sections A-H about [tr p ls] and [fin p ls] speaks about the interleaved
    system: per owner, the frames sent are a prefix of stage 1's, the remainder being in hand. *)
Theorem C08_sys_refines : forall cap p y, yreach cap p y ->
  y_s y = fin p (y_hist y) /\ reachable cap true (y_c y) /\ finished (y_c y) = closed (fin p (y_hist y)) /\
  List.length (gs (y_c y)) = List.length (srcs (fin p (y_hist y))) /\
  List.length (y_gcalls y) = List.length (srcs (fin p (y_hist y))) /\
  (forall i g x cl, nth_error (gs (y_c y)) i = Some g -> nth_error (srcs (fin p (y_hist y))) i = Some x ->
                    nth_error (y_gcalls y) i = Some cl ->
     g_stops g = s_stops x /\ cl ++ gor_pending g x = owned (s_op x) (tr p (y_hist y))) /\
  (forall ow, is_src_op (srcs (fin p (y_hist y))) ow = false ->
     osends_to ow (y_rcalls y ++ y_rprog y ++ y_lost y) = sent_to ow (tr p (y_hist y))) /\
  (y_lost y = [] \/ writer_done (y_c y) = true).
Proof. exact sys_refines. Qed.

(** (J2') global order.  All connection-level frames have one owner (none) and one sender (the read loop): in the
    real-time order of ALL sendMessage calls of the joined system ([y_calls]: read loop and subscription goroutines
    together) the connection-level frames (ack, ka, connection_error, pong), followed by what the read loop still has
    in hand, are exactly the connection-level frames of stage 1's trace, in its order; and R1 holds of that real-time
    order: before the first ack nothing but a connection error (graphql-transport-ws: or a pong) is handed to
    sendMessage by anybody.  (The close frame is written by the write loop after it has drained the queue: stage 2,
    [WDrain] -> [WWait]; the content of queue and socket is not in the joined system.) *)
Theorem C08_sys_conn_frames_in_order : forall cap p y, yreach cap p y ->
  osends_to None (y_calls y) ++ osends_to None (y_rprog y ++ y_lost y) = sent_to None (tr p (y_hist y)).
Proof. exact sys_conn_frames_in_order. Qed.
Theorem C08_sys_ack_first : forall cap p y, yreach cap p y -> chk_ack_first p (fr (y_calls y)) = true.
Proof. exact sys_ack_first. Qed.

(** (J3) the joined system can take every internal step stage 2 can (the bookkeeping never blocks), so
    (I) carries over: from every reachable state on its way out every run of internal steps is
    bounded and can only stop where every actor has terminated, HandleClose has run, the connection is
    deregistered and every stream has been stopped exactly once *)
Theorem C08_sys_quiescent : forall cap p, 1 <= cap -> forall y,
  yreach cap p y -> ending (y_c y) = true ->
  forall ls y', Forall (fun a => internal a = true) ls -> yrun cap p y (map YInt ls) = Some y' ->
    List.length ls <= mu (y_c y) /\
    ((forall a, internal a = true -> ystep cap p y' (YInt a) = None) -> all_gone (y_c y') = true /\ cleaned (y_c y')).
Proof. exact sys_quiescent. Qed.

Print Assumptions C08_ws_ack_first.
Print Assumptions C08_ws_no_exec_before_init.
Print Assumptions C08_ws_nothing_without_init.
Print Assumptions C08_ws_start_is_started.
Print Assumptions C08_ws_initialised_after_accepted_init.
Print Assumptions C08_ws_closed_iff.
Print Assumptions C08_ws_query_one_result_one_complete.
Print Assumptions C08_ws_begun_iff_closing.
Print Assumptions C08_ws_sub_complete_once_then_silent.
Print Assumptions C08_ws_no_start_dropped.
Print Assumptions C08_ws_ping_pong.
Print Assumptions C08_ws_pongs_match_pings.
Print Assumptions C08_ws_tick_keepalive.
Print Assumptions C08_ws_stop_exactly_once.
Print Assumptions C08_ws_stop_only_started.
Print Assumptions C08_ws_deregistered.
Print Assumptions C08_ws_model_meets_spec.
Print Assumptions C08_ws_model_meets_spec_closing.
Print Assumptions C08_ws_close_after_last_handler.
Print Assumptions C08_ws_ping_refuted_before_fix.
Print Assumptions C08_ws_id_reuse_refuted_before_fix.
Print Assumptions C08_ws_keepalive_refuted_before_fix.
Print Assumptions C08_ws_quiescent.
Print Assumptions C08_ws_quiescent_run_exists.
Print Assumptions C08_ws_socket_closed_before_finish.
Print Assumptions C08_ws_quiescent_refuted_when_socket_closed_last.
Print Assumptions C08_ws_send_fails_only_after_writer_exit.
Print Assumptions C08_ws_close_completes_upon_cancellation.
Print Assumptions C08_ws_write_failure_begins_closing.
Print Assumptions C08_ws_quiescent_refuted_before_fix_cancel.
Print Assumptions C08_ws_actors_stop_at_most_once.
Print Assumptions C08_ws_quiescent_refuted_before_fix_reader.
Print Assumptions C08_ws_quiescent_refuted_before_fix_goroutine.
Print Assumptions C08_sys_runs_are_stage2_runs.
Print Assumptions C08_sys_refines.
Print Assumptions C08_sys_conn_frames_in_order.
Print Assumptions C08_sys_ack_first.
Print Assumptions C08_sys_quiescent.
