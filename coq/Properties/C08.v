(** * C08 — WebSocket sessions obey the operation lifecycle and always clean up. (in progress) *)
From Coq Require Import List NArith ZArith.
From ApiFu Require Import Ws.WsTypes Ws.WsSpec Ws.WsModel Ws.WsProofs.
Import ListNotations.

Theorem C08_placeholder : closed init_st = false.
Proof. exact placeholder. Qed.

Print Assumptions C08_placeholder.
