(** * C06 (work in progress) *)
From Coq Require Import List NArith ZArith.
From ApiFu Require Import Base.Sexp Syn.Ast Syn.ParserModel Syn.Printer Syn.ParserProofs.
Import ListNotations.

Theorem C06_wide_rejected_before_fix :
  exists es, ParseDocument p0 [] true (wide_doc 1000) = Out None es.
Proof. exact wide_rejected_before_fix. Qed.

Print Assumptions C06_wide_rejected_before_fix.
