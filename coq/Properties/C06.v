(** * C06 — the parser accepts exactly the executable-document grammar, with exact positions.

    Model: Syn/ParserModel.v (transcription of graphql/parser/parser.go over the token stream the
    scanner hands to [consumeToken]); Spec: Syn/Printer.v ([tokens_*]: the grammar as a printer
    that puts every recorded position on the node's first token; [wf_*]: the grammar's side
    conditions; [depth_*]: derivation height in parser productions).
    [ParseDocument eof_pos eof_errs false ts] is the repaired code; [... true ts] the pinned tree
    before the repair of defect 14.  [Out (Some d) es]: the tree and the reported error
    locations; [Out None es]: nil and the errors.

    This file contains only statements closed by [exact] and their [Print Assumptions]. *)
From Coq Require Import List NArith ZArith.
From ApiFu Require Import Base.Sexp Syn.Ast Syn.ParserModel Syn.Printer Syn.ParserProofs Syn.Relabel
     Syn.FrontEnd Syn.FrontEndSpec Syn.FrontEndProofs Syn.PositionMethods Syn.PositionProofs.
Import ListNotations.

(** Nothing outside the grammar, nothing truncated, every position exact: an accepted token
    sequence is a layout of the printed tree — token for token to the end of the input, each
    recorded position equal to the position of the node's first token ([layout_of] compares
    them) —, the tree satisfies the grammar's side conditions, and no lexical error occurred
    anywhere in the text. *)
Theorem C06_parse_sound : forall eof_pos eof_errs ts d,
  ParseDocument eof_pos eof_errs false ts = Out (Some d) [] ->
  layout_of (tokens_document d) (map st_tok ts) = true /\ wf_document d = true /\
  (depth_document d <= max_recursion)%Z /\ scanner_errors eof_errs ts = [].
Proof. exact parse_sound. Qed.

(** Everything in the grammar (up to the recursion limit) is accepted and parses back to the
    very same tree, positions included. *)
Theorem C06_parse_roundtrip : forall eof_pos eof_errs ts d,
  layout_of (tokens_document d) (map st_tok ts) = true -> wf_document d = true ->
  (depth_document d <= max_recursion)%Z -> scanner_errors eof_errs ts = [] ->
  ParseDocument eof_pos eof_errs false ts = Out (Some d) [].
Proof. exact parse_roundtrip. Qed.

(** The parser decides the grammar: accepted = the layouts of well-formed trees whose derivation
    fits under the recursion limit, without lexical errors ... *)
Theorem C06_parse_accepts_exactly : forall eof_pos eof_errs ts d,
  ParseDocument eof_pos eof_errs false ts = Out (Some d) [] <->
  layout_of (tokens_document d) (map st_tok ts) = true /\ wf_document d = true /\
  (depth_document d <= max_recursion)%Z /\ scanner_errors eof_errs ts = [].
Proof. exact parse_accepts_exactly. Qed.

(** ... everything else is rejected with at least one error (no partial or truncated tree) ... *)
Theorem C06_parse_rejects_rest : forall eof_pos eof_errs ts,
  (forall d, ~ (layout_of (tokens_document d) (map st_tok ts) = true /\ wf_document d = true /\
                (depth_document d <= max_recursion)%Z)) ->
  exists es, ParseDocument eof_pos eof_errs false ts = Out None es /\ es <> [].
Proof. exact parse_rejects_rest. Qed.

(** ... and the model's fuel ([S (length ts)]) is never exhausted, on any input. *)
Theorem C06_parse_total : forall eof_pos eof_errs ts,
  ParseDocument eof_pos eof_errs false ts <> OOF.
Proof. exact parse_total. Qed.

Theorem C06_parse_value_total : forall eof_pos eof_errs ts,
  ParseValue eof_pos eof_errs ts <> OOF.
Proof. exact parse_value_total. Qed.

(** Also beside lexical errors: whenever a tree is returned it is the tree of the whole token
    sequence, and the reported errors are exactly the scanner's, in order. *)
Theorem C06_parse_document_tree : forall eof_pos eof_errs ts d es,
  ParseDocument eof_pos eof_errs false ts = Out (Some d) es ->
  layout_of (tokens_document d) (map st_tok ts) = true /\ wf_document d = true /\
  (depth_document d <= max_recursion)%Z /\ es = scanner_errors eof_errs ts.
Proof. exact parse_document_tree. Qed.

(** A rejection reports the scanner errors met so far followed by exactly one parser error,
    located at a token of the input or at the end of the input (hence never "nil, no error"). *)
Theorem C06_parse_error_located : forall eof_pos eof_errs ts es,
  ParseDocument eof_pos eof_errs false ts = Out None es ->
  exists pre p, es = pre ++ [p] /\ (exists rest, pre ++ rest = scanner_errors eof_errs ts) /\
                (In p (token_positions ts) \/ p = eof_pos).
Proof. exact parse_error_located. Qed.

Theorem C06_parse_reject_has_error : forall eof_pos eof_errs ts,
  ParseDocument eof_pos eof_errs false ts <> Out None [].
Proof. exact parse_reject_has_error. Qed.

(** Distinct selection nodes of a parsed document have distinct positions (the executor's
    field-collection memo is keyed by them), provided distinct tokens have distinct positions. *)
Theorem C06_parse_pos_injective : forall eof_pos eof_errs ts d es,
  ParseDocument eof_pos eof_errs false ts = Out (Some d) es ->
  NoDup (token_positions ts) -> NoDup (positions_document d).
Proof. exact parse_pos_injective. Qed.

Theorem C06_parse_positions_are_token_positions : forall eof_pos eof_errs ts d es p,
  ParseDocument eof_pos eof_errs false ts = Out (Some d) es ->
  In p (positions_document d) -> In p (token_positions ts).
Proof. exact parse_positions_are_token_positions. Qed.

(** Instance for the property's "1 <= line <= lines + 1": take
    [Inside p := 1 <= line p <= lines + 1], which the scanner guarantees of tokens and of EOF. *)
Theorem C06_parse_error_inside_text : forall eof_pos eof_errs (Inside : pos -> Prop) ts es,
  Forall Inside (token_positions ts) -> Inside eof_pos ->
  ParseDocument eof_pos eof_errs false ts = Out None es -> exists pre p, es = pre ++ [p] /\ Inside p.
Proof. exact parse_error_inside_text. Qed.

(** Insensitivity to layout.  The model's only input is the significant-token sequence (ignored
    tokens never reach the parser: that the real parser agrees is what the correspondence check
    establishes on every run); positions are only copied: two layouts of one token sequence
    ([same_shape]: same kinds and texts) are both accepted or both rejected, and the trees are
    equal once positions are erased. *)
Theorem C06_parse_layout_insensitive : forall eof1 eof2 ts1 ts2 d1,
  Forall2 same_shape ts1 ts2 -> NoDup (token_positions ts1) ->
  scanner_errors [] ts2 = [] ->
  ParseDocument eof1 [] false ts1 = Out (Some d1) [] ->
  exists d2, ParseDocument eof2 [] false ts2 = Out (Some d2) [] /\ erase_document d2 = erase_document d1.
Proof. exact parse_layout_insensitive. Qed.

Theorem C06_parse_layout_same_verdict : forall eof1 eof2 ts1 ts2,
  Forall2 same_shape ts1 ts2 -> NoDup (token_positions ts1) -> NoDup (token_positions ts2) ->
  scanner_errors [] ts1 = [] -> scanner_errors [] ts2 = [] ->
  ((exists d1, ParseDocument eof1 [] false ts1 = Out (Some d1) []) <->
   (exists d2, ParseDocument eof2 [] false ts2 = Out (Some d2) [])).
Proof. exact parse_layout_same_verdict. Qed.

(** The recursion counter is back at its entry value after every successful parse. *)
Theorem C06_recursion_balanced : forall eof_pos eof_errs fuel ts d s',
  parse_document eof_pos eof_errs false fuel (init eof_errs ts) = Ok d s' -> recur s' = 0%Z.
Proof. exact recursion_balanced. Qed.

(** ParseValue: the same three statements for a single value. *)
Theorem C06_parse_value_tree : forall eof_pos eof_errs ts v es,
  ParseValue eof_pos eof_errs ts = Out (Some v) es ->
  layout_of (tokens_value v) (map st_tok ts) = true /\ wf_value false v = true /\
  (depth_value v <= max_recursion)%Z /\ es = scanner_errors eof_errs ts.
Proof. exact parse_value_tree. Qed.

Theorem C06_parse_value_roundtrip : forall eof_pos eof_errs ts v,
  layout_of (tokens_value v) (map st_tok ts) = true -> wf_value false v = true ->
  (depth_value v <= max_recursion)%Z ->
  ParseValue eof_pos eof_errs ts = Out (Some v) (scanner_errors eof_errs ts).
Proof. exact parse_value_roundtrip. Qed.

Theorem C06_parse_value_error_located : forall eof_pos eof_errs ts es,
  ParseValue eof_pos eof_errs ts = Out None es ->
  exists pre p, es = pre ++ [p] /\ (exists rest, pre ++ rest = scanner_errors eof_errs ts) /\
                (In p (token_positions ts) \/ p = eof_pos).
Proof. exact parse_value_error_located. Qed.

(** The repaired defects as witnesses on the model of the pinned tree. *)
Theorem C06_roundtrip_refuted_before_fix :
  layout_of (tokens_document (wide_doc 1000)) (map st_tok (wide_tokens 1000)) = true /\
  wf_document (wide_doc 1000) = true /\ depth_document (wide_doc 1000) = 8%Z /\
  exists es, ParseDocument p0 [] true (wide_tokens 1000) = Out None es.
Proof. exact wide_rejected_before_fix. Qed.

(** After the repair a flat selection set of ANY width is accepted. *)
Theorem C06_wide_accepted_after_fix : forall n,
  ParseDocument p0 [] false (wide_tokens (S n)) = Out (Some (wide_doc (S n))) [].
Proof. exact wide_accepted_after_fix. Qed.

Theorem C06_recursion_balanced_refuted_before_fix :
  exists d s', parse_document p0 [] true 5 (init [] (wide_tokens 1)) = Ok d s' /\ recur s' = 1%Z.
Proof. exact recursion_unbalanced_before_fix. Qed.

Theorem C06_value_sound_refuted_before_fix :
  exists v, ParseValue_before_fix p0 [] [st0 KInt [49%N]; st0 KInt [50%N]] = Out (Some v) [] /\
            layout_of (tokens_value v) (map st_tok [st0 KInt [49%N]; st0 KInt [50%N]]) = false.
Proof. exact value_truncated_before_fix. Qed.

(** Every Position() method of graphql/ast (Syn/Ast.v, Syn/PositionMethods.v: the model's [*_pos]
    functions, compared with the real methods on every parsed tree) returns the position recorded
    on the first token of the node's printed form ([first_pos]) — which [layout_of], hence
    parse_sound, equates with the position of that token in the source. *)
Theorem C06_position_methods_first_token :
  (forall v, first_pos (tokens_value v) = Some (value_pos v)) /\
  (forall t, first_pos (tokens_type t) = Some (ty_pos t)) /\
  (forall x, first_pos (tokens_variable x) = Some (variable_pos x)) /\
  (forall i, first_pos [e_ident i] = Some (ident_pos i)) /\
  (forall a, first_pos (tokens_argument a) = Some (argument_pos a)) /\
  (forall f, first_pos (e_ident (fst f) :: e_punct_ b_colon :: tokens_value (snd f)) = Some (object_field_pos f)) /\
  (forall d, first_pos (tokens_directive d) = Some (directive_pos d)) /\
  (forall vd, first_pos (tokens_vardef vd) = Some (vardef_pos vd)) /\
  (forall ss, first_pos (tokens_selset ss) = Some (selset_pos ss)) /\
  (forall s, first_pos (tokens_selection s) = Some (selection_pos s)) /\
  (forall d, wf_definition d = true -> first_pos (tokens_definition d) = Some (definition_pos d)).
Proof. exact position_methods_first_token. Qed.

(** ** From BYTES: the parser model driven by the scanner model of property C07 (Syn/FrontEnd.v),
    the way parser.newParser / consumeToken drive scanner.Scanner in mode 0.

    [front_end bs]: the stream of consumeToken() results for the text [bs] (each token with the
    scanner errors of its own Scan call; end position; final errors).
    [parse_document_bytes bs] / [parse_value_bytes bs]: parser.ParseDocument / ParseValue on the
    bytes.  [in_grammar_bytes bs d] (Syn/FrontEndSpec.v): [bs] is valid UTF-8, the lexical grammar
    (LexSpec.spec_lex, C07) cuts it into tokens up to its end, and its Tokens — ignored ones
    dropped — are a layout of the printed well-formed tree [d] of derivation height <= 1000;
    the two recorded deviations of the scanner from the 2018 lexical grammar (C07: a number
    directly followed by e/E, U+FEFF inside the text) are excluded there.
    [inside_text bs p]: 1 <= line p <= 1 + number of line terminators of [bs], 1 <= column.
    No hypothesis about the scanner is left in these statements. *)

(** For EVERY byte string the scanner side terminates within [S (length bs)] Scan calls and hands
    over at most one token per byte, with pairwise distinct positions lying before the end position,
    every position and every lexical error inside the text, and no token kind unknown to the parser. *)
Theorem C06_front_end_total : forall bs, exists r, front_end bs = Some r /\ front_facts bs r.
Proof. exact front_end_total. Qed.

(** No byte string exhausts the fuel of the composed model (scanner: [S (length bs)] calls; parser:
    [S (number of tokens)] <= [S (length bs)]) ... *)
Theorem C06_parse_document_bytes_total : forall bs, parse_document_bytes bs <> OOF.
Proof. exact parse_document_bytes_total. Qed.

(** ... and the only outcomes are "tree and error list" or "nil and a non-empty error list": the
    model of ParseDocument has no panic that escapes and no non-termination, on any request text. *)
Theorem C06_parse_document_bytes_never_panics : forall bs,
  exists tree es, parse_document_bytes bs = Out tree es /\ (tree = None -> es <> []).
Proof. exact parse_document_bytes_never_panics. Qed.

(** Accepted without error = a document of the grammar, with exactly that tree and positions. *)
Theorem C06_parse_bytes_accepts_exactly : forall bs d,
  parse_document_bytes bs = Out (Some d) [] <-> in_grammar_bytes bs d.
Proof. exact parse_bytes_accepts_exactly. Qed.

(** Any text outside the grammar is rejected with at least one error. *)
Theorem C06_parse_bytes_rejects_rest : forall bs,
  (forall d, ~ in_grammar_bytes bs d) ->
  exists tree es, parse_document_bytes bs = Out tree es /\ es <> [].
Proof. exact parse_bytes_rejects_rest. Qed.

(** A tree returned beside lexical errors is still the tree of the whole token stream of the text,
    and the errors are exactly the scanner's. *)
Theorem C06_parse_bytes_tree : forall bs d es, parse_document_bytes bs = Out (Some d) es ->
  exists r, front_end bs = Some r /\ layout_of (tokens_document d) (map st_tok (f_toks r)) = true /\
            wf_document d = true /\ (depth_document d <= max_recursion)%Z /\
            es = scanner_errors (f_eof_errs r) (f_toks r).
Proof. exact parse_bytes_tree. Qed.

(** Distinct selection nodes of a parsed request have distinct positions — unconditionally. *)
Theorem C06_parse_bytes_pos_injective : forall bs d es,
  parse_document_bytes bs = Out (Some d) es -> NoDup (positions_document d).
Proof. exact parse_bytes_pos_injective. Qed.

(** Every reported error, lexical or syntactic, is positioned inside the text. *)
Theorem C06_parse_bytes_errors_inside_text : forall bs tree es,
  parse_document_bytes bs = Out tree es -> Forall (inside_text bs) es.
Proof. exact parse_bytes_errors_inside_text. Qed.

(** A rejection = the lexical errors met so far, then exactly one syntax error, at a token of the
    text or at its end, inside the text. *)
Theorem C06_parse_bytes_error_located : forall bs es, parse_document_bytes bs = Out None es ->
  exists r pre p, front_end bs = Some r /\ es = pre ++ [p] /\
    (exists rest, pre ++ rest = scanner_errors (f_eof_errs r) (f_toks r)) /\
    (In p (token_positions (f_toks r)) \/ p = f_eof r) /\ inside_text bs p.
Proof. exact parse_bytes_error_located. Qed.

(** Two texts whose Token sequences agree in kinds and texts — whatever spaces, tabs, commas,
    comments, line terminators or byte order mark lie between the tokens — get the same verdict and,
    positions erased, the same tree. *)
Theorem C06_parse_bytes_layout_insensitive : forall bs1 bs2 r1 r2 d1,
  front_end bs1 = Some r1 -> front_end bs2 = Some r2 ->
  Forall2 same_shape (f_toks r1) (f_toks r2) ->
  scanner_errors (f_eof_errs r2) (f_toks r2) = [] ->
  parse_document_bytes bs1 = Out (Some d1) [] ->
  exists d2, parse_document_bytes bs2 = Out (Some d2) [] /\ erase_document d2 = erase_document d1.
Proof. exact parse_bytes_layout_insensitive. Qed.

(** The same on the two specifications alone: texts of the lexical grammar whose Token sequences
    agree in kind and text ([same_token_text]) — i.e. that differ only in ignored tokens and in the
    spelling-preserving layout — are both documents or neither, with equal trees modulo positions. *)
Theorem C06_parse_bytes_same_tokens_same_tree : forall bs1 bs2 toks1 toks2 d1,
  lexes_to bs1 toks1 -> lexes_to bs2 toks2 -> Forall2 same_token_text toks1 toks2 ->
  in_grammar_bytes bs1 d1 ->
  exists d2, in_grammar_bytes bs2 d2 /\ erase_document d2 = erase_document d1.
Proof. exact parse_bytes_same_tokens_same_tree. Qed.

(** ParseValue from bytes. *)
Theorem C06_parse_value_bytes_total : forall bs, parse_value_bytes bs <> OOF.
Proof. exact parse_value_bytes_total. Qed.

Theorem C06_parse_value_bytes_accepts_exactly : forall bs v,
  parse_value_bytes bs = Out (Some v) [] <-> value_in_grammar_bytes bs v.
Proof. exact parse_value_bytes_accepts_exactly. Qed.

Theorem C06_parse_value_bytes_errors_inside_text : forall bs tree es,
  parse_value_bytes bs = Out tree es -> Forall (inside_text bs) es.
Proof. exact parse_value_bytes_errors_inside_text. Qed.

Print Assumptions C06_parse_sound.
Print Assumptions C06_parse_roundtrip.
Print Assumptions C06_parse_accepts_exactly.
Print Assumptions C06_parse_rejects_rest.
Print Assumptions C06_parse_total.
Print Assumptions C06_parse_value_total.
Print Assumptions C06_parse_document_tree.
Print Assumptions C06_parse_error_located.
Print Assumptions C06_parse_reject_has_error.
Print Assumptions C06_parse_pos_injective.
Print Assumptions C06_parse_positions_are_token_positions.
Print Assumptions C06_parse_error_inside_text.
Print Assumptions C06_parse_layout_insensitive.
Print Assumptions C06_parse_layout_same_verdict.
Print Assumptions C06_recursion_balanced.
Print Assumptions C06_parse_value_tree.
Print Assumptions C06_parse_value_roundtrip.
Print Assumptions C06_parse_value_error_located.
Print Assumptions C06_roundtrip_refuted_before_fix.
Print Assumptions C06_wide_accepted_after_fix.
Print Assumptions C06_recursion_balanced_refuted_before_fix.
Print Assumptions C06_value_sound_refuted_before_fix.
Print Assumptions C06_position_methods_first_token.
Print Assumptions C06_front_end_total.
Print Assumptions C06_parse_document_bytes_total.
Print Assumptions C06_parse_document_bytes_never_panics.
Print Assumptions C06_parse_bytes_accepts_exactly.
Print Assumptions C06_parse_bytes_rejects_rest.
Print Assumptions C06_parse_bytes_tree.
Print Assumptions C06_parse_bytes_pos_injective.
Print Assumptions C06_parse_bytes_errors_inside_text.
Print Assumptions C06_parse_bytes_error_located.
Print Assumptions C06_parse_bytes_layout_insensitive.
Print Assumptions C06_parse_bytes_same_tokens_same_tree.
Print Assumptions C06_parse_value_bytes_total.
Print Assumptions C06_parse_value_bytes_accepts_exactly.
Print Assumptions C06_parse_value_bytes_errors_inside_text.
