(** placeholder *)
From ApiFu Require Import Cost.CostModel.
Theorem C14_placeholder : True. Proof. exact I. Qed.
Print Assumptions C14_placeholder.
