(** * C14 — operation cost is exact, never undercounts and saturates instead of wrapping.

    This file contains only statements closed by [exact] and their [Print Assumptions].

    Reading guide.  [validate_cost C skip_zero fuel default ctx0 ops frs opname vars_err max]
    (Cost/CostModel.v) is the transcription of [validator.ValidateCost] on a document whose operations
    are [ops] and whose named fragments are [frs]; [skip_zero = true] is the current code, [false] the
    code before the repair of defect 18.  Go [int] is [Z] with an explicit 64-bit wrap after every
    operation.  [C] is the type of cost contexts (opaque).  A field node carries its cost function
    [C -> option fcost] (or nothing: the configured default applies).
    [Expand default frs [] ctx0 op ts] (Cost/CostSpec.v) says that [ts] is the fragment-expanded
    selection tree of operation [op], every field selection carrying the resolver cost and multiplier
    its cost function returned under the context handed down by its ancestors; a derivation exists
    exactly for the documents whose expansion is finite and defined ("validated documents").
    [RefCost ts] is the sum over all field selections of resolver cost x product of the ancestors'
    multipliers, in unbounded [Z].  [costs_ok]: all r, m are in [0, MaxInt]. *)
From Coq Require Import List ZArith Bool.
From ApiFu Require Import Base.Sexp Cost.CostModel Cost.CostSpec Cost.CostProofs.
From ApiFu Require Val.Values Val.CoerceModel Val.CoerceSpec Val.CoerceProofs Relay.RelayModel.
From ApiFu Require Import Cost.CostArgs Cost.CostArgsProofs Cost.CostFragments Cost.CostRelay Cost.CostTrace Cost.CostTraceProofs Cost.CostC04Usage Cost.CostC04 Cost.CostProj Cost.CostC04Proj.
From ApiFu Require Val.BridgeC04Full Vld.TypeInfoPure ExeA.ArgData ExeA.ArgArgs Pipe.CostCompose Cost.CostRealDoc Cost.CostConformU Cost.CostConformDoc.
From ApiFu Require Vld.ProofsTypeInfoValues.
From ApiFu Require Vld.Ast Vld.ValidatorModel Vld.Hyps Vld.ProofsCommon Val.BridgeC04 Val.BridgeC04Proofs Vld.ValidSpec Vld.ProofsSubscription Vld.MemoEquiv.
Import ListNotations.
Open Scope Z_scope.

(** ** the two checked operations, exactly (including operands 0, 1 and the marker -1) *)
Theorem C14_checked_mul_spec : forall a b, in_int a -> in_int b ->
  checked_mul a b = if (a <? 0) || (b <? 0) then -1 else if a * b <=? MaxInt then a * b else -1.
Proof. exact checked_mul_spec. Qed.

Theorem C14_checked_add_spec : forall a b, in_int a -> in_int b ->
  checked_add a b = if (a <? 0) || (b <? 0) then -1 else if a + b <=? MaxInt then a + b else -1.
Proof. exact checked_add_spec. Qed.

(** ** the operation-choice loop is GraphQL's GetOperation *)
Theorem C14_select_op_spec : forall (C : Type) (ops : list (option bytes * node C)) opname,
  select_op C ops opname None = get_operation ops opname.
Proof. exact select_op_spec. Qed.

(** ** the reference sum of products can be evaluated top-down (distributivity) *)
Theorem C14_RefCost_horner : forall ts, RefCost ts = sum (map horner ts).
Proof. exact RefCost_horner. Qed.

(** ** cost_exact (stage 2: named fragments spread at any depth, cost contexts, default cost):
    the reported cost is min(RefCost, MaxInt) and the cost error is raised exactly when a limit is
    given and RefCost exceeds it — for every document, every cost functions, every limit. *)
Theorem C14_cost_exact : forall (C : Type) (default : fcost C) (ctx0 : C)
    (ops : list (option bytes * node C)) (frs : list (bytes * node C)) opname max fuel op ts,
  NoDup (map fst frs) ->
  get_operation ops opname = Some op ->
  Expand default frs [] ctx0 op ts ->
  forallb costs_ok ts = true ->
  (length frs < fuel)%nat ->
  max <= MaxInt ->
  validate_cost C true fuel default ctx0 ops frs opname false max
  = Done (Z.min (RefCost ts) MaxInt) ((max >=? 0) && (RefCost ts >? max)).
Proof. exact cost_exact. Qed.

(** ** the same for "every validated document", with the hypotheses stated on the document itself:
    [locally_ok]: every field is defined (or is [__typename]), its arguments coerce, every spread
    fragment is defined, cost functions return; [validated rank]: the same inside every fragment
    definition, and fragment spreads do not form cycles (some ranking decreases along every spread).
    Then the cost tree exists, is unique, and (when its costs are non-negative machine integers) the
    reported cost and verdict are those of its reference cost. *)
Theorem C14_cost_exact_validated : forall (C : Type) (default : fcost C) (ctx0 : C)
    (ops : list (option bytes * node C)) (frs : list (bytes * node C)) opname max fuel op rank,
  NoDup (map fst frs) ->
  get_operation ops opname = Some op ->
  validated C frs rank -> locally_ok C frs op ->
  (length frs < fuel)%nat ->
  max <= MaxInt ->
  exists ts,
    Expand default frs [] ctx0 op ts /\
    (forall ts', Expand default frs [] ctx0 op ts' -> ts' = ts) /\
    (forallb costs_ok ts = true ->
     validate_cost C true fuel default ctx0 ops frs opname false max
     = Done (Z.min (RefCost ts) MaxInt) ((max >=? 0) && (RefCost ts >? max))).
Proof. exact cost_exact_validated. Qed.

(** ** cost_accept_iff: accepted <-> no limit or RefCost <= limit *)
Theorem C14_cost_accept_iff : forall (C : Type) (default : fcost C) (ctx0 : C)
    (ops : list (option bytes * node C)) (frs : list (bytes * node C)) opname max fuel op ts,
  NoDup (map fst frs) ->
  get_operation ops opname = Some op ->
  Expand default frs [] ctx0 op ts ->
  forallb costs_ok ts = true ->
  (length frs < fuel)%nat ->
  -1 <= max <= MaxInt ->
  (accepted (validate_cost C true fuel default ctx0 ops frs opname false max) = true
   <-> max = -1 \/ RefCost ts <= max).
Proof. exact cost_accept_iff. Qed.

(** ** a sum too large to represent is reported as MaxInt and rejected under every limit *)
Theorem C14_cost_overflow_rejected : forall (C : Type) (default : fcost C) (ctx0 : C)
    (ops : list (option bytes * node C)) (frs : list (bytes * node C)) opname max fuel op ts,
  NoDup (map fst frs) ->
  get_operation ops opname = Some op ->
  Expand default frs [] ctx0 op ts ->
  forallb costs_ok ts = true ->
  (length frs < fuel)%nat ->
  0 <= max <= MaxInt ->
  MaxInt < RefCost ts ->
  validate_cost C true fuel default ctx0 ops frs opname false max = Done MaxInt true.
Proof. exact cost_overflow_rejected. Qed.

(** ** cost_never_under *)
Theorem C14_cost_never_under : forall (C : Type) (default : fcost C) (ctx0 : C)
    (ops : list (option bytes * node C)) (frs : list (bytes * node C)) opname max fuel op ts,
  NoDup (map fst frs) ->
  get_operation ops opname = Some op ->
  Expand default frs [] ctx0 op ts ->
  forallb costs_ok ts = true ->
  (length frs < fuel)%nat ->
  max <= MaxInt ->
  exists actual cost_error,
    validate_cost C true fuel default ctx0 ops frs opname false max = Done actual cost_error /\
    actual >= Z.min (RefCost ts) MaxInt.
Proof. exact cost_never_under. Qed.

(** ** no operation is chosen (none / several match): nothing would run; cost 0, accepted *)
Theorem C14_cost_no_operation : forall (C : Type) (default : fcost C) (ctx0 : C)
    (ops : list (option bytes * node C)) (frs : list (bytes * node C)) opname max fuel vars_err,
  get_operation ops opname = None ->
  validate_cost C true fuel default ctx0 ops frs opname vars_err max = Done 0 false.
Proof. exact cost_no_operation. Qed.

(** ** the fuel of the model (nesting of fragment expansions) is never exhausted, for ANY document,
    valid or not, as soon as it exceeds the number of fragment definitions (the on-path guard) *)
Theorem C14_never_out_of_fuel : forall (C : Type) (skip_zero : bool) (default : fcost C) (ctx0 : C)
    (ops : list (option bytes * node C)) (frs : list (bytes * node C)) opname vars_err max fuel,
  (length frs < fuel)%nat ->
  validate_cost C skip_zero fuel default ctx0 ops frs opname vars_err max <> ROutOfFuel.
Proof. exact never_out_of_fuel. Qed.

(** ** stage 1: the abstract cost tree itself, as a fragment-free document *)
Theorem C14_cost_exact_fragment_free : forall (C : Type) (default : fcost C) (ctx0 : C) ts max,
  forallb costs_ok ts = true -> max <= MaxInt ->
  validate_cost C true 1 default ctx0 (doc_of C ts) [] [] false max
  = Done (Z.min (RefCost ts) MaxInt) ((max >=? 0) && (RefCost ts >? max)).
Proof. exact cost_exact_fragment_free. Qed.

(** ** the executable expansion run by the oracle on every case yields Spec expansions *)
Theorem C14_expand_sound : forall (C : Type) (default : fcost C) (frs : list (bytes * node C)) fuel n path ctx ts,
  expand default frs fuel path ctx n = Some ts -> Expand default frs path ctx n ts.
Proof. exact expand_sound. Qed.

(** ** connections with their default costs: the number of edges the resolver returns (when it
    returns at all) never exceeds the multiplier the [edges] field is charged with *)
Theorem C14_connection_edges_le_multiplier : forall (U : Type) (first last : argval) (ctx : kctx U) (n k : Z),
  0 <= n ->
  connection_edge_count first last n = Some k ->
  exists ctx' fc,
    fc_ctx (default_connection_cost first last ctx) = Some ctx' /\
    edges_cost ctx' = Some fc /\
    fc_r fc = 0 /\ 0 <= fc_m fc /\
    0 <= k <= eff (fc_m fc).
Proof. exact connection_edges_le_multiplier. Qed.

(** ** the repaired defect (DESIGN section 6, row 18), kept as a witness: before the repair
    [cost_exact] and [cost_accept_iff] were false — a tree whose reference cost is 0 was reported as
    MaxInt and rejected under the limit 0 *)
Theorem C14_cost_exact_refuted_before_fix :
  exists (ts : list etree),
    forallb costs_ok ts = true /\ RefCost ts = 0 /\
    validate_cost unit false 1 {| fc_r := 1; fc_m := 0; fc_ctx := None |} tt (doc_of unit ts) [] [] false 0
    = Done MaxInt true.
Proof. exact cost_exact_refuted_before_fix. Qed.


(** * Round 3 (stage B) *)

(** ** the arguments cost functions see (Cost/CostArgs.v; jointly with C05).

    [afield]: a field selection with the definition's argument definitions, the selection's argument
    literals and the definition's cost function of (cost context, argument map).  [compile_field vv f]
    is what the visitor's [*ast.Field] case makes of it under the coerced variables [vv]:
    [KField (Some h) false] = "the cost function is called, and [h] is that call as a function of the
    context"; [KField _ true] = CoerceArgumentValues failed, a secondary error, nothing is called.
    [coerce_variable_values], [coerce_argument_values], [static_ok], [cost_observation] are C05's
    transcriptions (Val/CoerceModel.v), [ref_request] is C05's reference coercion (Val/CoerceSpec.v),
    [args_conform_b] "conforms to the declared argument types". *)

(** cost functions only ever see spec-coerced arguments (single-field documents, the shape of C05):
    the map the cost function is applied to is RefCoerce of what the client sent, it is the map of
    [C05_cost_args_conform]'s [cost_observation], and it conforms; when the reference coercion fails
    nothing is called. *)
Theorem C14_cost_functions_see_spec_coerced_arguments :
  forall (C : Type) E dt defs raw vv (f : afield C) g,
  CoerceProofs.schema_ok E (af_argdefs f) -> CoerceProofs.request_ok defs raw ->
  CoerceSpec.env_closed E = true ->
  (forall ad, In ad (af_argdefs f) -> CoerceSpec.sty_closed E (Values.in_type (snd ad)) = true) ->
  CoerceModel.static_ok CoerceModel.all_fixed E dt true (af_argdefs f) defs (af_args f) = true ->
  CoerceModel.coerce_variable_values CoerceModel.all_fixed E dt defs raw = Values.Ok vv ->
  af_cost f = Some g ->
  match CoerceSpec.ref_request E dt (af_argdefs f) defs (af_args f) raw with
  | Some m => compile_field C E dt vv f = KField (Some (fun ctx => g ctx m)) false /\
              In m (CoerceModel.cost_observation CoerceModel.all_fixed E dt true (af_argdefs f) defs (af_args f) raw) /\
              CoerceSpec.args_conform_b E (af_argdefs f) m = true
  | None => compile_field C E dt vv f = KField None true
  end.
Proof. exact field_sees_spec_coerced. Qed.

(** any document: one field selection among many, the variables of the whole operation.  Whatever
    a cost function is applied to is the result of C05's [coerce_argument_values] and conforms to
    the declared argument types ([h = panicking]: the coercion code itself panicked, excluded for
    closed schemas by [C05_request_no_panic]). *)
Theorem C14_cost_args_conform : forall (C : Type) E dt defs raw vv (f : afield C) h,
  CoerceProofs.schema_ok E (af_argdefs f) ->
  CoerceModel.has_dup (map Values.vd_name defs) = false -> CoerceProofs.request_ok defs raw ->
  CoerceModel.coerce_variable_values CoerceModel.all_fixed E dt defs raw = Values.Ok vv ->
  field_usage_ok C E defs f = true ->
  compile_field C E dt vv f = KField (Some h) false ->
  h = panicking C \/
  exists g m, af_cost f = Some g /\ h = (fun ctx => g ctx m) /\
              CoerceModel.coerce_argument_values CoerceModel.all_fixed E dt (af_argdefs f) (af_args f) vv = Values.Ok m /\
              CoerceSpec.args_conform_b E (af_argdefs f) m = true.
Proof. exact field_args_conform. Qed.

(** the rule on a request (document with argument literals, raw variable values) is the rule on the
    compiled document: all theorems above apply *)
Theorem C14_request_is_compiled_document : forall (C : Type) E dt skip_zero fuel dc ctx0 ops frs opname raw max vv,
  request_variables C E dt ops opname raw = Values.Ok vv ->
  validate_cost_request C E dt skip_zero fuel dc ctx0 ops frs opname raw max
  = validate_cost C skip_zero fuel dc ctx0 (compiled_ops C E dt vv ops) (compiled_frs C E dt vv frs) opname false max.
Proof. exact request_is_compiled. Qed.

Theorem C14_request_cost_exact : forall (C : Type) E dt dc ctx0 ops frs opname raw max fuel vv op ts,
  request_variables C E dt ops opname raw = Values.Ok vv ->
  NoDup (map fst frs) ->
  get_operation (compiled_ops C E dt vv ops) opname = Some op ->
  Expand dc (compiled_frs C E dt vv frs) [] ctx0 op ts ->
  forallb costs_ok ts = true ->
  (length frs < fuel)%nat ->
  max <= MaxInt ->
  validate_cost_request C E dt true fuel dc ctx0 ops frs opname raw max
  = Done (Z.min (RefCost ts) MaxInt) ((max >=? 0) && (RefCost ts >? max)).
Proof. exact request_cost_exact. Qed.

(** the walked operation is the one whose variable definitions were coerced *)
Theorem C14_chosen_operation : forall (C : Type) E dt vv (ops : list (aop C)) opname,
  get_operation (compiled_ops C E dt vv ops) opname
  = match filter (fun o => op_matches opname (ao_name o)) ops with
    | [o] => Some (compile C E dt vv (ao_body o))
    | _ => None
    end.
Proof. exact chosen_operation. Qed.

(** uncoercible variables: one secondary error, no cost function is called, no cost is reported *)
Theorem C14_request_vars_error : forall (C : Type) E dt skip_zero fuel dc ctx0 ops frs opname raw max defs,
  chosen_vardefs C ops opname = Some defs ->
  CoerceModel.coerce_variable_values CoerceModel.all_fixed E dt defs raw = Values.Err ->
  validate_cost_request C E dt skip_zero fuel dc ctx0 ops frs opname raw max = Secondary [ECoerceVars].
Proof. exact request_vars_error. Qed.

Theorem C14_request_never_out_of_fuel : forall (C : Type) E dt skip_zero fuel dc ctx0 ops frs opname raw max,
  (length frs < fuel)%nat ->
  validate_cost_request C E dt skip_zero fuel dc ctx0 ops frs opname raw max <> ROutOfFuel.
Proof. exact request_never_out_of_fuel. Qed.

(** ** what a fragment spread contributes (Cost/CostFragments.v).  [st_of C c p mrest ctx crest path]:
    the closure's variables when the cost so far is [c], the product of the enclosing multipliers
    [p] (both saturated), [mrest]/[crest] the stacks beneath the top, [path] the fragments being
    expanded.  Walking a fragment body changes the running cost only, by [p * RefCost ts], where the
    forest [ts] is determined by (body, context): *)
Theorem C14_fragment_cost_local : forall (C : Type) (dc : fcost C) frs, NoDup (map fst frs) ->
  forall path ctx body ts,
  Expand dc frs path ctx body ts -> forallb costs_ok ts = true ->
  forall fuel c p mrest crest,
    0 <= c -> 1 <= p ->
    NoDup path -> incl path (map fst frs) -> (length frs < fuel + length path)%nat ->
    visit C true dc frs fuel body (st_of C c p mrest ctx crest path)
    = Ok (st_of C (c + p * RefCost ts) p mrest ctx crest path).
Proof. exact fragment_cost_local. Qed.

Theorem C14_expand_path_irrelevant : forall (C : Type) (dc : fcost C) frs path path' ctx n ts ts',
  Expand dc frs path ctx n ts -> Expand dc frs path' ctx n ts' -> ts = ts'.
Proof. exact expand_path_irrelevant. Qed.

(** two spread sites of one fragment under the same cost context — any cost so far, any stacks, any
    enclosing fragments, any fuel: the increments are p1 * k and p2 * k for the same k *)
Theorem C14_spread_sites_agree : forall (C : Type) (dc : fcost C) frs, NoDup (map fst frs) ->
  forall ctx body path1 path2 ts1 ts2,
  Expand dc frs path1 ctx body ts1 -> Expand dc frs path2 ctx body ts2 ->
  forallb costs_ok ts1 = true ->
  ts1 = ts2 /\
  forall fuel1 fuel2 c1 c2 p1 p2 mrest1 mrest2 crest1 crest2,
    0 <= c1 -> 0 <= c2 -> 1 <= p1 -> 1 <= p2 ->
    NoDup path1 -> incl path1 (map fst frs) -> (length frs < fuel1 + length path1)%nat ->
    NoDup path2 -> incl path2 (map fst frs) -> (length frs < fuel2 + length path2)%nat ->
    visit C true dc frs fuel1 body (st_of C c1 p1 mrest1 ctx crest1 path1)
    = Ok (st_of C (c1 + p1 * RefCost ts1) p1 mrest1 ctx crest1 path1) /\
    visit C true dc frs fuel2 body (st_of C c2 p2 mrest2 ctx crest2 path2)
    = Ok (st_of C (c2 + p2 * RefCost ts1) p2 mrest2 ctx crest2 path2).
Proof. exact spread_sites_agree. Qed.

(** ... and both parameters matter (a cache keyed by the fragment name alone would be wrong):
    [{ a { ...A } b { ...A } }], A = [{ rc }] costing the number in the context, a / b set 5 / 7 *)
Theorem C14_fragment_cost_depends_on_context :
  validate_cost Z true 2 dc1 0
    [(None, Node KOther [set_ctx 5 [Node (KSpread n_A) []]; set_ctx 7 [Node (KSpread n_A) []]])]
    frag_rc [] false (-1)
  = Done 12 false.
Proof. exact fragment_cost_depends_on_context. Qed.

Theorem C14_fragment_cost_depends_on_multiplier :
  validate_cost Z true 2 dc1 5
    [(None, Node KOther [Node (KSpread n_A) []; times 3 [Node (KSpread n_A) []]])]
    frag_rc [] false (-1)
  = Done 20 false.
Proof. exact fragment_cost_depends_on_multiplier. Qed.

(** the oracle's executable expansion finds the expansion whenever there is one (fuel > number of
    fragment definitions): no valid document is skipped by the oracle for lack of fuel *)
Theorem C14_expand_complete : forall (C : Type) (dc : fcost C) frs ctx op ts fuel,
  Expand dc frs [] ctx op ts -> (length frs < fuel)%nat ->
  expand dc frs fuel [] ctx op = Some ts.
Proof. exact expand_complete. Qed.

(** ** edges resolved <= multiplier charged, composed with C09's model of the connection field
    (Relay/RelayModel.v [serve]: the resolver built by Connection(config), completeConnection,
    pagination.EdgesToReturn; [app]: the application's ResolveAllEdges / ResolveEdges /
    ResolveTotalCount, direct or promise).  For EVERY application — whatever list it hands over —
    and every argument combination the resolver accepts (first >= 0 with last absent or null,
    last >= 0 with first absent or null), the page is no longer than the multiplier charged to
    [edges] by the default cost functions; all other combinations are errors without edges
    ([C09_relay_arg_errors]).  TimeBasedConnection is Connection with a ResolveEdges callback;
    ConnectionInterface's [edges] cost is the same function [edges_cost]. *)
Theorem C14_served_page_within_count : forall (Cu Ed : Type) ltb cur encode decode (a : RelayModel.app Cu Ed) ar page pi total,
  RelayModel.serve Cu Ed ltb cur encode decode a ar = RelayModel.RData page pi total ->
  exists n, 0 <= n /\
    ((RelayModel.a_first ar = Some n /\ RelayModel.a_last ar = None) \/
     (RelayModel.a_first ar = None /\ RelayModel.a_last ar = Some n)) /\
    RelayModel.len page <= n.
Proof. exact served_page_within_count. Qed.

Theorem C14_connection_edges_le_multiplier_relay :
  forall (Cu Ed : Type) ltb cur encode decode (U : Type) (a : RelayModel.app Cu Ed) ar
         (first last : argval) (ctx : kctx U) page pi total,
  RelayModel.a_first ar = count_of first -> RelayModel.a_last ar = count_of last ->
  RelayModel.serve Cu Ed ltb cur encode decode a ar = RelayModel.RData page pi total ->
  exists ctx' fc,
    fc_ctx (default_connection_cost first last ctx) = Some ctx' /\
    edges_cost ctx' = Some fc /\
    fc_r fc = 0 /\ 0 <= fc_m fc /\
    RelayModel.len page <= fc_m fc /\ RelayModel.len page <= eff (fc_m fc).
Proof. exact connection_edges_le_multiplier_relay. Qed.

(** the edge-count model the correspondence check compares with accepts exactly C09's combinations *)
Theorem C14_connection_edge_count_accepts : forall first last n,
  (exists k, connection_edge_count first last n = Some k) <->
  RelayModel.check_counts {| RelayModel.a_first := count_of first; RelayModel.a_last := count_of last;
                             RelayModel.a_after := None; RelayModel.a_before := None |} = None.
Proof. exact connection_edge_count_accepts. Qed.


(** * Round 4 *)

(** ** every call made during the walk (Cost/CostTrace.v).  [validate_cost_trace] is the rule on a
    request returning, besides the outcome, the list of calls [def.Cost(FieldCostContext{ctx, args})]
    the walk made, in order ([call] = field selection, cost context, argument map).  The check
    compares this list with the calls the real cost functions received, case by case. *)

(** the traced rule is the rule: its outcome is [validate_cost_request]'s (to which all theorems
    above apply) *)
Theorem C14_trace_is_the_walk : forall (C : Type) E dt skip_zero fuel dc ctx0 ops frs opname raw max,
  fst (validate_cost_trace C E dt skip_zero fuel dc ctx0 ops frs opname raw max)
  = validate_cost_request C E dt skip_zero fuel dc ctx0 ops frs opname raw max.
Proof. exact trace_outcome. Qed.

(** every call, for every document (valid or not), every variables, every cost functions: it is the
    call of a field selection of a node REACHED from the chosen operation ([reached]: its body, the
    definitions of the fragments spread inside reached nodes — not fragments only other operations
    use, whose variables the chosen operation need not declare), on exactly
    the map C05's CoerceArgumentValues returned for that selection under the coerced variables of
    the chosen operation (and the cost function answered) *)
Theorem C14_every_cost_call_is_coerced : forall (C : Type) E dt skip_zero fuel dc ctx0 ops frs opname raw max c,
  In c (snd (validate_cost_trace C E dt skip_zero fuel dc ctx0 ops frs opname raw max)) ->
  exists o vv,
    chosen_op C ops opname = Some o /\
    CoerceModel.coerce_variable_values CoerceModel.all_fixed E dt (ao_vardefs o) raw = Values.Ok vv /\
    (exists m, reached C frs (ao_body o) m /\ field_in C m (c_field c)) /\
    CoerceModel.coerce_argument_values CoerceModel.all_fixed E dt (af_argdefs (c_field c)) (af_args (c_field c)) vv
    = Values.Ok (c_args c) /\
    exists g, af_cost (c_field c) = Some g /\ g (c_ctx c) (c_args c) <> None.
Proof. exact trace_calls_are_coerced. Qed.

(** jointly with C05: if the field selections of the document passed the variable-usage rule
    ([field_usage_ok], C05's [usage_ok]) over a schema whose defaults are values of their types,
    every argument map any cost function is called with during the walk conforms to the declared
    argument types *)
Theorem C14_every_cost_call_conforms : forall (C : Type) E dt skip_zero fuel dc ctx0 ops frs opname raw max o,
  chosen_op C ops opname = Some o ->
  CoerceSpec.env_ok E = true ->
  CoerceModel.has_dup (map Values.vd_name (ao_vardefs o)) = false -> CoerceProofs.request_ok (ao_vardefs o) raw ->
  (forall f, (exists m, reached C frs (ao_body o) m /\ field_in C m f) ->
             CoerceModel.has_dup (map fst (af_argdefs f)) = false /\
             (forall ad, In ad (af_argdefs f) -> CoerceSpec.default_ok E (snd ad) = true) /\
             field_usage_ok C E (ao_vardefs o) f = true) ->
  forall c, In c (snd (validate_cost_trace C E dt skip_zero fuel dc ctx0 ops frs opname raw max)) ->
            CoerceSpec.args_conform_b E (af_argdefs (c_field c)) (c_args c) = true.
Proof. exact trace_calls_conform. Qed.


(** ** reference coercion of every call, for any document (Cost/CostC04.v; jointly with C05's
    refinement lemmas).  Only uniqueness facts are needed: argument names unique per selection
    (5.4.2), input-object field names unique per literal (5.6.3, [lit_nodup]), also in the default
    values of the chosen operation [o].  Then every argument map a cost function is called with
    during the walk is GraphQL's CoerceArgumentValues (6.4.1) of that selection's literals under
    CoerceVariableValues (6.1.2) of the request — C05's reference functions. *)
Theorem C14_every_cost_call_is_reference_coerced :
  forall (C : Type) E dt skip_zero fuel dc ctx0 ops frs opname raw max (o : aop C),
  chosen_op C ops opname = Some o ->
  CoerceSpec.env_ok E = true ->
  (forall p, In p raw -> CoerceSpec.jval_ok (snd p) = true) ->
  (forall def dflt, In def (ao_vardefs o) -> Values.vd_default def = Some dflt -> CoerceSpec.lit_nodup dflt = true) ->
  (forall f, in_request C o frs f ->
             CoerceSpec.dup_names (map fst (af_args f)) = false /\
             forall a l, In (a, l) (af_args f) -> CoerceSpec.lit_nodup l = true) ->
  forall c, In c (snd (validate_cost_trace C E dt skip_zero fuel dc ctx0 ops frs opname raw max)) ->
    exists vv,
      CoerceSpec.ref_variable_values E dt (ao_vardefs o) raw = Some vv /\
      CoerceSpec.ref_argument_values E dt (af_argdefs (c_field c))
        (map (fun p => match p with (k, l) => (k, CoerceSpec.abs_lit vv l) end) (af_args (c_field c))) = Some (c_args c).
Proof. exact trace_calls_reference. Qed.

(** ** behind the validator (C04 x C05 x C14).

    FULL STATEMENT: for every schema, every document [D] accepted by C04's [validate_model repaired]
    and every request for it, every call of a cost function made by the cost walk over [D] sees an
    argument map that conforms to the declared argument types and is the reference coercion of what
    the client sent.

    (Historical, round 4; the full statement is now [C14_accepted_document_cost_calls] at the end of this
    file.)  PROVED HERE: the statement with the correspondence between C04's encoding of the document
    ([D]: AST with positions and TypeInfo annotations, schema [S]) and the encoding the cost rule's
    model walks ([ops], [frs] with C05 literals, input types [E]) as the explicit hypothesis
    [document_bridge] (Cost/CostC04.v): three implications, each from a specification fact C04 PROVES
    of an accepted document — 5.4 ([C04_accepted_arguments_hold]), 5.6
    ([C04_validate_verdict_partial]), the order-free content of validateVariables
    ([C04_variables_rule_iff] through [C04_accepted_iff_rules_silent]) — to the fact about the
    request's field selections that C05's lemmas consume (argument names unique; [lit_nodup];
    [usage_ok]).  The proof derives the three C04 facts from acceptance and then applies
    [C14_every_cost_call_conforms] and [C14_every_cost_call_is_reference_coerced].
    NOT PROVED, the exact gap: [document_bridge] itself, i.e. a translation between the two
    encodings of a document that preserves argument lists, expected types and variable uses — item
    (c) "the document level" of [C05_C04_coercion_bridge_partial]; C04 and C05 only relate single
    literals ([BridgeC04.tr_lit]).  For object-free literals the [lit_nodup] part holds outright
    ([obj_free_lit_nodup]).  The request-side facts (the conclusions of the three implications, and the
    schema-side hypotheses) are evaluated by the check on every case the REAL validator accepted
    ([CostCheck.request_facts], mismatch validated-document-violates-theorem-hypotheses). *)
Theorem C14_cost_calls_given_document_bridge :
  forall (C : Type) E dt pi S F D (ops : list (aop C)) frs opname raw o skip_zero fuel dc ctx0 max,
  ProofsCommon.order_ok pi -> Hyps.schema_ok S = true ->
  ValidatorModel.validate_model ValidatorModel.repaired pi S F D = Ast.Done [] ->
  Hyps.values_typed_input S F D = true ->
  document_bridge C E S F D frs o ->
  chosen_op C ops opname = Some o ->
  CoerceSpec.env_ok E = true ->
  (forall f, in_request C o frs f ->
             CoerceModel.has_dup (map fst (af_argdefs f)) = false /\
             forall ad, In ad (af_argdefs f) -> CoerceSpec.default_ok E (snd ad) = true) ->
  (forall p, In p raw -> CoerceSpec.jval_ok (snd p) = true) ->
  forall c, In c (snd (validate_cost_trace C E dt skip_zero fuel dc ctx0 ops frs opname raw max)) ->
    CoerceSpec.args_conform_b E (af_argdefs (c_field c)) (c_args c) = true /\
    exists vv,
      CoerceSpec.ref_variable_values E dt (ao_vardefs o) raw = Some vv /\
      CoerceSpec.ref_argument_values E dt (af_argdefs (c_field c))
        (map (fun p => match p with (k, l) => (k, CoerceSpec.abs_lit vv l) end) (af_args (c_field c))) = Some (c_args c).
Proof. exact accepted_document_cost_calls. Qed.


(** ** round 5: two of the three implications of [document_bridge] discharged (through C05's
    [C05_C04_accepts_implies_static_ok_partial] and the completed literal bridge
    [C05_C04_coercion_bridge_partial]).  The premises are C04's own per-node checks, RUN on the
    translation of each field selection of the request ([c04_node_silent]: validateArguments' check on
    the node [ValidatorModel.args_node repaired] is silent, validateCoercion [c04_accepts] is silent on
    every argument value at its declared type; [c04_defaults_silent]: the same for variable defaults),
    over an environment C04 can express ([bridgeable]: no DateTime / LongInt; no Float or the leaf
    hypothesis [float_leaves_agree]).  Then every call made during the walk is reference-coerced
    with no further hypothesis on the request, and conforms given what validateVariables establishes.
    STILL NOT PROVED (the remaining gap): (i) [field_usage_ok] from C04 — C04 now gives the errors of
    validateVariables' visitor inside an annotated argument value as the recursion [usage_errs]
    (C04_typeinfo_arguments / _list_items / _object_fields / C04_variable_usages_in_value) and the
    two leaf functions agree (C05_C04_types_compatible, C05_C04_variable_usage), but [usage_errs] on
    the translated value has not been related to C05's [usage_ok] through list items, object fields
    and the scalar mark; (ii) C05's gap (b): that [validate_model = Done []] on the whole document
    yields these per-node premises.  The check evaluates the per-node premises and [field_usage_ok]
    on every case the real validator accepts. *)
Theorem C14_cost_calls_given_c04_node_checks :
  forall (C : Type) E dt (ops : list (aop C)) frs opname raw o skip_zero fuel dc ctx0 max,
  BridgeC04.bridgeable E = true -> (BridgeC04Proofs.no_float E = true \/ BridgeC04Proofs.float_leaves_agree dt) ->
  chosen_op C ops opname = Some o ->
  CoerceSpec.env_ok E = true ->
  (forall f, in_request C o frs f -> c04_node_silent C E f) -> c04_defaults_silent C E o ->
  (forall f, in_request C o frs f ->
             CoerceModel.has_dup (map fst (af_argdefs f)) = false /\
             forall ad, In ad (af_argdefs f) -> CoerceSpec.default_ok E (snd ad) = true) ->
  (forall def dflt, In def (ao_vardefs o) -> Values.vd_default def = Some dflt -> CoerceModel.lit_vars dflt = []) ->
  (forall p, In p raw -> CoerceSpec.jval_ok (snd p) = true) ->
  forall c, In c (snd (validate_cost_trace C E dt skip_zero fuel dc ctx0 ops frs opname raw max)) ->
    (exists vv,
       CoerceSpec.ref_variable_values E dt (ao_vardefs o) raw = Some vv /\
       CoerceSpec.ref_argument_values E dt (af_argdefs (c_field c))
         (map (fun p => match p with (k, l) => (k, CoerceSpec.abs_lit vv l) end) (af_args (c_field c))) = Some (c_args c)) /\
    (CoerceModel.has_dup (map Values.vd_name (ao_vardefs o)) = false ->
     (forall f, in_request C o frs f -> field_usage_ok C E (ao_vardefs o) f = true) ->
     CoerceSpec.args_conform_b E (af_argdefs (c_field c)) (c_args c) = true).
Proof. exact c04_nodes_cost_calls. Qed.


(** ** round 5, continued: the variable-usage rule as well.  C04 gives the errors of
    validateVariables' visitor inside an annotated argument value as the recursion
    [ProofsTypeInfoValues.usage_errs] (C04_variable_usages_in_value).  On the translation of a literal
    at its expected type, jointly with the values rule, its silence is C05's [usage_ok]: *)
Theorem C14_usage_from_c04 : forall E dt defs vars',
  Forall2 vardef_rel defs vars' ->
  (forall d, In d defs -> CoerceModel.type_known E (Values.vd_type d) = true) ->
  forall l t a ld,
  CoerceModel.validate_coercion E dt l t a = true ->
  nil_errs (ProofsTypeInfoValues.usage_errs true (BridgeC04.tr_env E) vars' false
              (Some (BridgeC04.tr_sty t)) ld (BridgeC04.tr_lit l)) = true ->
  CoerceModel.usage_ok CoerceModel.all_fixed E defs l (Some t) ld = true.
Proof. exact usage_from_c04. Qed.

(** ... so all three facts of [document_bridge] are derived from C04's per-node functions run on the
    translation of the request's field selections: [c04_node_silent] (validateArguments' node check,
    validateCoercion on every argument value), [c04_usage_silent] (validateVariables' visitor inside
    every argument value, [vars'] = C04's annotated variable definitions of the chosen operation, e.g.
    [ann_vardefs]), [c04_defaults_silent]; plus what C04's [vardefs_loop] reports otherwise (distinct
    variable names, known types).  Every call made during the walk then sees conforming,
    reference-coerced arguments.
    STILL NOT PROVED — the one remaining gap: C05's gap (b), that [validate_model repaired = Done []]
    on C04's encoding of the WHOLE document yields these per-node premises (NewTypeInfo annotates
    each argument value of the translated document with its declared type — C04_typeinfo_arguments —
    and [inspect] reaches exactly these nodes), and a translation of a whole multi-field request into
    C04's document (C05's [tr_request_doc] is single-field; C04's schema keeps no default VALUES).
    The check evaluates all per-node premises on every case the real validator accepts. *)
Theorem C14_cost_calls_given_c04_node_and_usage_checks :
  forall (C : Type) E dt (ops : list (aop C)) frs opname raw o vars' skip_zero fuel dc ctx0 max,
  BridgeC04.bridgeable E = true -> (BridgeC04Proofs.no_float E = true \/ BridgeC04Proofs.float_leaves_agree dt) ->
  chosen_op C ops opname = Some o ->
  CoerceSpec.env_ok E = true ->
  (forall f, in_request C o frs f -> c04_node_silent C E f /\ c04_usage_silent C E vars' f) ->
  c04_defaults_silent C E o ->
  Forall2 vardef_rel (ao_vardefs o) vars' ->
  CoerceModel.has_dup (map Values.vd_name (ao_vardefs o)) = false ->
  (forall d, In d (ao_vardefs o) -> CoerceModel.type_known E (Values.vd_type d) = true) ->
  (forall f, in_request C o frs f ->
             CoerceModel.has_dup (map fst (af_argdefs f)) = false /\
             forall ad, In ad (af_argdefs f) -> CoerceSpec.default_ok E (snd ad) = true) ->
  (forall def dflt, In def (ao_vardefs o) -> Values.vd_default def = Some dflt -> CoerceModel.lit_vars dflt = []) ->
  (forall p, In p raw -> CoerceSpec.jval_ok (snd p) = true) ->
  forall c, In c (snd (validate_cost_trace C E dt skip_zero fuel dc ctx0 ops frs opname raw max)) ->
    CoerceSpec.args_conform_b E (af_argdefs (c_field c)) (c_args c) = true /\
    exists vv,
      CoerceSpec.ref_variable_values E dt (ao_vardefs o) raw = Some vv /\
      CoerceSpec.ref_argument_values E dt (af_argdefs (c_field c))
        (map (fun p => match p with (k, l) => (k, CoerceSpec.abs_lit vv l) end) (af_args (c_field c))) = Some (c_args c).
Proof. exact c04_nodes_cost_calls_all. Qed.


(** * Round 6: behind C04's WHOLE ValidateDocument model, with C05's complete bridge
    (C05_C04_accepts_implies_static_ok_r: every environment, DateTime / LongInt included, no leaf
    hypothesis).

    [projection_accepted C E dt defs f]: C04's ValidateDocument model ([validate_model_memo repaired]:
    NewTypeInfo, the eight rule groups, the primary / secondary filter) accepts the single-field
    PROJECTION of the request at the field selection [f] — the operation that declares exactly the
    variables the argument literals of [f] mention and selects [f] alone (C05's [tr_request_doc] over
    [tr_request_schema_r]).  If every projection of a multi-field request is accepted (and
    validateCoercion accepts every variable default, variable names are distinct — what
    [vardefs_loop] reports otherwise), every call a cost function receives during the walk of the
    WHOLE request — fields at any depth, through fragments, under any multiplier — sees conforming,
    reference-coerced arguments.  No hypothesis about C04's internals, about leaves or about the
    environment beyond closedness is left.
    STILL NOT PROVED — the one remaining gap, now a statement about C04's model alone (LOCALITY):
    [validate_model repaired pi S F D = Done []] on the whole multi-field document implies that each
    single-field projection is accepted (validateArguments / validateValues / validateVariables
    judge a field selection's arguments by that selection, its definition and the variable
    definitions alone), together with the translation of a multi-field document over the real
    schema into these projections.  C05's membership argument ([args_rule_node], [vals_args],
    [body_flat] in Val/BridgeC04Full.v) computes NewTypeInfo on ONE fixed document shape; doing it for
    a recursive document is C04-side work of the size of that file.  The check evaluates
    [projection_accepted] on the field selections of validated cases. *)
Theorem C14_usage_ok_only_mentioned_variables : forall E defs (p : Values.vardef -> bool) l e ld,
  (forall n, In n (CoerceModel.lit_vars l) -> forall d, bytes_eqb n (Values.vd_name d) = true -> p d = true) ->
  CoerceModel.usage_ok CoerceModel.all_fixed E (filter p defs) l e ld = CoerceModel.usage_ok CoerceModel.all_fixed E defs l e ld.
Proof. exact usage_ok_filter. Qed.

Theorem C14_cost_calls_given_accepted_projections :
  forall (C : Type) E dt (ops : list (aop C)) frs opname raw o skip_zero fuel dc ctx0 max,
  Values.ahas BridgeC04.n_Query E = false -> Values.ahas BridgeC04.n_Res E = false ->
  CoerceSpec.env_closed E = true -> CoerceSpec.env_ok E = true ->
  chosen_op C ops opname = Some o ->
  (forall f, in_request C o frs f -> projection_accepted C E dt (ao_vardefs o) f = true) ->
  (forall def dflt, In def (ao_vardefs o) -> Values.vd_default def = Some dflt ->
                    CoerceSpec.sty_closed E (Values.vd_type def) = true /\
                    BridgeC04.c04_accepts_r dt E dflt (Values.vd_type def) true = true) ->
  CoerceModel.has_dup (map Values.vd_name (ao_vardefs o)) = false ->
  (forall def, In def (ao_vardefs o) -> BridgeC04Full.leaf_name (Values.vd_type def) <> BridgeC04.n_Res) ->
  (forall f, in_request C o frs f ->
             (forall ad, In ad (af_argdefs f) -> CoerceSpec.sty_closed E (Values.in_type (snd ad)) = true) /\
             CoerceModel.has_dup (map fst (af_argdefs f)) = false /\
             forall ad, In ad (af_argdefs f) -> CoerceSpec.default_ok E (snd ad) = true) ->
  (forall def dflt, In def (ao_vardefs o) -> Values.vd_default def = Some dflt -> CoerceModel.lit_vars dflt = []) ->
  (forall p, In p raw -> CoerceSpec.jval_ok (snd p) = true) ->
  forall c, In c (snd (validate_cost_trace C E dt skip_zero fuel dc ctx0 ops frs opname raw max)) ->
    CoerceSpec.args_conform_b E (af_argdefs (c_field c)) (c_args c) = true /\
    exists vv,
      CoerceSpec.ref_variable_values E dt (ao_vardefs o) raw = Some vv /\
      CoerceSpec.ref_argument_values E dt (af_argdefs (c_field c))
        (map (fun p => match p with (k, l) => (k, CoerceSpec.abs_lit vv l) end) (af_args (c_field c))) = Some (c_args c).
Proof. exact projections_cost_calls. Qed.


(** ** round 6, the whole-document step on the REAL document (Cost/CostRealDoc.v).  C03's composition
    (Pipe/CostCompose.v) derives the request the cost rule walks from C04's annotated document:
    [c_ops ES A], [c_frs ES A] with [A = pti_doc qo VS F D] — the real schema [VS] (C04's encoding)
    and [ES] (the executor-side encoding that has the argument definitions with their default
    values), fields at any depth, inline fragments, named fragments.

    For a document ACCEPTED by C04's [validate_model repaired]:
    - every field selection of that request names each argument once (validateArguments is a flat map
      over the nodes of the document, [InspectProofs.visit_nil_iff]; every field selection of the
      request is a node of the document) — the first implication of [document_bridge], proved;
    - every argument literal and every variable default of that request names each input-object
      field once at every depth ([lit_nodup]): validateValues is a flat map over the values of the
      document ([rule_values_eq]), every literal of the request is one of them, and a silent
      validateCoercion has visited every nested object ([C14_coercion_silent_fields_named_once]; the
      schema's scalars must not swallow list / object literals, [scalars_are_leaves], decidable by
      [scalars_leavesb]) — the second implication, proved;
    - hence every call a cost function receives during the walk is REFERENCE-COERCED — no bridge
      hypothesis, no translation back into C04, any number of fields.
    STILL NOT PROVED for the real document: the third implication (the variable-usage rule, needed
    for type conformance of the argument maps): C04's [usage_errs] on the document's own values
    against C05's [usage_ok] on [l_of_vld v] at the argument types of [ES] — it needs the agreement of
    the two schema encodings ([Pipe.SchemaAgree.schemas_agree]) threaded through expected types and
    default flags.  For the translation of the request back into C04 it is proved
    ([C14_usage_from_c04]), and on projections the whole statement holds
    ([C14_cost_calls_given_accepted_projections]). *)
Theorem C14_accepted_document_argument_names_unique : forall pi VS F ES D,
  ProofsCommon.order_ok pi ->
  ValidatorModel.validate_model ValidatorModel.repaired pi VS F D = Ast.Done [] ->
  let Adoc := TypeInfoPure.pti_doc (ValidatorModel.q_unwrap_obj ValidatorModel.repaired) VS F D in
  forall f,
    (exists o, In o (CostCompose.c_ops ES Adoc) /\ field_in unit (ao_body o) f) \/
    (exists p, In p (CostCompose.c_frs ES Adoc) /\ field_in unit (snd p) f) ->
    CoerceSpec.dup_names (map fst (af_args f)) = false.
Proof. exact CostRealDoc.accepted_document_argument_names_unique. Qed.

Theorem C14_coercion_silent_fields_named_once : forall pi S, CostRealDoc.scalars_are_leaves S ->
  forall v t a,
  ValidatorModel.coercion ValidatorModel.repaired pi S v t a = ValidatorModel.VR [] ->
  CoerceSpec.lit_nodup (CostCompose.l_of_vld v) = true.
Proof. exact CostRealDoc.coercion_nil_nodup. Qed.

Theorem C14_accepted_document_calls_reference_coerced :
  forall pi VS F ES D opname raw o skip_zero fuel dc ctx0 max,
  ProofsCommon.order_ok pi ->
  CostRealDoc.scalars_are_leaves VS ->
  ValidatorModel.validate_model ValidatorModel.repaired pi VS F D = Ast.Done [] ->
  let Adoc := TypeInfoPure.pti_doc (ValidatorModel.q_unwrap_obj ValidatorModel.repaired) VS F D in
  let E := ArgData.s_inputs ES in
  let dt := ArgArgs.dt_oracle ES in
  CoerceSpec.env_ok E = true ->
  (forall p, In p raw -> CoerceSpec.jval_ok (snd p) = true) ->
  chosen_op unit (CostCompose.c_ops ES Adoc) opname = Some o ->
  forall c, In c (snd (validate_cost_trace unit E dt skip_zero fuel dc ctx0
                         (CostCompose.c_ops ES Adoc) (CostCompose.c_frs ES Adoc) opname raw max)) ->
    exists vv,
      CoerceSpec.ref_variable_values E dt (ao_vardefs o) raw = Some vv /\
      CoerceSpec.ref_argument_values E dt (af_argdefs (c_field c))
        (map (fun p => match p with (k, l) => (k, CoerceSpec.abs_lit vv l) end) (af_args (c_field c)))
      = Some (c_args c).
Proof. exact CostRealDoc.accepted_document_calls_reference_coerced. Qed.

Theorem C14_scalars_are_leaves_decidable : forall S,
  CostRealDoc.scalars_leavesb S = true -> CostRealDoc.scalars_are_leaves S.
Proof. exact CostRealDoc.scalars_leavesb_spec. Qed.


(** * Round 7: TYPE CONFORMANCE of every cost call on the real document — the last implication.

    [inputs_agree VS F ES] (Cost/CostConformDoc.v) says what "one schema in two encodings" means for the
    arguments of the cost rule: no scalar of the validator's schema [VS] swallows list / object
    literals; its input-object types are those of the executor-side environment [s_inputs ES], field
    by field (names, translated types, default flags); every input type of [VS] is known there; the
    arguments of every field have the same names, translated types and the same "has a default" on
    both sides; the executor-side argument definitions are named once and their defaults are values
    of their types.  ([Pipe.SchemaAgree.schemas_agree] compares argument names and types but neither
    default flags nor the fields of input objects, so these are stated here.)

    Then, for every document ACCEPTED by C04's [validate_model repaired] — any number of fields at any
    depth, inline and named fragments, several operations — and the request C03's composition derives
    from the annotated document: every argument map a cost function is called with during the walk
    CONFORMS to the declared argument types.  Together with
    [C14_accepted_document_calls_reference_coerced]: on real documents behind the validator, cost
    functions only ever see conforming, reference-coerced arguments.  No [document_bridge], no
    projection, no per-node premise is left.

    How: every field selection reached by the walk sits at a known site of the annotated document
    ([sites]: its field definition is TypeInfo's, its arguments are [ti_args] of the raw ones, their
    values are values of the enclosing definition, the nodes of those values are nodes validateVariables
    visits); the walk's reachability is validateVariables' ([reached_is_reached]); C04's
    [vars_fine] makes [usage_errs] empty inside every such value (C04_variable_usages_in_value);
    validateValues makes [coercion] silent on it; [C14_usage_real] turns the two into C05's
    [usage_ok (l_of_vld v)] at the executor-side argument type; [vardefs_loop] gives distinct, typed
    variable definitions. *)
Theorem C14_usage_real : forall pi S E,
  CostRealDoc.scalars_are_leaves S ->
  (forall n defs, Ast.raw_body S n = Some (Ast.TInput defs) ->
     exists fields h, Values.aget n E = Some (Values.TInput fields h) /\
                      defs = map (fun f : Values.name * Values.in_def => (fst f, BridgeC04.tr_indef (snd f))) fields) ->
  forall defs vars',
  Forall2 CostConformU.vrel defs vars' ->
  (forall d, In d defs -> CoerceModel.type_known E (Values.vd_type d) = true) ->
  forall v t al ld,
  ValidatorModel.coercion ValidatorModel.repaired pi S v (BridgeC04.tr_sty t) al = ValidatorModel.VR [] ->
  nil_errs (ProofsTypeInfoValues.usage_errs true S vars' false (Some (BridgeC04.tr_sty t)) ld v) = true ->
  CoerceModel.usage_ok CoerceModel.all_fixed E defs (CostCompose.l_of_vld v) (Some t) ld = true.
Proof. exact CostConformU.usage_real. Qed.

Theorem C14_accepted_document_calls_conform :
  forall pi VS F ES D opname raw o skip_zero fuel dc ctx0 max,
  ProofsCommon.order_ok pi ->
  CostConformDoc.inputs_agree VS F ES ->
  ValidatorModel.validate_model ValidatorModel.repaired pi VS F D = Ast.Done [] ->
  let Adoc := TypeInfoPure.pti_doc (ValidatorModel.q_unwrap_obj ValidatorModel.repaired) VS F D in
  let E := ArgData.s_inputs ES in
  let dt := ArgArgs.dt_oracle ES in
  CoerceSpec.env_ok E = true ->
  (forall p, In p raw -> CoerceSpec.jval_ok (snd p) = true) ->
  chosen_op unit (CostCompose.c_ops ES Adoc) opname = Some o ->
  (forall def dflt, In def (ao_vardefs o) -> Values.vd_default def = Some dflt -> CoerceModel.lit_vars dflt = []) ->
  forall c, In c (snd (validate_cost_trace unit E dt skip_zero fuel dc ctx0
                         (CostCompose.c_ops ES Adoc) (CostCompose.c_frs ES Adoc) opname raw max)) ->
    CoerceSpec.args_conform_b E (af_argdefs (c_field c)) (c_args c) = true.
Proof. exact CostConformDoc.accepted_document_calls_conform. Qed.


(** * Final round: the FULL statement, and the status of the four statements that were [_partial].

    FULL STATEMENT (as written since round 4): for every schema, every document accepted by C04's
    [validate_model repaired] and every request for it, every call of a cost function made by the cost
    walk sees an argument map that conforms to the declared argument types AND is the reference
    coercion of what the client sent.  It is now PROVED: [C14_accepted_document_cost_calls], on the
    real document through C03's composition, under [inputs_agree] (the two encodings describe one
    schema as far as inputs go), constant variable defaults (the parser) and well-formed Go variable
    values.  With C04's verdict theorem (C04_validate_verdict, proved in full) it also holds for every
    document that is VALID in the sense of chapter 5 of the GraphQL specification
    ([C14_valid_document_cost_calls]).

    The four earlier statements carried [_partial] because this full statement was open; they were
    never partial PROOFS, they are fully proved conditional statements whose premises are other ways
    of saying "the validator is content with this request" (a bridge hypothesis; C04's per-node
    functions on the translated request; the same with validateVariables' visitor; C04's whole model
    on single-field projections).  They are kept under names that say what they are
    ([C14_cost_calls_given_document_bridge], [..._given_c04_node_checks],
    [..._given_c04_node_and_usage_checks], [..._given_accepted_projections]); the check evaluates
    their premises on every validated case, which ties the request-side encoding (the one this
    property's harness produces) to C04's model. *)
Theorem C14_accepted_document_cost_calls :
  forall pi VS F ES D opname raw o skip_zero fuel dc ctx0 max,
  ProofsCommon.order_ok pi ->
  CostConformDoc.inputs_agree VS F ES ->
  ValidatorModel.validate_model ValidatorModel.repaired pi VS F D = Ast.Done [] ->
  let Adoc := TypeInfoPure.pti_doc (ValidatorModel.q_unwrap_obj ValidatorModel.repaired) VS F D in
  let E := ArgData.s_inputs ES in
  let dt := ArgArgs.dt_oracle ES in
  CoerceSpec.env_ok E = true ->
  (forall p, In p raw -> CoerceSpec.jval_ok (snd p) = true) ->
  chosen_op unit (CostCompose.c_ops ES Adoc) opname = Some o ->
  (forall def dflt, In def (ao_vardefs o) -> Values.vd_default def = Some dflt -> CoerceModel.lit_vars dflt = []) ->
  forall c, In c (snd (validate_cost_trace unit E dt skip_zero fuel dc ctx0
                         (CostCompose.c_ops ES Adoc) (CostCompose.c_frs ES Adoc) opname raw max)) ->
    CoerceSpec.args_conform_b E (af_argdefs (c_field c)) (c_args c) = true /\
    exists vv,
      CoerceSpec.ref_variable_values E dt (ao_vardefs o) raw = Some vv /\
      CoerceSpec.ref_argument_values E dt (af_argdefs (c_field c))
        (map (fun p => match p with (k, l) => (k, CoerceSpec.abs_lit vv l) end) (af_args (c_field c))) = Some (c_args c).
Proof. exact CostConformDoc.accepted_document_cost_calls. Qed.

Theorem C14_valid_document_cost_calls :
  forall pi VS F ES D opname raw o skip_zero fuel dc ctx0 max,
  ProofsCommon.order_ok pi ->
  Hyps.schema_ok VS = true -> Hyps.schema_args_ok VS = true -> Hyps.schema_impls_ok VS = true ->
  Hyps.schema_defaults_ok VS = true -> Hyps.schema_types_wf VS = true ->
  ProofsSubscription.doc_set_positions_distinct D -> MemoEquiv.doc_field_positions_distinct D ->
  ValidSpec.Valid VS F D ->
  CostConformDoc.inputs_agree VS F ES ->
  let Adoc := TypeInfoPure.pti_doc (ValidatorModel.q_unwrap_obj ValidatorModel.repaired) VS F D in
  let E := ArgData.s_inputs ES in
  let dt := ArgArgs.dt_oracle ES in
  CoerceSpec.env_ok E = true ->
  (forall p, In p raw -> CoerceSpec.jval_ok (snd p) = true) ->
  chosen_op unit (CostCompose.c_ops ES Adoc) opname = Some o ->
  (forall def dflt, In def (ao_vardefs o) -> Values.vd_default def = Some dflt -> CoerceModel.lit_vars dflt = []) ->
  forall c, In c (snd (validate_cost_trace unit E dt skip_zero fuel dc ctx0
                         (CostCompose.c_ops ES Adoc) (CostCompose.c_frs ES Adoc) opname raw max)) ->
    CoerceSpec.args_conform_b E (af_argdefs (c_field c)) (c_args c) = true /\
    exists vv,
      CoerceSpec.ref_variable_values E dt (ao_vardefs o) raw = Some vv /\
      CoerceSpec.ref_argument_values E dt (af_argdefs (c_field c))
        (map (fun p => match p with (k, l) => (k, CoerceSpec.abs_lit vv l) end) (af_args (c_field c))) = Some (c_args c).
Proof. exact CostConformDoc.valid_document_cost_calls. Qed.

Print Assumptions C14_checked_mul_spec.
Print Assumptions C14_checked_add_spec.
Print Assumptions C14_select_op_spec.
Print Assumptions C14_RefCost_horner.
Print Assumptions C14_cost_exact.
Print Assumptions C14_cost_exact_validated.
Print Assumptions C14_cost_accept_iff.
Print Assumptions C14_cost_overflow_rejected.
Print Assumptions C14_cost_never_under.
Print Assumptions C14_cost_no_operation.
Print Assumptions C14_never_out_of_fuel.
Print Assumptions C14_cost_exact_fragment_free.
Print Assumptions C14_expand_sound.
Print Assumptions C14_connection_edges_le_multiplier.
Print Assumptions C14_cost_exact_refuted_before_fix.
Print Assumptions C14_cost_functions_see_spec_coerced_arguments.
Print Assumptions C14_cost_args_conform.
Print Assumptions C14_request_is_compiled_document.
Print Assumptions C14_request_cost_exact.
Print Assumptions C14_chosen_operation.
Print Assumptions C14_request_vars_error.
Print Assumptions C14_request_never_out_of_fuel.
Print Assumptions C14_fragment_cost_local.
Print Assumptions C14_expand_path_irrelevant.
Print Assumptions C14_spread_sites_agree.
Print Assumptions C14_fragment_cost_depends_on_context.
Print Assumptions C14_fragment_cost_depends_on_multiplier.
Print Assumptions C14_expand_complete.
Print Assumptions C14_served_page_within_count.
Print Assumptions C14_connection_edges_le_multiplier_relay.
Print Assumptions C14_connection_edge_count_accepts.
Print Assumptions C14_trace_is_the_walk.
Print Assumptions C14_every_cost_call_is_coerced.
Print Assumptions C14_every_cost_call_conforms.
Print Assumptions C14_every_cost_call_is_reference_coerced.
Print Assumptions C14_cost_calls_given_document_bridge.
Print Assumptions C14_cost_calls_given_c04_node_checks.
Print Assumptions C14_usage_from_c04.
Print Assumptions C14_cost_calls_given_c04_node_and_usage_checks.
Print Assumptions C14_usage_ok_only_mentioned_variables.
Print Assumptions C14_cost_calls_given_accepted_projections.
Print Assumptions C14_accepted_document_argument_names_unique.
Print Assumptions C14_coercion_silent_fields_named_once.
Print Assumptions C14_accepted_document_calls_reference_coerced.
Print Assumptions C14_scalars_are_leaves_decidable.
Print Assumptions C14_usage_real.
Print Assumptions C14_accepted_document_calls_conform.
Print Assumptions C14_accepted_document_cost_calls.
Print Assumptions C14_valid_document_cost_calls.
