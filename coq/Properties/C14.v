(** * C14 — operation cost is exact, never undercounts and saturates instead of wrapping.

    This file contains only statements closed by [exact] and their [Print Assumptions].

    Reading guide.  [validate_cost C skip_zero fuel default ctx0 ops frs opname vars_err max]
    (Cost/CostModel.v) is the transcription of [validator.ValidateCost] on a document whose operations
    are [ops] and whose named fragments are [frs]; [skip_zero = true] is the current code, [false] the
    code before the repair of defect 18.  Go [int] is [Z] with an explicit 64-bit wrap after every
    operation.  [C] is the type of cost contexts (opaque).  A field node carries its cost function
    [C -> option fcost] (or nothing: the configured default applies).
    [Expand default frs [] ctx0 op ts] (Cost/CostSpec.v) says that [ts] is the fragment-expanded
    selection tree of operation [op], every field selection carrying the resolver cost and multiplier
    its cost function returned under the context handed down by its ancestors; a derivation exists
    exactly for the documents whose expansion is finite and defined ("validated documents").
    [RefCost ts] is the sum over all field selections of resolver cost x product of the ancestors'
    multipliers, in unbounded [Z].  [costs_ok]: all r, m are in [0, MaxInt]. *)
From Coq Require Import List ZArith Bool.
From ApiFu Require Import Base.Sexp Cost.CostModel Cost.CostSpec Cost.CostProofs.
Import ListNotations.
Open Scope Z_scope.

(** ** the two checked operations, exactly (including operands 0, 1 and the marker -1) *)
Theorem C14_checked_mul_spec : forall a b, in_int a -> in_int b ->
  checked_mul a b = if (a <? 0) || (b <? 0) then -1 else if a * b <=? MaxInt then a * b else -1.
Proof. exact checked_mul_spec. Qed.

Theorem C14_checked_add_spec : forall a b, in_int a -> in_int b ->
  checked_add a b = if (a <? 0) || (b <? 0) then -1 else if a + b <=? MaxInt then a + b else -1.
Proof. exact checked_add_spec. Qed.

(** ** the operation-choice loop is GraphQL's GetOperation *)
Theorem C14_select_op_spec : forall (C : Type) (ops : list (option bytes * node C)) opname,
  select_op C ops opname None = get_operation ops opname.
Proof. exact select_op_spec. Qed.

(** ** the reference sum of products can be evaluated top-down (distributivity) *)
Theorem C14_RefCost_horner : forall ts, RefCost ts = sum (map horner ts).
Proof. exact RefCost_horner. Qed.

(** ** cost_exact (stage 2: named fragments spread at any depth, cost contexts, default cost):
    the reported cost is min(RefCost, MaxInt) and the cost error is raised exactly when a limit is
    given and RefCost exceeds it — for every document, every cost functions, every limit. *)
Theorem C14_cost_exact : forall (C : Type) (default : fcost C) (ctx0 : C)
    (ops : list (option bytes * node C)) (frs : list (bytes * node C)) opname max fuel op ts,
  NoDup (map fst frs) ->
  get_operation ops opname = Some op ->
  Expand default frs [] ctx0 op ts ->
  forallb costs_ok ts = true ->
  (length frs < fuel)%nat ->
  max <= MaxInt ->
  validate_cost C true fuel default ctx0 ops frs opname false max
  = Done (Z.min (RefCost ts) MaxInt) ((max >=? 0) && (RefCost ts >? max)).
Proof. exact cost_exact. Qed.

(** ** the same for "every validated document", with the hypotheses stated on the document itself:
    [locally_ok]: every field is defined (or is [__typename]), its arguments coerce, every spread
    fragment is defined, cost functions return; [validated rank]: the same inside every fragment
    definition, and fragment spreads do not form cycles (some ranking decreases along every spread).
    Then the cost tree exists, is unique, and (when its costs are non-negative machine integers) the
    reported cost and verdict are those of its reference cost. *)
Theorem C14_cost_exact_validated : forall (C : Type) (default : fcost C) (ctx0 : C)
    (ops : list (option bytes * node C)) (frs : list (bytes * node C)) opname max fuel op rank,
  NoDup (map fst frs) ->
  get_operation ops opname = Some op ->
  validated C frs rank -> locally_ok C frs op ->
  (length frs < fuel)%nat ->
  max <= MaxInt ->
  exists ts,
    Expand default frs [] ctx0 op ts /\
    (forall ts', Expand default frs [] ctx0 op ts' -> ts' = ts) /\
    (forallb costs_ok ts = true ->
     validate_cost C true fuel default ctx0 ops frs opname false max
     = Done (Z.min (RefCost ts) MaxInt) ((max >=? 0) && (RefCost ts >? max))).
Proof. exact cost_exact_validated. Qed.

(** ** cost_accept_iff: accepted <-> no limit or RefCost <= limit *)
Theorem C14_cost_accept_iff : forall (C : Type) (default : fcost C) (ctx0 : C)
    (ops : list (option bytes * node C)) (frs : list (bytes * node C)) opname max fuel op ts,
  NoDup (map fst frs) ->
  get_operation ops opname = Some op ->
  Expand default frs [] ctx0 op ts ->
  forallb costs_ok ts = true ->
  (length frs < fuel)%nat ->
  -1 <= max <= MaxInt ->
  (accepted (validate_cost C true fuel default ctx0 ops frs opname false max) = true
   <-> max = -1 \/ RefCost ts <= max).
Proof. exact cost_accept_iff. Qed.

(** ** a sum too large to represent is reported as MaxInt and rejected under every limit *)
Theorem C14_cost_overflow_rejected : forall (C : Type) (default : fcost C) (ctx0 : C)
    (ops : list (option bytes * node C)) (frs : list (bytes * node C)) opname max fuel op ts,
  NoDup (map fst frs) ->
  get_operation ops opname = Some op ->
  Expand default frs [] ctx0 op ts ->
  forallb costs_ok ts = true ->
  (length frs < fuel)%nat ->
  0 <= max <= MaxInt ->
  MaxInt < RefCost ts ->
  validate_cost C true fuel default ctx0 ops frs opname false max = Done MaxInt true.
Proof. exact cost_overflow_rejected. Qed.

(** ** cost_never_under *)
Theorem C14_cost_never_under : forall (C : Type) (default : fcost C) (ctx0 : C)
    (ops : list (option bytes * node C)) (frs : list (bytes * node C)) opname max fuel op ts,
  NoDup (map fst frs) ->
  get_operation ops opname = Some op ->
  Expand default frs [] ctx0 op ts ->
  forallb costs_ok ts = true ->
  (length frs < fuel)%nat ->
  max <= MaxInt ->
  exists actual cost_error,
    validate_cost C true fuel default ctx0 ops frs opname false max = Done actual cost_error /\
    actual >= Z.min (RefCost ts) MaxInt.
Proof. exact cost_never_under. Qed.

(** ** no operation is chosen (none / several match): nothing would run; cost 0, accepted *)
Theorem C14_cost_no_operation : forall (C : Type) (default : fcost C) (ctx0 : C)
    (ops : list (option bytes * node C)) (frs : list (bytes * node C)) opname max fuel vars_err,
  get_operation ops opname = None ->
  validate_cost C true fuel default ctx0 ops frs opname vars_err max = Done 0 false.
Proof. exact cost_no_operation. Qed.

(** ** the fuel of the model (nesting of fragment expansions) is never exhausted, for ANY document,
    valid or not, as soon as it exceeds the number of fragment definitions (the on-path guard) *)
Theorem C14_never_out_of_fuel : forall (C : Type) (skip_zero : bool) (default : fcost C) (ctx0 : C)
    (ops : list (option bytes * node C)) (frs : list (bytes * node C)) opname vars_err max fuel,
  (length frs < fuel)%nat ->
  validate_cost C skip_zero fuel default ctx0 ops frs opname vars_err max <> ROutOfFuel.
Proof. exact never_out_of_fuel. Qed.

(** ** stage 1: the abstract cost tree itself, as a fragment-free document *)
Theorem C14_cost_exact_fragment_free : forall (C : Type) (default : fcost C) (ctx0 : C) ts max,
  forallb costs_ok ts = true -> max <= MaxInt ->
  validate_cost C true 1 default ctx0 (doc_of C ts) [] [] false max
  = Done (Z.min (RefCost ts) MaxInt) ((max >=? 0) && (RefCost ts >? max)).
Proof. exact cost_exact_fragment_free. Qed.

(** ** the executable expansion run by the oracle on every case yields Spec expansions *)
Theorem C14_expand_sound : forall (C : Type) (default : fcost C) (frs : list (bytes * node C)) fuel n path ctx ts,
  expand default frs fuel path ctx n = Some ts -> Expand default frs path ctx n ts.
Proof. exact expand_sound. Qed.

(** ** connections with their default costs: the number of edges the resolver returns (when it
    returns at all) never exceeds the multiplier the [edges] field is charged with *)
Theorem C14_connection_edges_le_multiplier : forall (U : Type) (first last : argval) (ctx : kctx U) (n k : Z),
  0 <= n ->
  connection_edge_count first last n = Some k ->
  exists ctx' fc,
    fc_ctx (default_connection_cost first last ctx) = Some ctx' /\
    edges_cost ctx' = Some fc /\
    fc_r fc = 0 /\ 0 <= fc_m fc /\
    0 <= k <= eff (fc_m fc).
Proof. exact connection_edges_le_multiplier. Qed.

(** ** the repaired defect (DESIGN section 6, row 18), kept as a witness: before the repair
    [cost_exact] and [cost_accept_iff] were false — a tree whose reference cost is 0 was reported as
    MaxInt and rejected under the limit 0 *)
Theorem C14_cost_exact_refuted_before_fix :
  exists (ts : list etree),
    forallb costs_ok ts = true /\ RefCost ts = 0 /\
    validate_cost unit false 1 {| fc_r := 1; fc_m := 0; fc_ctx := None |} tt (doc_of unit ts) [] [] false 0
    = Done MaxInt true.
Proof. exact cost_exact_refuted_before_fix. Qed.

Print Assumptions C14_checked_mul_spec.
Print Assumptions C14_checked_add_spec.
Print Assumptions C14_select_op_spec.
Print Assumptions C14_RefCost_horner.
Print Assumptions C14_cost_exact.
Print Assumptions C14_cost_exact_validated.
Print Assumptions C14_cost_accept_iff.
Print Assumptions C14_cost_overflow_rejected.
Print Assumptions C14_cost_never_under.
Print Assumptions C14_cost_no_operation.
Print Assumptions C14_never_out_of_fuel.
Print Assumptions C14_cost_exact_fragment_free.
Print Assumptions C14_expand_sound.
Print Assumptions C14_connection_edges_le_multiplier.
Print Assumptions C14_cost_exact_refuted_before_fix.
