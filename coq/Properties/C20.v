(** * C20 — gql-client-gen output compiles and decodes the server's real responses.
    This file contains only statements closed by [exact] and their [Print Assumptions].

    Full statement (properties.jsonl): for every schema built from built-in scalars, enums,
    objects, interfaces and unions, and every valid named operation or fragment whose response
    keys begin with a letter and are distinct ignoring letter case, and which selects __typename
    wherever it applies fragments to an interface or union, the generator emits Go source that
    compiles, and decoding the server's actual JSON response for that operation into the generated
    type succeeds with every selected leaf holding the value the server sent.  Operations that fail
    validation are reported as errors and produce no output.

    What is proved here, about the Gallina transcription [generate] of cmd/gql-client-gen/main.go
    (repaired tree), the model [load_schema] of how LoadSchema rebuilds field types from the
    introspection JSON ([generate_cli] = LoadSchema, then Generate) and the model [decode_op] of the
    encoding/json behaviour the output relies on:
    - [schema_loadable S]: no field type has more than seven list / non-null wrappers (the depth of
      the introspection query's TypeRef fragment) - a third known finding: with an eighth wrapper
      LoadSchema fails ([C20_refuted_type_ref_depth]); up to seven, every wrapper chain is rebuilt
      exactly, whatever the order of its wrappers ([C20_load_type_roundtrip]);
    - [env S d] is the envelope above as a boolean predicate (ClientGenSpec.v); a response key may
      be selected several times in one selection set (field merging): "distinct ignoring letter
      case" constrains different keys only;
    - [generate_real] is the generator of the current tree (LoadSchema, then the generator with the
      repair "two members of a selection set the same struct field": clashing members get
      underscores appended); [generate] / [generate_cli] is the generator up to that repair, on which
      the proofs are carried out; [C20_generators_agree]: they return the same program whenever no
      two members of a selection set derive the same field name ([excl_member_clash] = false).
      The statements about structs, references, forwarders, printable types, distinct <Op>Data /
      <F>Fragment names ([C20_gen_accepts_structs]) and about decoding ([C20_gen_decodes]) are
      proved about [generate_real] itself, WITH clashing members (ClientGenGoodS / FinalS / DecodeS /
      NamesS / MainS / TopS.v: the loop invariant, the final struct and the decoder over the assigned
      field names), under the envelope alone (a fragment may be named with a leading "__" - the
      validator accepts it, [fieldName] moves the underscores to the end; the label of a fragment in
      a leaf path is its lower-cased name without leading and trailing underscores, [frag_label]).
      The clause about the declared identifiers as a whole ([cl_identifiers]: enum types, enum
      constants, <Op>Data, <F>Fragment, sel<T><n>, json pairwise distinct usable identifiers; field
      names identifiers), and with it [wf_program], is proved of [generate_real] too, clashes
      included ([C20_gen_wf], [C20_gen_wf_clauses]; ClientGenDeclSafeS.v, ClientGenWfS.v), under a
      names-only residue of three decidable conditions (ClientGenSpec.v), evaluated on every case
      of the correspondence check:
      [no_sel_names S d] - no pre-assigned enum type / constant name begins with "sel" (what is
        left of the known finding decl-name-clash: a declaration coinciding with a sel<T><n> helper);
      [no_digit_types S] - no composite type name ends in a digit (sel<T1><n1> = sel<T2><n2>);
      [lex_names S d] - names are lexically names: every response key / composite type / fragment /
        type condition gives a usable Go field name (every GraphQL name but "_", known finding
        blank-field-name, and "__" followed by a digit), enum / operation / fragment names are
        names, enum values consist of name characters and are distinct within their enum.
    - [excl_decl_clash] (two generated declarations get the same identifier, or a schema name is
      used where Go cannot take it) is repaired too ("an enum named like a generated type, a
      reserved identifier or another enum's constant": the names of enum types and constants are
      assigned before generation, underscores appended while taken), except for clashes that involve
      a sel<T><n> helper type, which stay a known finding ([C20_refuted_sel_name_clash]).  As for
      member names, the repaired generator is proved to agree with the generator of the proofs
      when nothing clashes ([decl_safe]); with a clash it is covered by the correspondence check and
      the oracle (witness [C20_fixed_decl_name_clash]);
    - "compiles" is [wf_program]: PARTIAL — it is the modelled part (distinct field names per
      struct, statement groups of every UnmarshalJSON refer to existing fields, every referenced
      type declared, forwarders only to types that have the method; the identifier conditions
      [decl_names_ok] / [idents_ok] / no malformed tags are exactly what [excl_decl_clash] = false
      grants, they are not derived).  It is not a theorem about the Go type checker; the real
      go/types run is observed by the correspondence check on every case.
      The second exclusion is implied by a condition on the NAMES of schema and document alone
      ([decl_safe], ClientGenSpec.v: enum types, enum constants, <Op>Data, <F>Fragment pairwise
      distinct usable identifiers that do not begin with "sel" and are not "json"; no composite
      type name ends in a digit; type-condition and fragment names do not begin with "__"):
      [C20_decl_safe_sufficient].  The main statements below carry [decl_safe] as hypothesis, which
      can be checked without running the generator.
    - "decoding succeeds with every selected leaf": for every response tree [w] that conforms to
      the operation (any concrete object types, nulls at nullable positions, any list lengths),
      [decode_op] of the JSON of [w] returns a value, for all sufficiently large fuel, whose leaves
      are exactly the selected leaves [expected S o w] (as sets of (path, leaf) pairs). *)
From Coq Require Import List NArith Bool String.
Open Scope string_scope.
From ApiFu Require Import Base.Sexp Gen.GoTypes Gen.ClientGenModel Gen.DecodeModel Gen.ClientGenSpec
     Gen.ClientGenMain Gen.ClientGenWitness Gen.ClientGenDeclSafe Gen.LoadSchemaModel Gen.LoadSchemaProofs
     Gen.ClientGenAgree Gen.ClientGenFresh Gen.ClientGenClauses Gen.ClientGenTopS Gen.ClientGenWfS Gen.DecodeAbsent.
Import ListNotations.

(** the generator of the current tree accepts every operation of the envelope and its output is well
    formed ([wf_program]: the modelled part of "compiles"), member-name and declaration-name clashes
    included, under the names-only residue [no_sel_names] / [no_digit_types] / [lex_names] *)
Theorem C20_gen_wf : forall D S d,
  env S d = true -> schema_loadable S = true ->
  no_sel_names S d = true -> no_digit_types S = true -> lex_names S d = true ->
  exists p, generate_real D S (doc_valid S d) d = GOk p /\ wf_program p = true.
Proof. exact real_s_wf. Qed.

(** the generator of the current tree and the generator the proofs are carried out on agree when no
    two members of a selection set derive the same field name *)
Theorem C20_generators_agree : forall S d,
  env S d = true -> excl_member_clash S d = false -> decl_safe S d = true -> forall D, schema_loadable S = true ->
  generate_real D S (doc_valid S d) d = generate_cli no_quirks S (doc_valid S d) d.
Proof. exact generate_real_agree. Qed.

(** LoadSchema rebuilds a field type from what the introspection query returns for it: exactly,
    for every chain of at most seven wrappers in any order ([T]! is not [T!]) ... *)
Theorem C20_load_type_roundtrip : forall S t,
  type_loadable S t = true -> get_type S (query_ref typeref_depth (introspect_ref t)) = Some t.
Proof. exact load_type_roundtrip. Qed.

(** ... for the whole schema, deprecated fields and enum values included: the introspection query
    asks for them (includeDeprecated: true in both places, [the_query]), so whatever members the
    schema marks as deprecated ([D]) the loaded schema is the schema *)
Theorem C20_load_schema_roundtrip : forall D S, schema_loadable S = true -> load_schema_q the_query D S = Some S.
Proof. exact load_schema_deprecated_roundtrip. Qed.

(** asked without includeDeprecated, the server does not list a deprecated field / enum value: the
    loaded type lacks it (and an operation selecting the field is rejected) *)
Theorem C20_refuted_without_include_deprecated : forall Qy D tn,
  (forall f t fs, iq_fields_deprecated Qy = false -> is_dep (dep_fields D) tn f = true -> ~ In (f, t) (listed_fields Qy D tn fs)) /\
  (forall v vs, iq_values_deprecated Qy = false -> is_dep (dep_values D) tn v = true -> ~ In v (listed_values Qy D tn vs)).
Proof. exact without_include_deprecated. Qed.

(** ... and not at all beyond (known finding type-ref-deeper-than-introspection-query): the
    command-line generator then reports an error for every document *)
Theorem C20_refuted_type_ref_depth : forall D S valid d n ifs fs f t,
  In (DObj n ifs fs) (s_types S) -> In (f, t) fs -> (typeref_depth < wrappers t)%nat ->
  generate_real D S valid d = GError.
Proof. exact real_too_deep. Qed.

(** the names-only condition excludes the known finding decl-name-clash (struct-counter invariant:
    sel<T1><n1> = sel<T2><n2> only if n1 = n2, when no composite type name ends in a digit) *)
Theorem C20_decl_safe_sufficient : forall S d,
  schema_ok S = true -> decl_safe S d = true -> excl_decl_clash S d = false.
Proof. exact decl_safe_excl. Qed.

(** with or without a clash: the names the repaired generator assigns are pairwise distinct - the Go
    field names of one struct, whatever its members; the Go names of the enum types, which also avoid
    the reserved identifiers and the <Op>Data / <F>Fragment types; the enum constants, which also
    avoid the enum types.  (A step towards the main statements without [excl_member_clash]: what is
    still missing there is the decoding proof over these names.) *)
Theorem C20_assigned_field_names_distinct : forall fields, NoDup (map snd (assign_names fields)).
Proof. exact assigned_field_names_distinct. Qed.

Theorem C20_enum_type_names_distinct : forall S d,
  NoDup (map snd (fst (enum_name_map S d))) /\
  (forall x, In x (map snd (fst (enum_name_map S d))) -> ~ In x (reserved_identifiers ++ doc_decl_names d)).
Proof. exact enum_type_names_distinct. Qed.

Theorem C20_enum_const_names_distinct : forall S d,
  NoDup (map snd (const_name_map S d)) /\
  (forall x, In x (map snd (const_name_map S d)) -> ~ In x (snd (enum_name_map S d))).
Proof. exact enum_const_names_distinct. Qed.

(** the same, clause by clause (definitions and the Go rule each clause stands for: ClientGenClauses.v):
    distinct struct members and well-targeted UnmarshalJSON statements, declared references,
    forwarders only to types with the method, identifiers *)
Theorem C20_gen_wf_clauses : forall D S d,
  env S d = true -> schema_loadable S = true ->
  no_sel_names S d = true -> no_digit_types S = true -> lex_names S d = true ->
  exists p, generate_real D S (doc_valid S d) d = GOk p /\
            cl_struct_members p /\ cl_references p /\ cl_method_forwarders p /\ cl_identifiers p.
Proof. exact real_s_wf_clauses. Qed.

(** the generator of the current tree, member-name clashes included: it accepts, every struct has
    pairwise distinct field names and an UnmarshalJSON over existing fields, every referenced type
    is declared, forwarders only where the method exists, the <Op>Data / <F>Fragment names are
    pairwise distinct, no enum type is named by a keyword, every type is printable *)
Theorem C20_gen_accepts_structs : forall D S d,
  env S d = true -> schema_loadable S = true ->
  exists p, generate_real D S (doc_valid S d) d = GOk p /\
            cl_struct_members p /\ cl_references p /\ cl_method_forwarders p /\
            NoDup (map td_name (p_defs p)) /\
            forallb (fun e : name * list (name * name) => negb (go_keyword (fst e))) (p_enums p) = true /\
            (forall dfn, In dfn (p_defs p) -> type_syntax_ok (td_type dfn) = true).
Proof. exact real_s_accepts. Qed.

(** decoding any response shaped by a named operation yields exactly the selected leaves
    (member-name clashes included; no hypothesis on declaration names) *)
Theorem C20_gen_decodes : forall D S d,
  env S d = true -> schema_loadable S = true ->
  forall p o opname w,
    generate_real D S (doc_valid S d) d = GOk p ->
    In o (d_ops d) -> op_name o = Some opname -> conforms S o w = true ->
    exists n v, (forall fuel, (n <= fuel)%nat -> decode_op p fuel opname (json_of w) = DOk v) /\
                (forall pl, In pl (leaves v) <-> In pl (expected S o w)).
Proof. exact real_s_decodes. Qed.

(** identifiers of the generator of the current tree (clashes included): every struct field name is
    a usable Go identifier; the emitted enum blocks are enums of the schema under their pre-assigned
    names, each once; the sel<T><n> helpers have pairwise distinct numbers and composite type names -
    hence pairwise distinct names when no composite type name ends in a digit.  [lex_fields]: every
    response key / composite type / fragment / type condition gives a usable field name (every
    GraphQL name but "_": known finding blank-field-name).
    These are the parts about the generator's state from which [C20_gen_wf] is assembled (with
    [C20_gen_accepts_structs], [C20_enum_type_names_distinct], [C20_enum_const_names_distinct]). *)
Theorem C20_gen_identifiers : forall D S d p,
  schema_ok S = true -> schema_loadable S = true -> lex_fields S d = true ->
  generate_real D S (doc_valid S d) d = GOk p ->
  (forall dfn, In dfn (p_defs p) -> idents_ok (td_type dfn) = true) /\
  NoDup (map fst (p_enums p)) /\
  (forall n' cs, In (n', cs) (p_enums p) ->
     exists n vs, In (DEnum n vs) (s_types S) /\ n' = enum_go_name S d n /\ cs = map (fun v => (const_go_name S d n v, v)) vs) /\
  NoDup (map snd (DX (p_defs p))) /\
  (forall ix, In ix (DX (p_defs p)) -> In (fst ix) (composites S)) /\
  (forallb (fun t => negb (ends_with_digit t)) (composites S) = true ->
   NoDup (flat_map (fun x => sel_names (td_type x)) (p_defs p))).
Proof. exact real_s_idents. Qed.

(** @include / @skip: the generator ignores directives (the type is that of the operation without
    them, which is what the theorems are about), the executor leaves out the keys of the selections
    that are skipped.  A struct field that no key of the response object is decoded into holds the
    zero value of its type - the statement about the decoder model; the correspondence check runs
    the real decoder on real responses with the conditions true and false. *)
Theorem C20_absent_key_zero_value : forall dec fs kvs sv' i fld,
  decode_struct dec fs (JObj kvs) = DOk sv' ->
  nth_error fs i = Some fld ->
  (forall k v, In (k, v) kvs -> field_for_key fs k <> Some i) ->
  nth_error sv' i = Some (gf_name fld, gf_tag fld, zero (gf_type fld)).
Proof. exact decode_struct_absent. Qed.

(** operations that fail validation are rejected and nothing is generated (whatever the flags) *)
Theorem C20_gen_invalid_no_output : forall Q S d,
  doc_valid S d = false -> generate Q S (doc_valid S d) d = GRejected.
Proof. exact gen_invalid_no_output. Qed.

Theorem C20_real_invalid_no_output : forall D S d p,
  doc_valid S d = false -> generate_real D S (doc_valid S d) d <> GOk p.
Proof. exact real_invalid_no_output. Qed.

(** the defects repaired in the repository, reproduced on the model of the code before each
    repair ([quirks]): each operation is in the envelope and violates the statements above *)
Theorem C20_refuted_before_fix_27 :
  in_envelope ex_schema doc27 = true /\
  conforms ex_schema (hd op27 (d_ops doc27)) resp27 = true /\
  generated_and (generate quirk27 ex_schema (doc_valid ex_schema doc27) doc27)
    (fun p => negb (leaves_agree p ex_schema (hd op27 (d_ops doc27)) "A" resp27)) = true.
Proof. exact refuted_before_fix_27. Qed.

Theorem C20_refuted_before_fix_28 :
  in_envelope ex_schema doc28 = true /\
  generated_and (generate quirk28 ex_schema (doc_valid ex_schema doc28) doc28) (fun p => negb (wf_program p)) = true.
Proof. exact refuted_before_fix_28. Qed.

Theorem C20_refuted_before_fix_29 :
  in_envelope ex_schema doc29 = true /\ generate quirk29 ex_schema (doc_valid ex_schema doc29) doc29 = GPanic.
Proof. exact refuted_before_fix_29. Qed.

Theorem C20_refuted_before_fix_union_condition :
  in_envelope ex_schema docU = true /\
  conforms ex_schema (hd opU (d_ops docU)) respU = true /\
  generated_and (generate quirk_union ex_schema (doc_valid ex_schema docU) docU)
    (fun p => negb (leaves_agree p ex_schema (hd opU (d_ops docU)) "E" respU)) = true.
Proof. exact refuted_before_fix_union. Qed.

Theorem C20_refuted_before_fix_repeated_key :
  in_envelope ex_schema docM = true /\
  conforms ex_schema (hd opM (d_ops docM)) respM = true /\
  generated_and (generate quirk_merge ex_schema (doc_valid ex_schema docM) docM)
    (fun p => negb (leaves_agree p ex_schema (hd opM (d_ops docM)) "M" respM)) = true.
Proof. exact refuted_before_fix_field_merge. Qed.

(** member-name-clash (repaired, fix "two members of a selection set the same struct field"): on
    the generator up to that repair the output is not well formed ... *)
Theorem C20_refuted_before_fix_member_name_clash :
  env ex_schema docK1 = true /\ excl_member_clash ex_schema docK1 = true /\
  generated_and (generate no_quirks ex_schema (doc_valid ex_schema docK1) docK1) (fun p => negb (wf_program p)) = true.
Proof. exact refuted_member_name_clash. Qed.

(** ... with the repair the clashing members get distinct fields; the output is well formed and
    decodes (fragment labels compared up to the appended underscores); two instances: a response
    key against an inline fragment, and typename__ next to __typename together with a response key
    equal to the type's name *)
Theorem C20_fixed_member_name_clash :
  env ex_schema docK1 = true /\ excl_member_clash ex_schema docK1 = true /\
  generated_and (generate_s ex_schema (doc_valid ex_schema docK1) docK1)
    (fun p => wf_program p && leaves_agree_norm p ex_schema (hd opM (d_ops docK1)) "K" respK1) = true /\
  env ex_schema docK3 = true /\ excl_member_clash ex_schema docK3 = true /\
  generated_and (generate_s ex_schema (doc_valid ex_schema docK3) docK3)
    (fun p => wf_program p && leaves_agree_norm p ex_schema (hd opM (d_ops docK3)) "K" respK3) = true.
Proof. exact fixed_member_name_clash. Qed.

(** decl-name-clash (repaired, fix "an enum named like a generated type, a reserved identifier or
    another enum's constant"): on the generator up to that repair the output is not well formed ... *)
Theorem C20_refuted_before_fix_decl_name_clash :
  env schemaK2 docK2 = true /\ excl_member_clash schemaK2 docK2 = false /\ excl_decl_clash schemaK2 docK2 = true /\
  generated_and (generate no_quirks schemaK2 (doc_valid schemaK2 docK2) docK2) (fun p => negb (wf_program p)) = true.
Proof. exact refuted_decl_name_clash. Qed.

(** ... with the repair the clashing declaration gets underscores appended: enum constants that differ
    in letter case only; an enum named like an <Op>Data type and an enum named string *)
Theorem C20_fixed_decl_name_clash :
  env schemaK2 docK2 = true /\ decl_safe schemaK2 docK2 = false /\
  generated_and (generate_s schemaK2 (doc_valid schemaK2 docK2) docK2)
    (fun p => wf_program p && leaves_agree p schemaK2 (hd opM (d_ops docK2)) "K" respK2) = true /\
  env schemaK5 docK5 = true /\ decl_safe schemaK5 docK5 = false /\
  generated_and (generate_s schemaK5 (doc_valid schemaK5 docK5) docK5)
    (fun p => wf_program p && leaves_agree p schemaK5 (hd opM (d_ops docK5)) "K" respK5) = true.
Proof. exact fixed_decl_name_clash. Qed.

(** what remains a known finding (decl-name-clash, now only): a declaration that coincides with a
    sel<T><n> helper type - here an enum named selQuery0 - is not renamed *)
Theorem C20_refuted_sel_name_clash :
  env schemaK8 docK8 = true /\ excl_member_clash schemaK8 docK8 = false /\ decl_safe schemaK8 docK8 = false /\
  generated_and (generate_s schemaK8 (doc_valid schemaK8 docK8) docK8) (fun p => negb (wf_program p)) = true.
Proof. exact refuted_sel_name_clash. Qed.

(** known finding blank-field-name: a fragment (type, type condition) named "_" is a valid GraphQL name
    whose struct field is the blank identifier; it is exactly outside [lex_names] (the other two
    conditions of the residue hold on the witness) and the generator's output for it is not well formed *)
Theorem C20_blank_member_outside_residue : forall S d, blank_member S d = true -> lex_names S d = false.
Proof. exact blank_member_not_lex. Qed.

Theorem C20_refuted_blank_field_name :
  env ex_schema docK11 = true /\ blank_member ex_schema docK11 = true /\
  no_sel_names ex_schema docK11 = true /\ no_digit_types ex_schema = true /\ lex_names ex_schema docK11 = false /\
  generated_and (generate_s ex_schema (doc_valid ex_schema docK11) docK11) (fun p => negb (wf_program p)) = true.
Proof. exact refuted_blank_field_name. Qed.

Print Assumptions C20_gen_wf.
Print Assumptions C20_blank_member_outside_residue.
Print Assumptions C20_refuted_blank_field_name.
Print Assumptions C20_decl_safe_sufficient.
Print Assumptions C20_load_type_roundtrip.
Print Assumptions C20_load_schema_roundtrip.
Print Assumptions C20_refuted_without_include_deprecated.
Print Assumptions C20_refuted_type_ref_depth.
Print Assumptions C20_real_invalid_no_output.
Print Assumptions C20_assigned_field_names_distinct.
Print Assumptions C20_enum_type_names_distinct.
Print Assumptions C20_enum_const_names_distinct.
Print Assumptions C20_gen_wf_clauses.
Print Assumptions C20_gen_accepts_structs.
Print Assumptions C20_gen_decodes.
Print Assumptions C20_absent_key_zero_value.
Print Assumptions C20_gen_identifiers.
Print Assumptions C20_generators_agree.
Print Assumptions C20_fixed_member_name_clash.
Print Assumptions C20_gen_invalid_no_output.
Print Assumptions C20_refuted_before_fix_27.
Print Assumptions C20_refuted_before_fix_28.
Print Assumptions C20_refuted_before_fix_29.
Print Assumptions C20_refuted_before_fix_union_condition.
Print Assumptions C20_refuted_before_fix_repeated_key.
Print Assumptions C20_refuted_before_fix_member_name_clash.
Print Assumptions C20_refuted_before_fix_decl_name_clash.
Print Assumptions C20_fixed_decl_name_clash.
Print Assumptions C20_refuted_sel_name_clash.
