(** * C20 — placeholder while the correspondence is being built *)
From ApiFu Require Import Base.Sexp Gen.GoTypes.
Theorem C20_placeholder : True.
Proof. exact I. Qed.
Print Assumptions C20_placeholder.
