(** * C15 — Go/Batch helpers deliver every result, coalesce batches, never deadlock or leak.
    This file contains only statements closed by [exact] and their [Print Assumptions].

    One api-fu request is the labelled transition system of Idle/IdleModel.v (a transcription of
    apiRequest.IdleHandler, Go, Batch, chain, join in api.go and of the executor's decision to call
    the idle handler): [run fx p init tr = Some s] says that the interleaving [tr] of executor,
    idle-handler and goroutine steps is possible for the request whose resolvers are described by
    the work-item forest [p] and leads to state [s].  [fx : variant] selects the code: [v_fix fx = true]
    is the repaired code, [false] the pinned code (no executionDone case); [v_loop fx = true] is the
    idle handler that exists (loops after delivering to a chained promise), [false] the rewrite that
    returns to the executor instead (property intact; covered so that the acceptor need not pin it); [wf_items p] says chain/join items name earlier promise
    items, each once; [bfun_ok p] is the documented contract of batch resolvers (one result per field
    context).  Every theorem quantifies over ALL interleavings [tr]: no bound on sizes or schedules.
    CANCELLATION of the request context is the environment label [LCancel], enabled at any point
    (once): every theorem below therefore holds with the cancellation interleaved anywhere — before
    the first resolver, between waves, while functions run, after the last delivery.  What the code
    does with it is part of the model: the executor stops invoking resolvers (it just takes no more
    [LCreate]), functions given to Go may return something else (their results are [prog]'s), and the
    idle handler / the hand-over in Go / chain / join ignore it; "every started function returns"
    is the LTS' assumption that [LFinish] is enabled for a goroutine inside f().

    RUNTIME RESIDUE (why the claim is labelled partial): that the Go scheduler, unbuffered / buffered
    channel operations, [select] and [sync.WaitGroup] behave as the LTS' labels say is assumed, not
    proved; the correspondence check replays observed histories of the real code through the LTS. *)
From Coq Require Import List ZArith Arith.
From ApiFu Require Import Idle.IdleModel Idle.IdleSpec Idle.IdleProofs Idle.IdleLive Idle.IdleHist Idle.IdleFair Idle.IdleSub Idle.IdleJoint Idle.IdleJointRun Idle.IdleJointTotal.
From ApiFu Require Fut.NoPrefill Fut.Denote.
From ApiFu Require Fut.Plan Fut.ExecAsync Fut.ExecSync Fut.AsyncRun Fut.FutSpec Fut.FutProofs.
Import ListNotations.

Section C15.
  Variable p : prog.
  Hypothesis WF : wf_items p = true.
  Hypothesis BF : bfun_ok p.
  Variable fx : variant.

  (** every history of the model satisfies the reference semantics of Idle/IdleSpec.v (DELIVERY,
      ONCE, COALESCED, NO PHANTOM, NO LOST — see the head of that file) *)
  Theorem C15_refines_spec : forall tr s,
    run fx p init tr = Some s -> exists m, mon_run p mon_init tr = Some m.
  Proof. exact (run_accepted p WF BF fx). Qed.

  (** DELIVERY.  Whatever a promise holds, in any reachable state, is the result produced for it:
      Go: what its function returned; Batch: the entry of the batch function's answer at the
      position at which this field context was passed; chain/join: its function applied to the
      values produced for its inner promises, or the first error among them ([produced]). *)
  Theorem C15_delivery_exact : forall tr s w r,
    run fx p init tr = Some s -> st_chan s w = Some r -> produced p tr w r.
  Proof. exact (delivery_exact p WF BF fx). Qed.

  (** ... the executor only ever takes such a result ... *)
  Theorem C15_consumed_was_produced : forall tr w s,
    run fx p init (tr ++ [LConsume w]) = Some s -> exists r, produced p tr w r.
  Proof. exact (consumed_was_produced p WF BF fx). Qed.

  (** ... and no promise receives a result twice ([deliveries]: the promises filled by the idle
      handler's receives and by the batch goroutines, in history order). *)
  Theorem C15_delivered_once : forall tr s,
    run fx p init tr = Some s -> NoDup (deliveries tr).
  Proof. exact (delivered_once p WF BF fx). Qed.

  (** ONCE.  No field context is handed to a batch function twice. *)
  Theorem C15_batch_once_per_item : forall tr s,
    run fx p init tr = Some s -> NoDup (flat_map snd (flush_calls tr)).
  Proof. exact (batch_once_per_item p WF BF fx). Qed.

  (** COALESCED.  Between an entry into the idle handler and the matching return, batch resolver
      [k] is called exactly once if some invocation of it was pending when execution could not
      proceed — with all of them, in invocation order — and not at all otherwise. *)
  Theorem C15_batch_coalesced : forall pre mid s,
    run fx p init (pre ++ LIdleEnter :: mid ++ [LIdleExit]) = Some s -> ~ In LIdleExit mid ->
    forall k, calls_of k mid = match pending_after p k pre with [] => [] | its => [(k, its)] end.
  Proof. exact (batch_coalesced p WF BF fx). Qed.

  (** NO DEADLOCK.  In every reachable state in which the request has not returned, a step is
      enabled that depends neither on the query nor on the environment ([forced]: any label except
      "a resolver is invoked", "a sibling failure discards a pending field" and "the request context
      is cancelled"): the executor can take a result, enter the
      idle handler or return; inside the idle handler a batch can be flushed, or some goroutine can
      move towards the hand-over the handler is blocked on, or the handler can receive / return. *)
  Theorem C15_deadlock_free : forall tr s,
    run fx p init tr = Some s -> st_phase s <> PEnded ->
    exists l s', forced l = true /\ step fx p s l = Some s'.
  Proof. exact (deadlock_free_run p WF BF fx). Qed.

  (** NO LIVELOCK.  No interleaving has more than 36 n + 5 steps (n = number of work items). *)
  Theorem C15_terminates : forall tr s,
    run fx p init tr = Some s -> length tr <= 36 * length (p_items p) + 5.
  Proof. exact (terminates p WF BF fx). Qed.

  (** COMPLETION.  From every reachable state the request returns, by forced steps alone. *)
  Theorem C15_completes : forall tr s,
    run fx p init tr = Some s ->
    exists tr' s', Forall (fun l => forced l = true) tr' /\
                   run fx p init (tr ++ tr') = Some s' /\ st_phase s' = PEnded.
  Proof. exact (completes_run p WF BF fx). Qed.

  (** NO LEAK (repaired code).  After the request returned — normally, with errors, or with pending
      work abandoned — every goroutine started on its behalf that still exists ([active]: inside
      f(), waiting for an inner promise, or at the hand-over) can take a step of its own
      ([own_label w]: f() returns, it reaches the hand-over, or the executionDone case fires) ... *)
  Theorem C15_no_leak : forall tr s w,
    v_fix fx = true ->
    run fx p init tr = Some s -> st_phase s = PEnded -> active (st_gor s w) ->
    exists l s', own_label w l /\ step fx p s l = Some s' /\ st_phase s' = PEnded.
  Proof. exact (fun tr s w => no_leak_run p WF BF fx tr s w). Qed.

  (** ... and they all end. *)
  Theorem C15_drains : forall tr s,
    v_fix fx = true ->
    run fx p init tr = Some s -> st_phase s = PEnded ->
    exists tr' s', run fx p init (tr ++ tr') = Some s' /\ st_phase s' = PEnded /\
                   forall w, ~ active (st_gor s' w).
  Proof. exact (fun tr s => drains_run p WF BF fx tr s). Qed.
  (** ** The executor's contract for idle handlers (executor.go: "before the idle handler returns, a
      result must be sent to at least one previously returned ResolvePromise"; C02: [fair]) *)

  (** Every idle round fills at least one promise that existed and was empty at the entry. *)
  Theorem C15_idle_round_fulfils : forall pre mid s,
    run fx p init (pre ++ LIdleEnter :: mid ++ [LIdleExit]) = Some s -> ~ In LIdleExit mid ->
    exists w, In w (deliveries mid) /\ In w (created_of pre) /\ ~ In w (deliveries pre) /\
              promise_item p w = true.
  Proof. exact (round_fulfils p WF BF fx). Qed.

  (** For requests without chaining (Go and Batch resolvers; no promise read by a chain/join
      goroutine) it is a promise the executor holds and still waits for: C02's fairness, literally. *)
  Theorem C15_idle_round_fair_unchained : forall pre mid s,
    no_chaining p ->
    run fx p init (pre ++ LIdleEnter :: mid ++ [LIdleExit]) = Some s -> ~ In LIdleExit mid ->
    exists w, In w (deliveries mid) /\
              visible p w = true /\ In w (created_of pre) /\ ~ In w (deliveries pre).
  Proof. exact (round_fair_unchained p WF BF fx). Qed.

  (** ... and everything such a round fills is outstanding at its entry: one idle round of the LTS is
      one [idle] transition of C02's promise table with chosen = [deliveries mid] (the handler's half
      of the joint executor + handler model; the executor's half — C02's poll creating exactly the
      LTS' [LCreate]s and taking exactly its [LConsume]s — is not proved). *)
  Theorem C15_idle_round_deliveries_outstanding : forall pre mid s,
    no_chaining p ->
    run fx p init (pre ++ LIdleEnter :: mid ++ [LIdleExit]) = Some s -> ~ In LIdleExit mid ->
    deliveries mid <> [] /\
    forall w, In w (deliveries mid) ->
      visible p w = true /\ In w (created_of pre) /\ ~ In w (deliveries pre).
  Proof. exact (round_deliveries_outstanding p WF BF fx). Qed.

  (** The same at the level of states, as a step of the joint executor + handler model: [K st s]
      couples C02's executor state [st] with the LTS state [s] (item w = promise id w; created =
      in the promise table; done = delivered; channel contents agree).  One idle round of the LTS
      from a coupled state IS the transition [ExecAsync.idle] of C02's model with chosen = the
      round's deliveries (it does not answer [None]: C02's "Stuck" cannot arise from this handler),
      and the states are coupled again afterwards.  What is still missing for "response == response
      with all resolvers synchronous" as a theorem is the executor's half: C02's [poll] between two
      idle calls, seen through [K], as [LCreate] / [LConsume] / [LAbandon] steps ending where
      [LIdleEnter] is enabled. *)
  Theorem C15_idle_round_is_C02_idle_transition : forall st s m mid s',
    no_chaining p ->
    K st s -> Inv p s -> Sim p s m -> st_phase s = PPoll ->
    run fx p s (LIdleEnter :: mid ++ [LIdleExit]) = Some s' -> ~ In LIdleExit mid ->
    exists st', ExecAsync.idle (fun _ _ => deliveries mid) st = Some st' /\ K st' s' /\
                ExecAsync.s_round st' = S (ExecAsync.s_round st) /\ st_phase s' = PPoll.
  Proof. exact (fun st s m mid s' NC => round_preserves_coupling p WF BF NC fx st s m mid s'). Qed.

  (** The executor's half, first part.  What a poll of C02's executor does to its promise table
      between two idle calls (Fut/Acct.v, [Acct]: promises appended, none of them done — Go and Batch
      never send before returning —, channel entries removed) is, through the coupling, the LTS run
      "[LCreate] every new promise, [LConsume] every entry that disappeared", and the states are
      coupled again.  The request's promises are a flat program ([flat_async]: every promise a Go or
      Batch item without parent, the most permissive abstraction of the executor).
      STILL OPEN for "response == response with all resolvers synchronous" as a theorem: (i) promises
      the executor stops waiting for ([Acct]'s ghost ids dropped without being received) as
      [LAbandon], (ii) that after a poll of a still-pending future no awaited promise has an unread
      result and some awaited promise is empty — [LIdleEnter]'s guard — and that a ready future
      leaves nothing awaited — [LEnd]'s guard; both need lemmas about C02's [Step] that [Acct] does
      not provide. *)
  Theorem C15_poll_is_creates_and_consumes : forall st st' s m new,
    flat_async p ->
    K st s -> Inv p s -> Sim p s m -> st_phase s = PPoll ->
    ExecAsync.s_proms st' = ExecAsync.s_proms st ++ new ->
    (forall k pr, nth_error new k = Some pr ->
       ExecAsync.p_id pr = length (ExecAsync.s_proms st) + k /\ ExecAsync.p_done pr = false) ->
    (forall x, In x (ExecAsync.s_chans st') -> In x (ExecAsync.s_chans st)) ->
    length (ExecAsync.s_proms st') <= length (p_items p) ->
    exists s' m',
      run fx p s (map LCreate (seq (length (ExecAsync.s_proms st)) (length new)) ++
                  map LConsume (taken_ids st st')) = Some s' /\
      K st' s' /\ Inv p s' /\ Sim p s' m' /\ st_phase s' = PPoll.
  Proof. exact (fun st st' s m new FL => poll_is_creates_and_consumes p WF BF fx FL st st' s m new). Qed.

  (** With chaining a round may fill only inner promises (see the refutation below); the executor
      then calls the handler again, and altogether never more often than the request has promises. *)
  Theorem C15_idle_rounds_bounded : forall tr s,
    run fx p init tr = Some s -> exits tr <= length (filter (promise_item p) (ids p)).
  Proof. exact (rounds_bounded p WF BF fx). Qed.
End C15.

(** The literal contract is violated when promises are chained (connection whose getter is a Batch
    resolver): an idle round that fills only a promise the executor never saw, while the promise it
    waits for stays empty.  Harmless for graphql/executor's wait loop (it calls the handler again);
    it is why C02's per-round fairness cannot be claimed of api-fu's handler as it stands. *)
Theorem C15_round_fairness_refuted_with_chaining :
  exists p pre mid s,
    wf_items p = true /\ bfun_ok p /\
    run current p init (pre ++ LIdleEnter :: mid ++ [LIdleExit]) = Some s /\ ~ In LIdleExit mid /\
    (exists w, visible p w = true /\ In w (created_of pre) /\ ~ In w (deliveries pre)) /\
    forall w, In w (deliveries mid) -> visible p w = false.
Proof. exact round_fairness_refuted_with_chaining. Qed.

(** ** Composition with C02 ("response == response of the same query with all resolvers synchronous")

    [sched_of_rounds cs] reads what a handler did round by round ([cs] = the promises filled in its
    r-th call) as a scheduler of C02's executor model; it does exactly that on every (round,
    outstanding set) the record hits, and it is fair.  Hence, by C02: whatever two handlers did —
    any completion order, timing and grouping into rounds — both executions finish with the data of
    the all-synchronous reference and responses conforming to the plan.
    RESIDUE (argued in checks/C15.design.md, not proved): that C02's (round, outstanding set) at
    its r-th idle call is the LTS' set of created, empty, executor-held promises at the r-th
    productive [LIdleEnter] — a joint model of executor and handler would be needed; for chained
    requests, rounds that fill only inner promises are stuttering steps of C02's round. *)
Theorem C15_handler_record_is_fair_scheduler : forall cs,
  AsyncRun.fair (sched_of_rounds cs) /\
  forall r out x, In x (nth r cs []) -> In x (map fst out) -> sched_of_rounds cs r out = nth r cs [].
Proof. exact (fun cs => conj (sched_of_rounds_fair cs) (sched_of_rounds_agrees cs)). Qed.

Theorem C15_response_eq_sync_composed : forall md root (cs1 cs2 : list (list nat)) fuel jfuel,
  Plan.count_async root <= fuel -> FutProofs.resp_depth root < jfuel ->
  exists r1 r2,
    ExecAsync.run ExecAsync.fixed_flags (sched_of_rounds cs1) md fuel jfuel root = ExecAsync.Done r1 /\
    ExecAsync.run ExecAsync.fixed_flags (sched_of_rounds cs2) md fuel jfuel root = ExecAsync.Done r2 /\
    ExecAsync.r_data r1 = ExecSync.sr_data (ExecSync.run_sync root) /\
    ExecAsync.r_data r2 = ExecSync.sr_data (ExecSync.run_sync root) /\
    FutSpec.conforms root (ExecAsync.r_data r1) (ExecAsync.r_errors r1) /\
    FutSpec.conforms root (ExecAsync.r_data r2) (ExecAsync.r_errors r2).
Proof. exact response_independent_of_handler_rounds. Qed.

(** ** Subscriptions: one execution per event, all sharing one apiRequest

    [sub_run fixed fx p s0 [tr1; ...; trn]]: the events' histories; between two executions
    [finish_exec fixed] carries the apiRequest over — with the repair (finishExecution drops
    [batches] and [chainedAsyncResolutions]) nothing but the connection's cancellation state.
    On the repaired code every event is a run of the single-execution LTS from a fresh request
    state ([fresh c] = [init], cancelled or not), so every theorem above holds of every event; in
    particular its history is accepted by the Spec monitor: no batch function ever sees a field
    context of an earlier event. *)
Theorem C15_subscription_events_isolated : forall p, wf_items p = true -> bfun_ok p ->
  forall fx trs c s,
  sub_run true fx p (fresh c) trs = Some s ->
  Forall (fun tr => exists c' s' m, run fx p (fresh c') tr = Some s' /\
                                    mon_run p mon_init tr = Some m /\ Inv p s' /\ Sim p s' m) trs.
Proof. exact events_isolated. Qed.

(** Before the repair (api-fu 786cdc5): subscription{ev{a0:b0{a1:lb0 a2:lsN}}} with a2 failing; the first
    event returns with the invocation of a1 still in [batches]; the second event's batch call is
    [flush 0 [1; 0]] — field context 1 was not invoked in that execution; the Spec rejects the
    history; and the repaired code cannot produce it. *)
Theorem C15_subscription_batch_leak_refuted_before_fix :
  exists p tr1 tr2 s,
    wf_items p = true /\ bfun_ok p /\
    sub_run false current p init [tr1; tr2] = Some s /\
    (exists k its w, In (LFlush k its) tr2 /\ In w its /\ ~ In w (created_of tr2)) /\
    mon_run p mon_init tr2 = None /\
    sub_run true current p init [tr1; tr2] = None.
Proof. exact batch_leak_before_fix. Qed.

(** Before the repair of the shared asyncResolutions channel: the resolution of a goroutine that an
    earlier event started ([LRecv 7], no item of this execution; step relation [step_stale]) is
    consumed by the running event's idle handler, which then returns to the executor having filled
    no promise of this execution while promise 0 is still awaited; the Spec rejects the history and
    the repaired code ([run]) cannot produce it. *)
Theorem C15_subscription_stale_resolution_refuted_before_fix :
  exists p pre mid s,
    wf_items p = true /\ bfun_ok p /\
    run_stale current p init (pre ++ LIdleEnter :: mid ++ [LIdleExit]) = Some s /\ ~ In LIdleExit mid /\
    st_phase s = PPoll /\ live p s 0 = true /\ chan_empty s 0 = true /\
    (forall w, In w (deliveries mid) -> ~ In w (created_of (pre ++ mid))) /\
    mon_run p mon_init (pre ++ LIdleEnter :: mid ++ [LIdleExit]) = None /\
    run current p init (pre ++ LIdleEnter :: mid ++ [LIdleExit]) = None.
Proof. exact stale_resolution_before_fix. Qed.

(** ONE AWAITING CHAIN PER PROMISE.  A promise carries one result.  In no reachable state do two
    chain / join goroutines wait for the same promise ([wf_items]: api-fu obtains a fresh promise from
    the getter for every chain it builds) ... *)
Theorem C15_one_reader_per_promise : forall p, wf_items p = true -> bfun_ok p ->
  forall fx tr s c1 c2 j1 j2 v1 v2 q,
  run fx p init tr = Some s ->
  st_gor s c1 = GWaiting j1 v1 -> st_gor s c2 = GWaiting j2 v2 ->
  nth_error (inner_of p c1) j1 = Some q -> nth_error (inner_of p c2) j2 = Some q -> c1 = c2.
Proof. exact one_reader_per_promise. Qed.

(** ... and the hypothesis cannot be dropped: the seeded change "memoized edge resolver call on the
    zero-count path" makes totalCount and pageInfo chain onto the SAME promise (items 1 and 2 over
    promise 0); one chain takes the result, the other waits for ever, the idle handler is blocked in
    its receive with promise 2 awaited and no forced label enabled. *)
Theorem C15_deadlock_refuted_when_promise_has_two_chains :
  exists p tr s, wf_items p = false /\ nodupb (all_inner p) = false /\ bfun_ok p /\
                 run current p init tr = Some s /\ st_phase s = PTop /\ live p s 2 = true /\
                 forall l, forced l = true -> step current p s l = None.
Proof. exact deadlock_when_promise_has_two_chains. Qed.

(** A hand-over in Go that also selects on the request context (the seeded change C15-2, as the
    step relation [step_ctxdrop]): after a cancellation the goroutine may end without handing its
    result over; the request [create 0; idle-enter; cancel; finish 0; arrive 0; exit 0] is then inside
    the idle handler's blocking receive, still waits for promise 0, and no forced label is enabled
    ever again: COMPLETION and NO DEADLOCK fail, which is why the hand-over must not look at ctx. *)
Theorem C15_completes_refuted_with_ctx_drop :
  exists p tr s, wf_items p = true /\ bfun_ok p /\ run_ctxdrop current p init tr = Some s /\
                 st_phase s = PTop /\ live p s 0 = true /\
                 forall l, forced l = true -> step_ctxdrop current p s l = None.
Proof. exact completes_refuted_with_ctx_drop. Qed.

(** ** RESPONSE == RESPONSE OF THE SAME QUERY WITH ALL RESOLVERS SYNCHRONOUS (Go/Batch, no chaining)

    The joint system: C02's executor (its root future, [ExecAsync.invoke] for every poll, its
    promise table) with api-fu's idle handler in place of C02's oracle — [JRun p fx root jfuel cs resp]
    (Idle/IdleJointRun.v): in every iteration of the wait loop the handler is one idle round of the
    LTS, and what it fulfils in the executor's table is exactly that round's [deliveries]; [cs] are
    the rounds' deliveries.  For every such run, whatever the interleaving inside the rounds: the
    data is the data of the all-synchronous reference and the errors conform to the plan. *)
Theorem C15_response_eq_sync : forall p fx root jfuel cs resp,
  FutProofs.resp_depth root < jfuel ->
  JRun p fx root jfuel cs resp ->
  ExecAsync.r_data resp = ExecSync.sr_data (ExecSync.run_sync root) /\
  FutSpec.conforms root (ExecAsync.r_data resp) (ExecAsync.r_errors resp).
Proof. exact response_eq_sync. Qed.

(** The same for MUTATIONS ([JRunM], mirroring C02's [serial_loop] / [exec_sel_serial]): the root
    fields are executed one after the other, each field's future waited for by the joint loop (LTS
    rounds as the handler) before the next field starts, the rounds numbered consecutively; every
    such joint run yields the all-synchronous data and conforming errors.  (Existence of a joint
    run, proved for queries below, is not repeated for the serial path.) *)
Theorem C15_response_eq_sync_mutation : forall p fx root jfuel cs resp,
  FutProofs.resp_depth root < jfuel ->
  JRunM p fx root jfuel cs resp ->
  ExecAsync.r_data resp = ExecSync.sr_data (ExecSync.run_sync root) /\
  FutSpec.conforms root (ExecAsync.r_data resp) (ExecAsync.r_errors resp).
Proof. exact response_eq_sync_mutation. Qed.

(** ... and the joint system does run to completion, every one of its steps being forced: for every
    plan without prefilled promises ([NoPrefill.nopre root]: true of every Go/Batch request, api-fu
    never sends before it has returned the promise) and every flat Go/Batch program with an item
    for each promise of the plan, a joint run exists — constructed by following C02's own
    [wait_loop_spec] with the oracle replaced by the LTS: a pending future enables [LIdleEnter]; the
    handler can complete the round; whatever round it is, it fulfils exactly its deliveries in C02's
    table (never C02's Stuck); C02's poll is mirrored by creates / consumes / abandons; until the
    future is ready.  Together with [C15_response_eq_sync]: "response == response of the same query
    with all resolvers synchronous" for Go/Batch requests without chaining. *)
Theorem C15_joint_run_exists : forall p, wf_items p = true -> bfun_ok p -> no_chaining p -> flat_async p ->
  forall fx root jfuel,
  NoPrefill.nopre root = true -> Plan.count_async root <= length (p_items p) ->
  FutProofs.resp_depth root < jfuel ->
  exists cs resp, JRun p fx root jfuel cs resp.
Proof. exact joint_run_exists. Qed.

Theorem C15_response_eq_sync_go_batch : forall p, wf_items p = true -> bfun_ok p -> no_chaining p -> flat_async p ->
  forall fx root jfuel,
  NoPrefill.nopre root = true -> Plan.count_async root <= length (p_items p) ->
  FutProofs.resp_depth root < jfuel ->
  (exists cs resp, JRun p fx root jfuel cs resp) /\
  forall cs resp, JRun p fx root jfuel cs resp ->
    ExecAsync.r_data resp = ExecSync.sr_data (ExecSync.run_sync root) /\
    FutSpec.conforms root (ExecAsync.r_data resp) (ExecAsync.r_errors resp).
Proof.
  exact (fun p WF BF NC FL fx root jfuel NP BIG HJ =>
           conj (joint_run_exists p WF BF NC FL fx root jfuel NP BIG HJ)
                (fun cs resp => response_eq_sync p fx root jfuel cs resp HJ)).
Qed.

(** That the joint system's steps are the ones the two components can and must take (coupling
    [KG st ids s]: [K] plus "the promises C02's future still awaits = the LTS' live items"), for a flat
    Go/Batch program:
    - the handler's round from a coupled state fulfils, in C02's table, exactly its deliveries —
      [ExecAsync.idle] does not answer [None] — and the states stay coupled;
    - a poll whose effect on the table is as C02's [Acct] describes is mirrored in the LTS by
      [LCreate] of the new promises, [LConsume] of the received results and [LAbandon] of the
      promises no longer awaited (a), and the states stay coupled with the new awaited set;
    - (b) a pending future ([Blocked]: an awaited promise without a result) enables [LIdleEnter]; a
      ready one (nothing awaited) enables [LEnd].
    [poll_preserves_KG] assumes of the poll that the promises it appends are not done and that it
    adds no channel entry: that is C02's [NoPrefill.NP] (C02_no_prefill_poll), used in
    [joint_loop_exists]; [acct_provides] (IdleJoint.v) derives the other hypotheses from [Acct]. *)
Theorem C15_joint_round_forced : forall p, wf_items p = true -> bfun_ok p -> no_chaining p ->
  forall fx, flat_async p -> forall st ids s m mid s',
  KG p st ids s -> Inv p s -> Sim p s m -> st_phase s = PPoll ->
  run fx p s (LIdleEnter :: mid ++ [LIdleExit]) = Some s' -> ~ In LIdleExit mid ->
  exists st', ExecAsync.idle (fun _ _ => deliveries mid) st = Some st' /\ KG p st' ids s' /\
              ExecAsync.s_round st' = S (ExecAsync.s_round st) /\ st_phase s' = PPoll.
Proof. exact round_preserves_KG. Qed.

Theorem C15_joint_poll_mirrored : forall p, wf_items p = true -> bfun_ok p ->
  forall fx, flat_async p -> forall st st' ids ids' s m new,
  KG p st ids s -> Inv p s -> Sim p s m -> st_phase s = PPoll ->
  ExecAsync.s_proms st' = ExecAsync.s_proms st ++ new ->
  (forall k pr, nth_error new k = Some pr ->
     ExecAsync.p_id pr = length (ExecAsync.s_proms st) + k /\ ExecAsync.p_done pr = false) ->
  (forall x, In x (ExecAsync.s_chans st') -> In x (ExecAsync.s_chans st)) ->
  length (ExecAsync.s_proms st') <= length (p_items p) ->
  (forall id, In id ids' -> In id ids \/ length (ExecAsync.s_proms st) <= id < length (ExecAsync.s_proms st')) ->
  (forall x, In x (ExecAsync.s_chans st) -> ~ In x (ExecAsync.s_chans st') -> ~ In (fst x) ids') ->
  exists tr s' m',
    run fx p s tr = Some s' /\
    Forall (fun l => match l with LCreate _ | LConsume _ | LAbandon _ => True | _ => False end) tr /\
    KG p st' ids' s' /\ Inv p s' /\ Sim p s' m' /\ st_phase s' = PPoll.
Proof. exact poll_preserves_KG. Qed.

Theorem C15_joint_guards : forall p fx st ids s,
  KG p st ids s -> st_phase s = PPoll ->
  ((exists id, In id ids /\ id < length (ExecAsync.s_proms st) /\
               forall ok, ~ In (id, ok) (ExecAsync.s_chans st)) ->
   exists s', step fx p s LIdleEnter = Some s') /\
  (ids = [] -> exists s', step fx p s LEnd = Some s').
Proof.
  exact (fun p fx st ids s KGH PH =>
           conj (pending_enables_idle_enter p fx st ids s KGH PH)
                (fun E => ready_enables_end p fx st s (eq_ind ids (fun i => KG p st i s) KGH [] E) PH)).
Qed.

(** The defect of the pinned tree, kept as a witness: without the executionDone case a request
    ({slow bad}: a Go field whose promise is abandoned) reaches a state in which the request has
    returned, a goroutine sits at its send, and nothing can ever move again. *)
Theorem C15_no_leak_refuted_before_fix :
  exists p tr s w r, wf_items p = true /\ bfun_ok p /\ run pinned p init tr = Some s /\
                     st_phase s = PEnded /\ st_gor s w = GParked r /\
                     forall l, step pinned p s l = None.
Proof. exact leak_refuted_before_fix. Qed.

Print Assumptions C15_refines_spec.
Print Assumptions C15_delivery_exact.
Print Assumptions C15_consumed_was_produced.
Print Assumptions C15_delivered_once.
Print Assumptions C15_batch_once_per_item.
Print Assumptions C15_batch_coalesced.
Print Assumptions C15_deadlock_free.
Print Assumptions C15_terminates.
Print Assumptions C15_completes.
Print Assumptions C15_no_leak.
Print Assumptions C15_drains.
Print Assumptions C15_no_leak_refuted_before_fix.
Print Assumptions C15_response_eq_sync.
Print Assumptions C15_response_eq_sync_mutation.
Print Assumptions C15_joint_run_exists.
Print Assumptions C15_response_eq_sync_go_batch.
Print Assumptions C15_joint_round_forced.
Print Assumptions C15_joint_poll_mirrored.
Print Assumptions C15_joint_guards.
Print Assumptions C15_completes_refuted_with_ctx_drop.
Print Assumptions C15_one_reader_per_promise.
Print Assumptions C15_deadlock_refuted_when_promise_has_two_chains.
Print Assumptions C15_subscription_events_isolated.
Print Assumptions C15_subscription_batch_leak_refuted_before_fix.
Print Assumptions C15_subscription_stale_resolution_refuted_before_fix.
Print Assumptions C15_idle_round_fulfils.
Print Assumptions C15_idle_round_fair_unchained.
Print Assumptions C15_idle_round_deliveries_outstanding.
Print Assumptions C15_idle_round_is_C02_idle_transition.
Print Assumptions C15_poll_is_creates_and_consumes.
Print Assumptions C15_idle_rounds_bounded.
Print Assumptions C15_round_fairness_refuted_with_chaining.
Print Assumptions C15_handler_record_is_fair_scheduler.
Print Assumptions C15_response_eq_sync_composed.
