(** placeholder, replaced once the proofs exist *)
From ApiFu Require Import Idle.IdleModel.
Theorem C15_placeholder : init = init.
Proof. exact eq_refl. Qed.
Print Assumptions C15_placeholder.
