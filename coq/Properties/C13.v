(** * C13 — a disabled feature is indistinguishable from its elements not existing.

    Only statements, each closed by [exact]; [Print Assumptions] at the end.

    Vocabulary (Feat/FeaturesModel.v, Feat/FeaturesSpec.v):
      [schema_ok S]      the acceptance checks of schema.New (with the repairs of this property);
      [ask fixed S F q]  the answer of the code to lookup [q] in schema [S] for a request with
                         feature set [F] — [q] ranges over every place validator, executor and
                         introspection look something up in a schema (the three views);
      [erase S F]        S with every type, field, implementation link, membership and root type
                         whose requirements are not within F deleted from the registry;
      [erase_physical S F]  the same, and every type schema.New would then no longer reach from
                         the directives, root types and AdditionalTypes unregistered;
      [visible S F h]    type h is registered and its requirements are within F;
      [handle_args q]    the type pointers lookup q is applied to; [handles_of q a] the type
                         pointers answer a hands to the consumer;
      [prog A], [run]    a consumer: any program that sees the schema only through [ask] and applies
                         pointer-taking lookups only to pointers it was handed ([Forged] otherwise);
                         [run] returns the trace of lookups and the result.

    Full statement of the property (properties.jsonl):
      forall schema S, feature set F, query q (incl. introspection probing by name):
        response(S, F, q) == response(erase(S, F), all-features, q)
        and the call log of gated resolvers is empty.
    What is proved of it, for all S, F, G ⊇ F without any bound:
      - [C13_view_erase_eq], [C13_view_closed]: every single lookup of the three views answers the
        same, and hands out only visible types (stage 1: field / type lookup, introspection listings
        incl. by-name lookup, interfaces, possibleTypes; stage 2: abstract-type resolution, spread
        possibility, fragment applicability);
      - [C13_noninterference]: hence EVERY consumer program computes the same result with the same
        trace — validation, execution and introspection are such programs as far as they use the
        schema only through these lookups (which is what the differential correspondence check
        tests on the real code);
      - [C13_gated_never_called]: every field definition GetField hands out exists unchanged in
        the reduced schema, so a resolver of a deleted element is never invoked;
      - [C13_feature_validate_eq]: validation of EVERY document (arguments, variables, directives,
        value literals, equal response keys and the field-merging rule included) has the same
        verdict on (S, F) and on the erased schema — stated on C04's complete validator model
        ([validate_model repaired]), proved from its definitions ([C13_C04_validate_eq] and its parts);
      - [C13_feature_exec_eq]: execution of every request (operation selection, variable coercion,
        arguments, directives, fragments, merging, null propagation) returns the same — stated on
        C01's complete executor model ([ArgModel.run_request fixed]), to which the request's feature
        set is presented as the F-view of the schema ([C13_C01_view_eq], [C13_C01_run_request_eq]);
      - [C13_feature_introspect_eq]: every introspection lookup answers the same;
      - [C13_chain_validate_eq], [C13_chain_exec_eq], [C13_selection_set_validate_eq],
        [C13_selection_set_exec_eq], [C13_chain_consumers_disciplined],
        [C13_set_consumers_disciplined], [C13_selection_set_fuel_suffices]: the same equations for
        this property's own transcriptions of validator and executor as programs over the lookups
        (chain documents; selection sets with aliases, inline and named fragments, equal response
        keys) — complete statements about those programs, which never forge a type pointer and
        never run out of fuel; they are what the correspondence check runs against the real code on
        every case;
      - [C13_feature_pipeline_eq], [C13_feature_subscription_eq]: graphql.Execute and
        graphql.Subscribe from the BYTES of the request, on the composed pipeline of C03 (parser,
        ParseAndValidate with the checked-pairs memo, variable and argument coercion, executor; for
        Subscribe the subscribe step: one root field, GetField, argument coercion, the resolver call
        yielding the source stream) — every request text, every document; each event of a
        subscription is one [C13_feature_pipeline_eq] run; [C13_subscription_exec_eq]: the instance
        for this property's own transcribed program;
      - [C13_reachable_fuel_suffices], [C13_erase_physical_registry],
        [C13_exclusion_means_still_reached]: what schema.New registers is the least closed set
        containing the roots (the fuel of [reachable] always suffices);
      - [C13_noninterference_physical] / [C13_orphaned_type_refuted]: the same for erasure followed
        by schema.New's own registration, under the exclusion of the known finding
        orphaned-type-stays-visible, and the witness that it fails without the exclusion;
      - [C13_chain_consumers_disciplined]: those transcribed consumers never forge a pointer;
      - [C13_erase_schema_ok]: the reduced schema is itself one that schema.New accepts;
      - [C13_enabling_is_monotone]: erase (erase S F') F = erase S F for F ⊆ F';
      - [C13_enabling_shows_everything]: with every feature enabled nothing is deleted. *)
From Coq Require Import String List NArith.
From ApiFu Require Import Base.Sexp Feat.FeaturesModel Feat.FeaturesSpec Feat.FeaturesProofs Feat.FeaturesReach
  Feat.FeaturesDocModel Feat.FeaturesDocProofs Feat.FeaturesFuelProofs.
From ApiFu Require Vld.Ast Vld.Inspect Vld.TypeInfoModel Vld.ValidatorModel Vld.ProofsCommon Vld.Witness Feat.FeaturesVld Feat.FeaturesVldRules
  Val.Values ExeA.ArgData ExeA.ArgModel Feat.FeaturesExe Pipe.Compose Pipe.SubscribeCompose Feat.FeaturesPipe.
Import ListNotations.
Open Scope string_scope.
Open Scope list_scope.

(** every lookup, applied to pointers the request may hold, answers the same on (S, F) and on the
    physically reduced schema with any feature set G ⊇ F (in particular all features) *)
Theorem C13_view_erase_eq : forall S F G q,
  schema_ok S = true -> subset F G = true ->
  (forall h, In h (handle_args q) -> visible S F h = true) ->
  ask fixed S F q = ask fixed (erase S F) G q.
Proof. exact view_erase_eq. Qed.

(** ... and hands out only types the request may see (so the premise above is an invariant) *)
Theorem C13_view_closed : forall S F q,
  schema_ok S = true ->
  (forall h, In h (handle_args q) -> visible S F h = true) ->
  forall h, In h (handles_of q (ask fixed S F q)) -> visible S F h = true.
Proof. exact view_closed. Qed.

(** the three views separately: [view_x fixed S F] is the partial function of the lookups consumer x
    makes; [view_equiv S F v1 v2]: v1 and v2 agree on every lookup applied to visible pointers.
    view_validator: root types, validator namedType, kind, GetField, getPossibleTypes, enum values,
    input fields, directive lookup.  view_executor: root types, executor namedType, kind, GetField,
    abstract-type candidates, doesFragmentTypeApply, enum values, input fields, directive lookup. *)
Theorem C13_view_validator_erase_eq : forall S F G,
  schema_ok S = true -> subset F G = true ->
  view_equiv S F (view_validator fixed S F) (view_validator fixed (erase S F) G).
Proof. exact view_validator_erase_eq. Qed.

Theorem C13_view_executor_erase_eq : forall S F G,
  schema_ok S = true -> subset F G = true ->
  view_equiv S F (view_executor fixed S F) (view_executor fixed (erase S F) G).
Proof. exact view_executor_erase_eq. Qed.

(** feature_introspect_eq — view_introspection: types list, __type(name:), kind, fields,
    interfaces, possibleTypes, enumValues, inputFields, root types, directives *)
Theorem C13_feature_introspect_eq : forall S F G,
  schema_ok S = true -> subset F G = true ->
  view_equiv S F (view_introspection fixed S F) (view_introspection fixed (erase S F) G).
Proof. exact view_introspection_erase_eq. Qed.

(** every consumer program: same result, same trace of lookups *)
Theorem C13_noninterference : forall (A : Type) (p : prog A) S F G,
  schema_ok S = true -> subset F G = true ->
  run fixed S F [] p = run fixed (erase S F) G [] p.
Proof. exact @noninterference. Qed.

Theorem C13_noninterference_all_features : forall (A : Type) (p : prog A) S F,
  schema_ok S = true ->
  run fixed S F [] p = run fixed (erase S F) (F ++ all_features S) [] p.
Proof. exact @noninterference_all_features. Qed.

(** a resolver of a gated field / of a field of a gated type is never invoked: the field
    definitions GetField hands out during any run all exist, unchanged, in the reduced schema *)
Theorem C13_gated_never_called : forall (A : Type) (p : prog A) S F t f fd,
  schema_ok S = true ->
  In (t, f, fd) (resolved_fields (fst (run fixed S F [] p))) ->
  exists x, lookup (erase S F) t = Some x /\ assoc f (fields_of x) = Some fd.
Proof. exact @gated_never_called. Qed.

(** the equations for this property's own transcription of validator and executor on chain
    documents (one selection per selection set), as programs over the lookups: complete statements
    about those programs (the statements for every document are [C13_feature_validate_eq] and
    [C13_feature_exec_eq] below) *)
Theorem C13_chain_validate_eq : forall S F G c,
  schema_ok S = true -> subset F G = true ->
  run fixed S F [] (chain_validate c) = run fixed (erase S F) G [] (chain_validate c).
Proof. exact (fun S F G c => noninterference (chain_validate c) S F G). Qed.

Theorem C13_chain_exec_eq : forall S F G c,
  schema_ok S = true -> subset F G = true ->
  run fixed S F [] (chain_prog c) = run fixed (erase S F) G [] (chain_prog c).
Proof. exact (fun S F G c => noninterference (chain_prog c) S F G). Qed.

(** the transcribed consumers are programs of the disciplined kind: they never present a type
    pointer they were not handed, on any schema (so the two instances above are never the trivial
    equation Forged = Forged) *)
Theorem C13_chain_consumers_disciplined : forall fx S F c,
  (exists r, snd (run fx S F [] (chain_validate c)) = Done r) /\
  (exists r, snd (run fx S F [] (chain_prog c)) = Done r).
Proof. exact (fun fx S F c => conj (chain_validate_disciplined fx S F c) (chain_prog_disciplined fx S F c)). Qed.

(** the same for documents made of selection SETS (Feat/FeaturesDocModel.v): any number of
    selections per selection set, response keys (aliases), __typename, inline fragments with and
    without type condition, named fragments spread any number of times; validator: field lookup,
    leaf / composite subselection rule, type conditions, spread possibility against the scope
    (getPossibleTypes); executor: collectFields with visitedFragments and doesFragmentTypeApply,
    GetField, grouping of equal response keys and merged selection sets, abstract-type resolution,
    completion with null propagation — for every fuel.  Complete statements about these programs;
    arguments, variables, directives and the field-merging RULE are not part of them (they are part
    of C04's / C01's models: [C13_feature_validate_eq], [C13_feature_exec_eq]). *)
Theorem C13_selection_set_validate_eq : forall S F G d,
  schema_ok S = true -> subset F G = true ->
  run fixed S F [] (sdoc_validate d) = run fixed (erase S F) G [] (sdoc_validate d).
Proof. exact sets_validate_eq. Qed.

Theorem C13_selection_set_exec_eq : forall S F G fuel d,
  schema_ok S = true -> subset F G = true ->
  run fixed S F [] (sdoc_prog fuel d) = run fixed (erase S F) G [] (sdoc_prog fuel d).
Proof. exact sets_exec_eq. Qed.

(** those consumers never forge a type pointer either, on any schema, document and fuel: every
    pointer-taking lookup they make is applied to a pointer an earlier answer handed out (the
    executor's by-name lookup of a type condition: to a name the validator resolved) *)
Theorem C13_set_consumers_disciplined : forall fx S F fuel d,
  (exists r, snd (run fx S F [] (sdoc_validate d)) = Done r) /\
  (exists r, snd (run fx S F [] (sdoc_prog fuel d)) = Done r).
Proof. exact (fun fx S F fuel d => conj (sdoc_validate_disciplined fx S F d) (sdoc_prog_disciplined fx S F fuel d)). Qed.

(** the fuel of the selection-set executor suffices: [fitsb frs n l] says that the selection set
    nests at most n levels of fields, inline fragments and expansions of named fragments (such an n
    exists exactly when no fragment below the operation spreads itself — the validator's cycle
    rule); then no run with at least n + 2 units of fuel ends in "out of fuel" ([Some None]), on
    any schema, feature set and repair state.  Together with [C13_selection_set_exec_eq]:
    the equation is never the vacuous "out of fuel = out of fuel" for such documents.  The
    correspondence check evaluates [fitsb] with n = sdoc_fuel d - 2 on every case. *)
Theorem C13_selection_set_fuel_suffices : forall fx S F d n fuel,
  fitsb (d_frags d) n (d_sels d) = true -> n + 2 <= fuel ->
  exists errs r, snd (run fx S F [] (sdoc_prog fuel d)) = Done (errs, r) /\ r <> Some None.
Proof. exact sdoc_fuel_suffices. Qed.

(** a subscription served over a WebSocket connection (subscribe once, then every event of the
    source stream executes the selection set on the subscription type): this property's own
    transcription as a program over the lookups — a complete statement about that program; the
    statement for every document is [C13_feature_subscription_eq] below *)
Theorem C13_subscription_exec_eq : forall S F G fuel events d,
  schema_ok S = true -> subset F G = true ->
  run fixed S F [] (ssub_prog fuel events d) = run fixed (erase S F) G [] (ssub_prog fuel events d).
Proof. exact subscription_eq. Qed.

(** the subscription program is disciplined as well *)
Theorem C13_subscription_consumer_disciplined : forall fx S F fuel events d,
  exists r, snd (run fx S F [] (ssub_prog fuel events d)) = Done r.
Proof. exact ssub_prog_disciplined. Qed.

(** request feature-set plumbing as the code does it ([ws_effective], FeaturesSpec.v): a WebSocket
    connection takes Config.Features(ctx) once, at connection_init; afterwards no change of what
    that function would answer reaches the operations and subscription events of the connection
    (checked against graphql-ws and graphql-transport-ws sessions whose environment changes right
    after the acknowledgement) *)
Theorem C13_ws_features_fixed_at_init : forall h env F,
  (forall st, In st h -> is_init st = false) ->
  forall o, In o (ws_effective env (Some F) h) -> o = Some F.
Proof. exact ws_frozen. Qed.

(** with Config.HandleGraphQLWSInit: the connection runs with Features(context the hook returned for
    the LATEST accepted connection_init) — every operation after the last init [PInitWith f] of a
    history runs with f (checked against sessions of both subprotocols that send two inits granting
    different sets in their payloads) *)
Theorem C13_ws_features_of_latest_init : forall h1 f h2 env conn,
  (forall st, In st h2 -> is_init st = false) ->
  forall o, In o (ws_effective env conn (h1 ++ PInitWith f :: h2)) ->
  In o (ws_effective env conn h1) \/ o = Some f.
Proof. exact ws_latest_init. Qed.

(** ** composition with C04's validator model (coq/Vld, imported read-only; Feat/FeaturesVld.v,
    Feat/FeaturesVldRules.v)

    C04's [validate_model q pi S F D] takes the feature set and does its own gating.  For [vok S]
    (the feature rules of schema.New in C04's vocabulary; evaluated by the check on every schema
    the real schema.New accepted), F ⊆ G, a map-iteration order [pi] that is a permutation and the
    repaired validator ([q_impl_features q = true]: getPossibleTypes lists only implementations the
    request can see — on in C04's [repaired]), proved from C04's definitions for EVERY document
    (arguments, variables, directives, value literals, equal response keys and the field-merging
    rule included):

        validate_model q pi (verase S F) G D = validate_model q pi S F D        ([C13_C04_validate_eq])

    For the pinned getPossibleTypes (filter off) the equation holds exactly as far as no
    implementation listed for a visible interface is gated ([C13_C04_validate_eq_no_gated_impls])
    and fails otherwise ([C13_C04_spread_rule_refuted_before_fix]: the C13 witness of defect #30 in
    C04's encoding; [C13_C04_spread_rule_after_fix]: the same instance with the repair).
    The parts, each a theorem of its own:
      - [C13_C04_type_info_eq]: NewTypeInfo fills every slot alike;
      - [C13_C04_slots_visible]: every slot of the annotated document (selection-set scope, field
        definition, expected type of a value, variable type) holds only types visible to F;
      - [C13_C04_small_rule_groups], [C13_C04_variables_rule], [C13_C04_fields_rule] (both passes,
        the second being the field-merging rule), [C13_C04_values_rule]: the rule groups answer
        alike, for every quirk setting. *)
Theorem C13_C04_type_info_eq : forall (S : Vld.Ast.schema) (F G : Vld.Ast.features) q (D : Vld.Ast.document),
  FeaturesVld.vok S = true -> Vld.Ast.subset F G = true ->
  TypeInfoModel.type_info q (FeaturesVld.verase S F) G D = TypeInfoModel.type_info q S F D.
Proof. exact (fun S F G q D Hok HFG => FeaturesVld.type_info_erase S F G Hok HFG q D). Qed.

Theorem C13_C04_small_rule_groups : forall (S : Vld.Ast.schema) (F G : Vld.Ast.features) q pi (A : Vld.Ast.document),
  FeaturesVld.vok S = true -> Vld.Ast.subset F G = true ->
  ValidatorModel.rule_fragment_declarations pi (FeaturesVld.verase S F) G A
  = ValidatorModel.rule_fragment_declarations pi S F A /\
  ValidatorModel.rule_arguments q pi (FeaturesVld.verase S F) A = ValidatorModel.rule_arguments q pi S A /\
  ValidatorModel.rule_directives q (FeaturesVld.verase S F) A = ValidatorModel.rule_directives q S A.
Proof. exact (fun S F G q pi A Hok HFG => FeaturesVld.rules_small_erase S F G Hok HFG q pi A). Qed.

(** validateVariables reads the schema only for the input-type test of a variable's resolved type,
    a slot NewTypeInfo fills with types visible to F: on the annotated document it answers alike *)
Theorem C13_C04_variables_rule : forall (S : Vld.Ast.schema) (F G : Vld.Ast.features) q pi (D A : Vld.Ast.document),
  FeaturesVld.vok S = true -> Vld.Ast.subset F G = true ->
  TypeInfoModel.type_info q S F D = Some A ->
  ValidatorModel.rule_variables pi (FeaturesVld.verase S F) A = ValidatorModel.rule_variables pi S A.
Proof. exact (fun S F G q pi D A Hok HFG => FeaturesVld.rule_variables_erase S F G Hok HFG q pi D A). Qed.

Theorem C13_C04_slots_visible : forall (S : Vld.Ast.schema) (F G : Vld.Ast.features) q (D A : Vld.Ast.document),
  FeaturesVld.vok S = true -> Vld.Ast.subset F G = true ->
  TypeInfoModel.type_info q S F D = Some A ->
  forall n, In n (Inspect.tree_nodes (Inspect.tree_doc A)) -> FeaturesVldRules.wa_node S F n.
Proof. exact (fun S F G q D A Hok HFG TI => FeaturesVldRules.type_info_nodes_ok S F G Hok HFG q D A TI). Qed.

Theorem C13_C04_fields_rule : forall (S : Vld.Ast.schema) (F G : Vld.Ast.features) pi q (D A : Vld.Ast.document),
  FeaturesVld.vok S = true -> Vld.Ast.subset F G = true -> ProofsCommon.order_ok pi ->
  TypeInfoModel.type_info (ValidatorModel.q_unwrap_obj q) S F D = Some A ->
  ValidatorModel.rule_fields q pi (FeaturesVld.verase S F) G A = ValidatorModel.rule_fields q pi S F A.
Proof.
  exact (fun S F G pi q D A Hok HFG Hpi TI =>
           FeaturesVldRules.rule_fields_erase S F G Hok HFG pi Hpi q A
             (FeaturesVldRules.type_info_nodes_ok S F G Hok HFG _ D A TI)).
Qed.

Theorem C13_C04_values_rule : forall (S : Vld.Ast.schema) (F G : Vld.Ast.features) pi q (D A : Vld.Ast.document),
  FeaturesVld.vok S = true -> Vld.Ast.subset F G = true ->
  TypeInfoModel.type_info (ValidatorModel.q_unwrap_obj q) S F D = Some A ->
  ValidatorModel.rule_values q pi (FeaturesVld.verase S F) A = ValidatorModel.rule_values q pi S A.
Proof.
  exact (fun S F G pi q D A Hok HFG TI =>
           FeaturesVldRules.rule_values_erase S F Hok pi q A
             (FeaturesVldRules.type_info_nodes_ok S F G Hok HFG _ D A TI)).
Qed.

Theorem C13_C04_validate_eq : forall (S : Vld.Ast.schema) (F G : Vld.Ast.features) pi q (D : Vld.Ast.document),
  FeaturesVld.vok S = true -> Vld.Ast.subset F G = true -> ProofsCommon.order_ok pi ->
  ValidatorModel.q_impl_features q = true ->
  ValidatorModel.validate_model q pi (FeaturesVld.verase S F) G D = ValidatorModel.validate_model q pi S F D.
Proof. exact (fun S F G pi q D => FeaturesVldRules.validate_eq_repaired S F G pi q D). Qed.

Theorem C13_C04_validate_eq_no_gated_impls : forall (S : Vld.Ast.schema) (F G : Vld.Ast.features) pi q (D : Vld.Ast.document),
  FeaturesVld.vok S = true -> Vld.Ast.subset F G = true -> ProofsCommon.order_ok pi ->
  ValidatorModel.q_impl_features q = false -> FeaturesVldRules.impls_visible S F ->
  ValidatorModel.validate_model q pi (FeaturesVld.verase S F) G D = ValidatorModel.validate_model q pi S F D.
Proof. exact (fun S F G pi q D => FeaturesVldRules.validate_eq_no_gated_impls S F G pi q D). Qed.

Theorem C13_C04_spread_rule_refuted_before_fix :
  FeaturesVld.vok FeaturesVld.VW = true /\ Vld.Ast.subset nil (cons FeaturesVld.vfa nil) = true /\
  ValidatorModel.q_impl_features Witness.before_fix_30 = false /\
  ValidatorModel.validate_model Witness.before_fix_30 ValidatorModel.id_order FeaturesVld.VW nil FeaturesVld.VD
  = Vld.Ast.Done nil /\
  ValidatorModel.validate_model Witness.before_fix_30 ValidatorModel.id_order
      (FeaturesVld.verase FeaturesVld.VW nil) (cons FeaturesVld.vfa nil) FeaturesVld.VD
  = Vld.Ast.Done (cons {| Vld.Ast.e_locs := cons (FeaturesVld.vp 1%N 14%N) nil; Vld.Ast.e_sec := false;
                          Vld.Ast.e_kind := Vld.Ast.ESpreadImpossible |} nil) /\
  TypeInfoModel.type_info true FeaturesVld.VW nil FeaturesVld.VD
  = TypeInfoModel.type_info true (FeaturesVld.verase FeaturesVld.VW nil) (cons FeaturesVld.vfa nil) FeaturesVld.VD.
Proof. exact FeaturesVld.spreads_refuted_before_fix. Qed.

Theorem C13_C04_spread_rule_after_fix :
  ValidatorModel.validate_model ValidatorModel.repaired ValidatorModel.id_order FeaturesVld.VW nil FeaturesVld.VD
  = Vld.Ast.Done (cons {| Vld.Ast.e_locs := cons (FeaturesVld.vp 1%N 14%N) nil; Vld.Ast.e_sec := false;
                          Vld.Ast.e_kind := Vld.Ast.ESpreadImpossible |} nil) /\
  ValidatorModel.validate_model ValidatorModel.repaired ValidatorModel.id_order
      (FeaturesVld.verase FeaturesVld.VW nil) (cons FeaturesVld.vfa nil) FeaturesVld.VD
  = ValidatorModel.validate_model ValidatorModel.repaired ValidatorModel.id_order FeaturesVld.VW nil FeaturesVld.VD /\
  ValidatorModel.validate_model ValidatorModel.repaired ValidatorModel.id_order FeaturesVld.VW (cons FeaturesVld.vfa nil) FeaturesVld.VD
  = Vld.Ast.Done nil.
Proof. exact FeaturesVld.spreads_after_fix. Qed.

(** ** the bridge to C01's executor model (coq/ExeA: the tied model with field arguments through C05's
    coercion; imported read-only; Feat/FeaturesExe.v)

    C01's model has no feature parameter; what the executor does with a request's feature set is
    handed to it as a schema: [FeaturesExe.view leaf inp adefs dt S F] — the types, fields,
    implemented interfaces, union members and root types the request may see, the argument
    definitions of the visible fields of visible object types, the input types the request may see
    ([leaf], [inp], [adefs], [dt]: how scalars and enums, input types, a field's argument
    definitions and the DateTime table are presented to C01 / C05; arbitrary, erasure does not
    touch what they describe).  The F-view of S is literally the G-view of the erased schema, so
    C01's whole request pipeline (operation selection, variable coercion, execution) returns the same
    on both.  That the real executor on (S, F) behaves as C01's model on the F-view is tied by this
    property's check: its selection-set documents are also run through [ArgModel.run_request] on
    the F-view and compared with the real response (Feat/FeaturesCheck.v). *)
Theorem C13_C01_view_eq : forall leaf inp adefs dt S F G,
  schema_ok S = true -> subset F G = true ->
  FeaturesExe.view leaf inp adefs dt (erase S F) G = FeaturesExe.view leaf inp adefs dt S F.
Proof. exact FeaturesExe.view_erase. Qed.

Theorem C13_C01_run_request_eq : forall leaf inp adefs dt S F G M R opname raw fuel W,
  schema_ok S = true -> subset F G = true ->
  ArgModel.run_request M (FeaturesExe.view leaf inp adefs dt (erase S F) G) R opname raw fuel W
  = ArgModel.run_request M (FeaturesExe.view leaf inp adefs dt S F) R opname raw fuel W.
Proof.
  exact (fun leaf inp adefs dt S F G M R opname raw fuel W Hok HFG =>
           FeaturesExe.exe_view_run_request leaf inp adefs dt S F G Hok HFG M R opname raw fuel W).
Qed.

(** ** the property's validation and execution clauses at full strength, through the compositions

    feature_validate_eq: ParseAndValidate(d, S, F) = ParseAndValidate(d, erase(S, F), G) for EVERY
    document d, on C04's complete model of the repaired validator (all rule groups, the primary /
    secondary filter, panics and fuel included in the compared outcome).  [vok]: the feature rules
    of schema.New in C04's vocabulary, evaluated by the check on every schema the real schema.New
    accepted; [order_ok pi]: Go's map iteration order is some permutation. *)
Theorem C13_feature_validate_eq : forall (S : Vld.Ast.schema) (F G : Vld.Ast.features) pi (D : Vld.Ast.document),
  FeaturesVld.vok S = true -> Vld.Ast.subset F G = true -> ProofsCommon.order_ok pi ->
  ValidatorModel.validate_model ValidatorModel.repaired pi (FeaturesVld.verase S F) G D
  = ValidatorModel.validate_model ValidatorModel.repaired pi S F D.
Proof.
  exact (fun S F G pi D Hok HFG Hpi =>
           FeaturesVldRules.validate_eq_repaired S F G pi ValidatorModel.repaired D Hok HFG Hpi eq_refl).
Qed.

(** feature_exec_eq: Execute(request, S, F) = Execute(request, erase(S, F), G) for EVERY request —
    operation selection, variable coercion, arguments, @skip / @include, fragments, equal response
    keys, abstract types, null propagation, errors with paths and locations — on C01's complete
    model of the repaired executor, the request's feature set being presented to it as the F-view
    of the schema ([FeaturesExe.view]; the check runs this model on the F-view against the real
    executor under Request.Features for every valid selection-set document). *)
Theorem C13_feature_exec_eq : forall leaf inp adefs dt S F G R opname raw fuel W,
  schema_ok S = true -> subset F G = true ->
  ArgModel.run_request ArgModel.fixed (FeaturesExe.view leaf inp adefs dt (erase S F) G) R opname raw fuel W
  = ArgModel.run_request ArgModel.fixed (FeaturesExe.view leaf inp adefs dt S F) R opname raw fuel W.
Proof.
  exact (fun leaf inp adefs dt S F G R opname raw fuel W Hok HFG =>
           FeaturesExe.exe_view_run_request leaf inp adefs dt S F G Hok HFG ArgModel.fixed R opname raw fuel W).
Qed.

(** ** ... and from the bytes of the request, on the composed pipeline of C03 (coq/Pipe, read-only)

    [Compose.pipeline_order pi VS F ES bs opname raw W] = graphql.Execute on the request text [bs]
    (parser, ParseAndValidate with the checked-pairs memo on the validator's schema VS with feature
    set F, ExecuteRequest on the executor's schema ES); [SubscribeCompose.subscribe_order] =
    graphql.Subscribe: the same front half, then the subscribe step (GetOperation, variable
    coercion, a subscription operation, collectFields on the subscription type, exactly one
    response key, GetField, argument coercion, the resolver call that yields the source stream).
    Each event of the stream is one [pipeline_order] run.  VS: the schema as C04 sees it ([vok]); S:
    the schema presented to the executor as its F-view. *)
Theorem C13_feature_pipeline_eq : forall leaf inp adefs dt pi (VS : Vld.Ast.schema) S F G bs opname raw W,
  ProofsCommon.order_ok pi -> FeaturesVld.vok VS = true -> schema_ok S = true -> subset F G = true ->
  Compose.pipeline_order pi (FeaturesVld.verase VS F) G (FeaturesExe.view leaf inp adefs dt (erase S F) G) bs opname raw W
  = Compose.pipeline_order pi VS F (FeaturesExe.view leaf inp adefs dt S F) bs opname raw W.
Proof.
  exact (fun leaf inp adefs dt pi VS S F G bs opname raw W Hpi Hvok Hok HFG =>
           FeaturesPipe.pipeline_eq leaf inp adefs dt pi Hpi VS S F G Hvok Hok HFG bs opname raw W).
Qed.

Theorem C13_feature_subscription_eq : forall leaf inp adefs dt pi (VS : Vld.Ast.schema) S F G bs opname raw W,
  ProofsCommon.order_ok pi -> FeaturesVld.vok VS = true -> schema_ok S = true -> subset F G = true ->
  SubscribeCompose.subscribe_order pi (FeaturesVld.verase VS F) G (FeaturesExe.view leaf inp adefs dt (erase S F) G) bs opname raw W
  = SubscribeCompose.subscribe_order pi VS F (FeaturesExe.view leaf inp adefs dt S F) bs opname raw W.
Proof.
  exact (fun leaf inp adefs dt pi VS S F G bs opname raw W Hpi Hvok Hok HFG =>
           FeaturesPipe.subscribe_eq leaf inp adefs dt pi Hpi VS S F G Hvok Hok HFG bs opname raw W).
Qed.

(** the reference exists: the reduced schema is accepted by schema.New *)
Theorem C13_erase_schema_ok : forall S F, schema_ok S = true -> schema_ok (erase S F) = true.
Proof. exact erase_schema_ok. Qed.

(** enabling every feature makes everything appear: nothing is deleted *)
Theorem C13_enabling_shows_everything : forall S G,
  schema_ok S = true -> subset (all_features S) G = true -> erase S G = S.
Proof. exact erase_all. Qed.

(** ... and enabling some features makes exactly the elements appear whose requirements have become
    satisfied: the view with fewer features is the erasure of the view with more *)
Theorem C13_enabling_is_monotone : forall S F F',
  schema_ok S = true -> subset F F' = true -> erase (erase S F') F = erase S F.
Proof. exact (fun S F F' Hok => erase_erase S F F' (ok_nodup S Hok)). Qed.

(** ** erasure as a developer performs it: delete the gated elements from the SchemaDefinition and
    call schema.New again, which registers only what it still reaches ([erase_physical]).
    Known finding [orphaned-type-stays-visible]: a type that itself needs no feature but is
    referred to only by gated elements (the PageInfo type of a single gated apifu.Connection) stays
    listed and resolvable by name for requests without the feature, while the physically reduced
    definition does not contain it.  The property holds for physical erasure under the explicit
    exclusion of that situation, and is refuted without it. *)
Theorem C13_noninterference_physical : forall (A : Type) (p : prog A) S F G,
  schema_ok S = true -> subset F G = true -> excl_orphaned_type S F = false ->
  run fixed S F [] p = run fixed (erase_physical S F) G [] p.
Proof. exact @noninterference_physical. Qed.

(** [reachable] (what schema.New registers; an iteration with fuel = number of types) computes
    exactly the least set of names that contains the roots - directive argument types, root
    operation types, AdditionalTypes - and is closed under the references of registered types
    ([reaches], an inductive predicate): the fuel always suffices. *)
Theorem C13_reachable_fuel_suffices : forall S n,
  schema_ok S = true -> (In n (reachable S) <-> reaches S n).
Proof. exact (fun S n H => reachable_iff S H n). Qed.

(** hence the registry of the physically reduced schema, without any fuel: *)
Theorem C13_erase_physical_registry : forall S F n,
  schema_ok S = true ->
  (In n (map fst (types (erase_physical S F))) <-> reaches (erase S F) n).
Proof. exact erase_physical_registry. Qed.

(** the exclusion of the known finding says: every type the request may see is still reached from
    the roots of the reduced definition *)
Theorem C13_exclusion_means_still_reached : forall S F,
  schema_ok S = true ->
  (excl_orphaned_type S F = false <-> forall n, visible S F n = true -> reaches (erase S F) n).
Proof. exact excl_orphaned_spec. Qed.

Theorem C13_noninterference_physical_declarative : forall (A : Type) (p : prog A) S F G,
  schema_ok S = true -> subset F G = true ->
  (forall n, visible S F n = true -> reaches (erase S F) n) ->
  run fixed S F [] p = run fixed (erase_physical S F) G [] p.
Proof. exact @noninterference_physical_reaches. Qed.

Theorem C13_orphaned_type_refuted :
  schema_ok W_orphan = true /\ excl_orphaned_type W_orphan [] = true /\
  map fst (types (erase W_orphan [])) = [nm "Int"; nm "T"; nm "Query"] /\
  map fst (types (erase_physical W_orphan [])) = [nm "Int"; nm "Query"] /\
  ask fixed W_orphan [] QIntroTypes <> ask fixed (erase_physical W_orphan []) [fa] QIntroTypes /\
  ask fixed W_orphan [] (QIntroType (nm "T")) <> ask fixed (erase_physical W_orphan []) [fa] (QIntroType (nm "T")) /\
  ask fixed W_orphan [] (QNamedV (nm "T")) <> ask fixed (erase_physical W_orphan []) [fa] (QNamedV (nm "T")).
Proof. exact orphan_refuted. Qed.

(** ** the pinned tree violated the property at each of the repaired places (witnesses replayed
    against the real code by the harness's witness cases) *)

(** defect 17: __type(name:), interfaces and possibleTypes ignored the request's features *)
Theorem C13_introspection_refuted_before_fix :
  schema_ok W = true /\ subset [] [fa] = true /\
  visible W [] (nm "A") = true /\ visible W [] (nm "I") = true /\
  ask pinned_intro W [] (QIntroType (nm "G")) <> ask pinned_intro (erase W []) [fa] (QIntroType (nm "G")) /\
  ask pinned_intro W [] (QIntroInterfaces (nm "A")) <> ask pinned_intro (erase W []) [fa] (QIntroInterfaces (nm "A")) /\
  ask pinned_intro W [] (QIntroPossible (nm "I")) <> ask pinned_intro (erase W []) [fa] (QIntroPossible (nm "I")).
Proof. exact intro_refuted_before_fix. Qed.

(** defect 30a: { i { ... on J { y } } } validates although the only common implementation is gated *)
Theorem C13_spread_refuted_before_fix :
  schema_ok W = true /\
  snd (run pinned_spread W [] [] (chain_validate spread_chain)) = Done [] /\
  snd (run pinned_spread (erase W []) [fa] [] (chain_validate spread_chain)) = Done [1%nat].
Proof. exact spread_refuted_before_fix. Qed.

(** defect 30b: { i { x } } resolves the object through the gated implementation and invokes G.x *)
Theorem C13_resolution_refuted_before_fix :
  schema_ok W = true /\
  (exists fd, In (nm "G", nm "x", fd) (resolved_fields (fst (run pinned_resolve W [] [] (chain_prog resolve_chain))))) /\
  has_field (erase W []) (nm "G") (nm "x") = false /\
  snd (run pinned_resolve W [] [] (chain_prog resolve_chain)) <>
  snd (run pinned_resolve (erase W []) [fa] [] (chain_prog resolve_chain)).
Proof. exact resolve_refuted_before_fix. Qed.

(** new: a gated root operation type was accepted and served *)
Theorem C13_root_type_refuted_before_fix :
  schema_ok_gen pinned_roots W_root = true /\
  ask pinned_roots W_root [] (QRoot RMutation) <> ask pinned_roots (erase W_root []) [fa] (QRoot RMutation) /\
  schema_ok W_root = false.
Proof. exact roots_refuted_before_fix. Qed.

(** new: a directive argument of a gated type was accepted and handed to every request *)
Theorem C13_directive_argument_refuted_before_fix :
  schema_ok_gen pinned_dirs W_dir = true /\
  In (nm "E") (handles_of QDirectives (ask pinned_dirs W_dir [] QDirectives)) /\
  visible W_dir [] (nm "E") = false /\
  schema_ok W_dir = false.
Proof. exact dirs_refuted_before_fix. Qed.

(** a limit of the code that exists, not a defect: the executor's own by-name lookup is
    feature-blind; it is only ever applied to type conditions the validator resolved (that is the
    discipline [run] imposes on QNamedE, and why the premise of [C13_view_erase_eq] is needed) *)
Theorem C13_executor_lookup_needs_validated_name :
  schema_ok W = true /\
  ask fixed W [] (QNamedE (nm "G")) <> ask fixed (erase W []) [fa] (QNamedE (nm "G")) /\
  ask fixed W [] (QNamedV (nm "G")) = ask fixed (erase W []) [fa] (QNamedV (nm "G")).
Proof. exact exec_lookup_blind. Qed.

Print Assumptions C13_view_erase_eq.
Print Assumptions C13_view_closed.
Print Assumptions C13_view_validator_erase_eq.
Print Assumptions C13_view_executor_erase_eq.
Print Assumptions C13_feature_introspect_eq.
Print Assumptions C13_noninterference.
Print Assumptions C13_noninterference_all_features.
Print Assumptions C13_gated_never_called.
Print Assumptions C13_chain_validate_eq.
Print Assumptions C13_chain_exec_eq.
Print Assumptions C13_chain_consumers_disciplined.
Print Assumptions C13_selection_set_validate_eq.
Print Assumptions C13_selection_set_exec_eq.
Print Assumptions C13_set_consumers_disciplined.
Print Assumptions C13_selection_set_fuel_suffices.
Print Assumptions C13_subscription_exec_eq.
Print Assumptions C13_subscription_consumer_disciplined.
Print Assumptions C13_ws_features_fixed_at_init.
Print Assumptions C13_ws_features_of_latest_init.
Print Assumptions C13_C04_type_info_eq.
Print Assumptions C13_C04_small_rule_groups.
Print Assumptions C13_C04_variables_rule.
Print Assumptions C13_C04_slots_visible.
Print Assumptions C13_C04_fields_rule.
Print Assumptions C13_C04_values_rule.
Print Assumptions C13_C04_validate_eq.
Print Assumptions C13_C04_validate_eq_no_gated_impls.
Print Assumptions C13_C01_view_eq.
Print Assumptions C13_C01_run_request_eq.
Print Assumptions C13_feature_validate_eq.
Print Assumptions C13_feature_exec_eq.
Print Assumptions C13_feature_pipeline_eq.
Print Assumptions C13_feature_subscription_eq.
Print Assumptions C13_C04_spread_rule_refuted_before_fix.
Print Assumptions C13_C04_spread_rule_after_fix.
Print Assumptions C13_erase_schema_ok.
Print Assumptions C13_enabling_is_monotone.
Print Assumptions C13_enabling_shows_everything.
Print Assumptions C13_noninterference_physical.
Print Assumptions C13_reachable_fuel_suffices.
Print Assumptions C13_erase_physical_registry.
Print Assumptions C13_exclusion_means_still_reached.
Print Assumptions C13_noninterference_physical_declarative.
Print Assumptions C13_orphaned_type_refuted.
Print Assumptions C13_introspection_refuted_before_fix.
Print Assumptions C13_spread_refuted_before_fix.
Print Assumptions C13_resolution_refuted_before_fix.
Print Assumptions C13_root_type_refuted_before_fix.
Print Assumptions C13_directive_argument_refuted_before_fix.
Print Assumptions C13_executor_lookup_needs_validated_name.
