(** * C13 — placeholder while the correspondence is brought up *)
From Coq Require Import List.
From ApiFu Require Import Base.Sexp Feat.FeaturesModel Feat.FeaturesSpec.
Theorem C13_placeholder : forall F, subset nil F = true.
Proof. exact (fun F => eq_refl). Qed.
Print Assumptions C13_placeholder.
