(** * C19 — placeholder while the correspondence is being established *)
From ApiFu Require Import Base.Sexp JsonApi.JsonApiModel.
Theorem C19_placeholder : True.
Proof. exact I. Qed.
Print Assumptions C19_placeholder.
