(** * C19 — the JSON:API handler always answers with a well-formed, correctly-statused document.
    This file contains only statements closed by [exact] and their [Print Assumptions].

    The model ([JsonApi/JsonApiModel.v]) is [serve_http cfg pmt choose sch rq] for
      cfg     the modelled tree ([fixed] = the repaired one),
      pmt     mime.ParseMediaType (any function),
      choose  which of several failing resolvers of one resource Go's map iteration meets first
              (any function that returns one of them: [choose_ok]),
      sch     any resource schema (any attributes; relationships resolved by the library's to-one /
              to-many resolvers or by ANY RelationshipResolver implementation of the application:
              any function from (resource value, dataRequested) to an error or a types.Relationship
              with any Links, any Data - none, null, one, many - and any Meta, serialisable or not,
              likewise for AddRelationshipMembers / RemoveRelationshipMembers; any subset of
              Get / Patch / Create / Delete / AddMembers / RemoveMembers, any resolver outcomes),
      rq      any request (any method, path, Accept lines, query parameter names, body: absent /
              malformed, or any JSON tree followed by any bytes).
    No bound on any of them. *)
From Coq Require Import List NArith ZArith Bool String.
From ApiFu Require Import Base.Sexp JsonApi.JsonApiModel JsonApi.JsonApiSpec JsonApi.JsonApiProofs JsonApi.JsonApiExtras.
From ApiFu Require Import JsonApi.JsonApiBytes JsonApi.JsonApiHeap JsonApi.JsonApiHeapProofs.
Import ListNotations.
Open Scope Z_scope.

Section C19.
  Variable pmt : bytes -> pm_result.
  Variable choose : list err -> err.
  Hypothesis choose_one_of_them : choose_ok choose.
  Variable sch : schema.
  Variable rq : request.

  (** "answers without panicking with a well-formed JSON:API document: media type
      application/vnd.api+json, a jsonapi version member, never both data and errors" *)
  Theorem C19_ja_well_formed :
    exists st data errors top c,
      serve_http fixed pmt choose sch rq = Resp st media_type (WDoc (Some version_1_1) data errors top) c /\
      (data <> WAbsent -> errors = []).
  Proof. exact (ja_well_formed pmt choose choose_one_of_them sch rq). Qed.

  (** "an HTTP status equal to that of the first error carrying one (500 if none does) when errors
      are present and 2xx otherwise" — an error carries a status when its status member is a valid
      HTTP status code ([errors_status]) *)
  Theorem C19_ja_status : forall st ct v data errors top c,
    serve_http fixed pmt choose sch rq = Resp st ct (WDoc v data errors top) c ->
    (errors <> [] -> st = errors_status errors) /\ (errors = [] -> 200 <= st < 300).
  Proof. exact (ja_status pmt choose choose_one_of_them sch rq). Qed.

  (** "status == RefStatus(request, schema)": the status is one the reference allows (several only
      when several resolvers of one resource fail: any of their statuses) *)
  Theorem C19_ja_ref_status : forall st ct bd c,
    serve_http fixed pmt choose sch rq = Resp st ct bd c -> In st (snd (ref_status pmt sch rq)).
  Proof. exact (ja_ref_status pmt choose choose_one_of_them sch rq). Qed.

  (** "resource objects whose type and id match the addressed resource with relationship links of
      the documented self/related form" ([identity_and_links] in JsonApiSpec.v, section 3) *)
  Theorem C19_ja_resource_identity : forall st ct v data top c,
    serve_http fixed pmt choose sch rq = Resp st ct (WDoc v data [] top) c ->
    identity_and_links sch rq data top = None.
  Proof. exact (ja_resource_identity pmt choose choose_one_of_them sch rq). Qed.

  (** the same for GET / PATCH of /{type}/{id}, in plain terms: the data is one resource object with
      the path's type and id; every relationship object belongs to a relationship definition [d] of
      the type and its links are exactly the standard self / related links of THIS type, id and
      relationship, overlaid with the links [d]'s resolver supplied for the value [val] the
      application returned for THIS request ([supplied] is [] for the library's resolvers) *)
  Theorem C19_ja_fetch_identity : forall st ct v data top c t id,
    serve_http fixed pmt choose sch rq = Resp st ct (WDoc v data [] top) c ->
    endpoint_of sch (rq_path rq) = EResource t id -> rq_method rq <> s_DELETE ->
    exists i val, data = WOne i /\ w_type i = rt_name t /\ w_id i = id /\
              links_equal top [(s_self, rq_path rq)] = true /\
              resource_value rq t id = Some val /\
              (forall name rel, In (name, rel) (w_rels i) ->
                 exists d, In d (rt_rels t) /\ rd_name d = name /\
                   links_equal (rel_links rel)
                     (overlay (standard_links (rt_name t) id name) (rel_links (supplied d val false))) = true).
  Proof. exact (fetch_identity pmt choose choose_one_of_them sch rq). Qed.

  (** a request document followed by anything but white space is malformed: 400 *)
  Theorem C19_ja_trailing_bytes : forall t id j tail,
    acceptable pmt (rq_accept rq) = true -> forallb supported_parameter (rq_query rq) = true ->
    endpoint_of sch (rq_path rq) = EResource t id -> rq_method rq = s_PATCH ->
    rq_body rq = BJson j tail -> forallb is_json_space tail = false ->
    answer_status (serve_http fixed pmt choose sch rq) = Some 400.
  Proof. exact (trailing_bytes_400 pmt choose choose_one_of_them sch rq). Qed.

  (** histories: every answer of a sequence of requests served by one API value satisfies the Spec
      of its own request, and the answer to a request is the same wherever in a history it is
      served (the model has no state; that the implementation behaves like it is checked on
      histories against resolvers sharing one Links map, see checks/C19.design.md) *)
  Theorem C19_ja_history : forall rqs,
    Forall2 (fun rq o => exists st bd c, o = Resp st media_type bd c /\
                                          oracle pmt sch rq (Some (st, media_type, Some bd)) = None)
            rqs (serve_history pmt choose sch rqs).
  Proof. exact (history_spec pmt choose choose_one_of_them sch). Qed.

  Theorem C19_ja_history_independent : forall before before' rq',
    nth (List.length before) (serve_history pmt choose sch (before ++ [rq'])) Panic =
    nth (List.length before') (serve_history pmt choose sch (before' ++ [rq'])) Panic.
  Proof. exact (history_independent pmt choose sch). Qed.

  (** everything at once: the Spec oracle that the check runs on the implementation's answers
      accepts every answer of the model *)
  Theorem C19_model_satisfies_spec :
    exists st bd c, serve_http fixed pmt choose sch rq = Resp st media_type bd c /\
                    oracle pmt sch rq (Some (st, media_type, Some bd)) = None.
  Proof. exact (model_satisfies_spec pmt choose choose_one_of_them sch rq). Qed.

  (** "406 for an Accept header offering the JSON:API media type only with unsupported parameters"
      (stronger: whenever no media range of any Accept line is a usable instance) *)
  Theorem C19_ja_406 :
    acceptable pmt (rq_accept rq) = false ->
    answer_status (serve_http fixed pmt choose sch rq) = Some 406.
  Proof. exact (ja_406 pmt choose choose_one_of_them sch rq). Qed.

  (** "400 for unsupported or malformed query parameters" *)
  Theorem C19_ja_400_params :
    acceptable pmt (rq_accept rq) = true ->
    (exists k, In k (rq_query rq) /\ supported_parameter k = false) ->
    answer_status (serve_http fixed pmt choose sch rq) = Some 400.
  Proof. exact (ja_400_params pmt choose choose_one_of_them sch rq). Qed.

  Section AfterNegotiation.
    Hypothesis accept_ok : acceptable pmt (rq_accept rq) = true.
    Hypothesis query_ok : forallb supported_parameter (rq_query rq) = true.

    (** "404 for anything unknown" *)
    Theorem C19_ja_404 : unknown_target sch rq -> answer_status (serve_http fixed pmt choose sch rq) = Some 404.
    Proof. exact (ja_404 pmt choose choose_one_of_them sch rq accept_ok query_ok). Qed.

    (** "405 for operations the resource type does not define" *)
    Theorem C19_ja_405 : undefined_operation sch rq -> answer_status (serve_http fixed pmt choose sch rq) = Some 405.
    Proof. exact (ja_405 pmt choose choose_one_of_them sch rq accept_ok query_ok). Qed.

    (** "409 for a type/id conflict" *)
    Theorem C19_ja_409 : conflict sch rq -> answer_status (serve_http fixed pmt choose sch rq) = Some 409.
    Proof. exact (ja_409 pmt choose choose_one_of_them sch rq accept_ok query_ok). Qed.

    (** linkage decoding: what the application's Patch receives *)
    Theorem C19_ja_linkage_relationship : forall t id name p,
      endpoint_of sch (rq_path rq) = ERelationship t id name -> rq_method rq = s_PATCH -> rt_patch t = Some p ->
      match decode_body dec_relationship_data (rq_body rq) with
      | None => answer_status (serve_http fixed pmt choose sch rq) = Some 400 /\
                answer_call (serve_http fixed pmt choose sch rq) = None
      | Some value => answer_call (serve_http fixed pmt choose sch rq) = Some (CPatch id [] [(name, value)])
      end.
    Proof. exact (ja_linkage_relationship pmt choose choose_one_of_them sch rq accept_ok query_ok). Qed.

    Theorem C19_ja_linkage_resource : forall t id p doc,
      endpoint_of sch (rq_path rq) = EResource t id -> rq_method rq = s_PATCH -> rt_patch t = Some p ->
      decode_body (dec_resource_request true) (rq_body rq) = Some doc -> pd_type doc = rt_name t -> pd_id doc = id ->
      answer_call (serve_http fixed pmt choose sch rq) = Some (CPatch id (pd_attrs doc) (pd_rels doc)).
    Proof. exact (ja_linkage_resource pmt choose choose_one_of_them sch rq accept_ok query_ok). Qed.
  End AfterNegotiation.
End C19.

(** the Spec does not see the order of the members of attributes / relationships / links objects
    (the equivalence modulo which the check compares model and implementation): agreement modulo
    [wbody_equiv] transfers the oracle's verdict *)
Theorem C19_respects_equiv : forall pmt sch rq st ct bd bd',
  wbody_equiv bd bd' ->
  oracle pmt sch rq (Some (st, ct, Some bd)) = oracle pmt sch rq (Some (st, ct, Some bd')).
Proof. exact oracle_respects_equiv. Qed.

(** the handler's tests of Accept headers and query parameter names are the Spec's grammars *)
Theorem C19_accept_negotiation : forall pmt lines,
  is_acceptable pmt (accept_instances fixed lines) = acceptable pmt lines.
Proof. exact acceptable_eq. Qed.

Theorem C19_query_parameter_grammar : forall k, query_key_ok k = supported_parameter k.
Proof. exact query_key_ok_eq. Qed.

(** ... and the Spec's parser of parameter names accepts exactly family *( "[" member "]" ) *)
Theorem C19_query_parameter_grammar_declarative : forall k,
  supported_parameter k = true <-> well_formed_parameter k.
Proof. exact supported_parameter_grammar. Qed.

(** types.go:194-226 on the linkage documents of the JSON:API text *)
Theorem C19_linkage_null : dec_relationship_data (JObj [(s_data, JNull)]) = Some LNull.
Proof. exact linkage_null. Qed.
Theorem C19_linkage_to_one : forall r, dec_relationship_data (JObj [(s_data, identifier_object r)]) = Some (LOne r).
Proof. exact linkage_to_one. Qed.
Theorem C19_linkage_to_many : forall ids,
  dec_relationship_data (JObj [(s_data, JArr (map identifier_object ids))]) = Some (LMany ids).
Proof. exact linkage_to_many. Qed.
Theorem C19_linkage_malformed : forall v,
  match v with JStr _ | JNum | JBool _ => True | _ => False end ->
  dec_relationship_data (JObj [(s_data, v)]) = None.
Proof. exact linkage_malformed. Qed.

(** the repaired defects of the pinned tree, kept as witnesses *)
Theorem C19_fallback_refuted_before_fix :
  exists rq, serve_http pinned_fallback toy_pmt toy_choose toy_schema rq =
             Resp 500 media_type (WBareError (b "500"%string)) None.
Proof. exact fallback_refuted_before_fix. Qed.
Theorem C19_accept_list_refuted_before_fix :
  exists rq, acceptable toy_pmt (rq_accept rq) = true /\
             answer_status (serve_http pinned_accept toy_pmt toy_choose toy_schema rq) = Some 406.
Proof. exact accept_list_refuted_before_fix. Qed.
Theorem C19_status_refuted_before_fix :
  exists rq, serve_http pinned_status toy_pmt toy_choose toy_schema rq = Panic.
Proof. exact status_refuted_before_fix. Qed.

(** ** The application's maps as heap locations (JsonApiHeap.v): [serve_http_st in_place pmt choose
    sch rq h] is the answer and the heap after the request, for schemas whose custom resolvers return
    REFERENCES to Links / Meta maps ([in_place = false]: the code as it is). *)

(** the handler never writes a map it got from a resolver: the heap after a request is the heap
    before it, cell by cell - for every heap, schema and request *)
Theorem C19_ja_handler_never_writes_resolver_maps : forall pmt choose (sch : hschema) rq (h : heap),
  snd (serve_http_st false pmt choose sch rq h) = h.
Proof. exact never_writes. Qed.

(** ... and its answer is the answer of the stateless model on the schema seen through that heap
    (so every theorem above applies to it) *)
Theorem C19_ja_heap_refinement : forall pmt choose (sch : hschema) rq (h : heap),
  serve_http_st false pmt choose sch rq h = (serve_http fixed pmt choose (view h sch) rq, h).
Proof. exact heap_serve_http_eq. Qed.

(** a history threads the heap from request to request; each answer is the answer the request gets
    on its own from the initial heap, and the history hands the initial heap back *)
Theorem C19_ja_heap_history : forall pmt choose (sch : hschema) rqs (h : heap),
  serve_history_st false pmt choose sch rqs h = (map (serve_http fixed pmt choose (view h sch)) rqs, h).
Proof. exact heap_history_eq. Qed.

Theorem C19_ja_heap_history_independent : forall pmt choose (sch : hschema) before before' rq (h : heap),
  nth (List.length before) (fst (serve_history_st false pmt choose sch (before ++ [rq]) h)) Panic =
  nth (List.length before') (fst (serve_history_st false pmt choose sch (before' ++ [rq]) h)) Panic.
Proof. exact heap_history_independent. Qed.

(** the statements have content: for the variant of addStandardRelationshipLinks that fills the
    missing self / related members into the resolver's map (seeded change C19-5) the heap changes,
    and the second request of a history is answered differently than on its own *)
Theorem C19_in_place_writes_refuted :
  exists rq, snd (serve_http_st true leaky_pmt leaky_choose leaky_schema rq leaky_heap) <> leaky_heap.
Proof. exact in_place_writes_refuted. Qed.
Theorem C19_in_place_history_refuted :
  exists rq1 rq2,
    nth 1 (fst (serve_history_st true leaky_pmt leaky_choose leaky_schema [rq1; rq2] leaky_heap)) Panic <>
    nth 0 (fst (serve_history_st true leaky_pmt leaky_choose leaky_schema [rq2] leaky_heap)) Panic /\
    nth 1 (fst (serve_history_st false leaky_pmt leaky_choose leaky_schema [rq1; rq2] leaky_heap)) Panic =
    nth 0 (fst (serve_history_st false leaky_pmt leaky_choose leaky_schema [rq2] leaky_heap)) Panic.
Proof. exact in_place_history_refuted. Qed.

(** ** The request body as bytes (JsonApiBytes.v): the Spec holds for the tree the reader makes of
    ANY body text, whatever strconv.ParseFloat ([in_range]) says about its numbers *)
Theorem C19_ja_raw_request : forall pmt choose, choose_ok choose -> forall sch in_range (r : raw_request),
  exists st bd c, serve_http fixed pmt choose sch (request_of in_range r) = Resp st media_type bd c /\
                  oracle pmt sch (request_of in_range r) (Some (st, media_type, Some bd)) = None.
Proof. exact raw_request_spec. Qed.

(** ** NewSchema (schema.go, the validate methods of resource.go / resolvers.go): it accepts a schema
    definition exactly when every type, attribute and relationship name is a member name of the
    JSON:API text, "id" and "type" name no attribute and no relationship, no name is both an attribute
    and a relationship, every attribute has a resolver and every relationship a resolver that is not
    a to-one / to-many resolver without Resolve function ([type_def_valid], JsonApiExtras.v) *)
Theorem C19_new_schema_accepts : forall d, new_schema_ok d = true <-> Forall type_def_valid d.
Proof. exact new_schema_accepts. Qed.

Theorem C19_nil_data_refuted_before_fix :
  exists rq, serve_http pinned_nil_data toy_pmt toy_choose toy_schema rq = Panic /\
             answer_status (serve_http fixed toy_pmt toy_choose toy_schema rq) = Some 500.
Proof. exact nil_data_refuted_before_fix. Qed.

Print Assumptions C19_ja_well_formed.
Print Assumptions C19_ja_status.
Print Assumptions C19_ja_ref_status.
Print Assumptions C19_ja_resource_identity.
Print Assumptions C19_ja_fetch_identity.
Print Assumptions C19_ja_trailing_bytes.
Print Assumptions C19_ja_history.
Print Assumptions C19_ja_history_independent.
Print Assumptions C19_nil_data_refuted_before_fix.
Print Assumptions C19_new_schema_accepts.
Print Assumptions C19_ja_handler_never_writes_resolver_maps.
Print Assumptions C19_ja_heap_refinement.
Print Assumptions C19_ja_heap_history.
Print Assumptions C19_ja_heap_history_independent.
Print Assumptions C19_in_place_writes_refuted.
Print Assumptions C19_in_place_history_refuted.
Print Assumptions C19_ja_raw_request.
Print Assumptions C19_model_satisfies_spec.
Print Assumptions C19_respects_equiv.
Print Assumptions C19_ja_406.
Print Assumptions C19_ja_400_params.
Print Assumptions C19_ja_404.
Print Assumptions C19_ja_405.
Print Assumptions C19_ja_409.
Print Assumptions C19_ja_linkage_relationship.
Print Assumptions C19_ja_linkage_resource.
Print Assumptions C19_accept_negotiation.
Print Assumptions C19_query_parameter_grammar.
Print Assumptions C19_query_parameter_grammar_declarative.
Print Assumptions C19_linkage_null.
Print Assumptions C19_linkage_to_one.
Print Assumptions C19_linkage_to_many.
Print Assumptions C19_linkage_malformed.
Print Assumptions C19_fallback_refuted_before_fix.
Print Assumptions C19_accept_list_refuted_before_fix.
Print Assumptions C19_status_refuted_before_fix.
