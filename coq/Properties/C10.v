(** * C10 — Introspection describes the visible schema completely, exactly and re-buildably.
    This file contains only statements closed by [exact] and their [Print Assumptions]. *)
From Coq Require Import List NArith ZArith Bool.
From ApiFu Require Import Base.Sexp Intro.Utf8 Intro.IntrospectModel Intro.MarshalValue Intro.LiteralSpec
     Intro.IntrospectSpec Intro.GraphProofs Intro.IntrospectProofs Intro.MarshalProofs.
Import ListNotations.

(** ** which types are listed *)

(** the traversal of schema.New registers exactly the named types that belong to the definition
    (reachable from the directive arguments, the root operation types and AdditionalTypes), each
    once, and never runs out of the model's fuel *)
Theorem C10_registry_exact : forall S,
  exists reg, registry S = Some reg /\ NoDup reg /\ (forall n, In n reg <-> belongs S n)
              /\ (forall n, In n reg -> defined S n = true).
Proof. exact registry_spec. Qed.

(** the Spec's own computation of that set is right *)
Theorem C10_members_exact : forall S,
  NoDup (members S) /\ (forall n, In n (members S) <-> belongs S n) /\ (forall n, In n (members S) -> defined S n = true).
Proof. exact members_spec. Qed.

(** ** stage 1: the result of introspection.Query is the description *)

(** For every definition [S] and feature set [F], and however a default value is presented
    ([pr]): the response is not an error and, after sorting what Go delivers in map order, it IS
    [describe pr S F] — every visible type, field, argument, input field, enum value, interface
    and union membership, wrapper chain, description, deprecation flag and reason, directive with
    locations and arguments, exactly as configured.  Hypotheses: wrapper chains no deeper than the
    [query_depth] = 8 levels the query asks for (a limit introspection.Query documents itself);
    gating coherent across "implements" (otherwise C13, DESIGN section 6 rows 17/30); no object
    declares an interface twice; directive locations are among the eighteen of __DirectiveLocation. *)
Theorem C10_introspect_describes : forall (D : Type) (pr : sty -> option gval -> D) (S : schema) (F : features),
  depth_ok S = true -> gating_coherent S F = true -> interfaces_declared_once S = true -> locations_known S = true ->
  exists r, introspect pr S F = IntroOk r /\ normalise r = describe pr S F.
Proof. exact introspect_describes. Qed.

(** ** stage 1: printed defaults *)

(** marshalValue prints a conforming default of a scalar, enum or list type (nulls included) as a
    GraphQL literal whose input coercion at that type gives the configured value back.  Strings:
    every code point up to U+FFFF other than surrogates, with all of encoding/json's escaping.
    Floats: integral values (float formatting is not modelled).  Input object values: see
    [default_roundtrip_partial] below. *)
Theorem C10_default_roundtrip_partial : forall (S : schema), enums_ok S -> forall v t,
  default_conforms S v t = true -> printable v ->
  exists txt, marshal S v t = MOk txt /\ literal_denotes S t txt v = true.
Proof. exact default_roundtrip_values. Qed.

Print Assumptions C10_registry_exact.
Print Assumptions C10_members_exact.
Print Assumptions C10_introspect_describes.
Print Assumptions C10_default_roundtrip_partial.
