(** * C10 — Introspection describes the visible schema completely, exactly and re-buildably.
    This file contains only statements closed by [exact] and their [Print Assumptions].

    Reading guide.  [schema] is a definition (DESIGN Appendix A), [introspect pr S F] the model of
    [graphql.Execute(S, F, introspection.Query)] as a tree, [normalise] sorts what Go delivers in
    map order, [describe pr S F] is the Spec (Intro/IntrospectSpec.v), [marshal] is marshalValue,
    [literal_denotes] the Spec of a printed default (Intro/LiteralSpec.v), [rebuild] is
    SchemaData.GetSchemaDefinition, [erase]/[canon] the Spec of the rebuild clause
    (Intro/RebuildSpec.v), [g_schema] a definition as a pointer graph and [clone] the model of
    SchemaDefinition.Clone (Intro/Clone.v). *)
From Coq Require Import List NArith ZArith Bool.
From ApiFu Require Import Base.Sexp Intro.Utf8 Intro.IntrospectModel Intro.MarshalValue Intro.LiteralSpec
     Intro.IntrospectSpec Intro.Rebuild Intro.RebuildSpec Intro.Clone
     Intro.GraphProofs Intro.IntrospectProofs Intro.RefsProofs Intro.MarshalProofs Intro.RebuildProofs Intro.CloneProofs
     Intro.Refuted Intro.ViewBridge Intro.FloatLex Intro.VerdictBridge.
Import ListNotations.

(** ** which types are listed *)

(** the traversal of schema.New registers exactly the named types that belong to the definition
    (reachable from the directive arguments, the root operation types and AdditionalTypes), each
    once, and never runs out of the model's fuel *)
Theorem C10_registry_exact : forall S,
  exists reg, registry S = Some reg /\ NoDup reg /\ (forall n, In n reg <-> belongs S n)
              /\ (forall n, In n reg -> defined S n = true).
Proof. exact registry_spec. Qed.

(** the Spec's own computation of that set is right *)
Theorem C10_members_exact : forall S,
  NoDup (members S) /\ (forall n, In n (members S) <-> belongs S n) /\ (forall n, In n (members S) -> defined S n = true).
Proof. exact members_spec. Qed.

(** the description lists every type that belongs to the definition and is visible, exactly once *)
Theorem C10_types_listed_once : forall (D : Type) (pr : sty -> option gval -> D) S F,
  NoDup (map rt_name (rs_types (describe pr S F))) /\
  forall n, In n (map rt_name (rs_types (describe pr S F))) <-> belongs S n /\ visible_type S F n = true.
Proof. exact described_types_once. Qed.

(** ** stage 1: the result of introspection.Query is the description *)

(** For EVERY definition [S] and feature set [F], and however a default value is presented
    ([pr]): the response is not an error and, after sorting what Go delivers in map order, it is
    [describe pr S F] as far as the query looks — every visible type, field, argument, input
    field, enum value, visible interface and possible type, description, deprecation flag and
    reason, directive with locations and arguments, exactly as configured, and every list /
    non-null wrapper chain up to the [query_depth] = 8 levels (named type included) to which the
    fixed document introspection.Query nests [ofType]; a longer chain is cut there ([truncate]).
    Hypotheses: no object declares an interface twice; directive locations are among the eighteen
    of __DirectiveLocation (neither is checked by schema.New).  No hypothesis about feature
    gating: the listings [interfaces] / [possibleTypes] are filtered by the request's features
    (after the repair of DESIGN section 6 row 17). *)
Theorem C10_introspect_describes_any_depth : forall (D : Type) (pr : sty -> option gval -> D) (S : schema) (F : features),
  interfaces_declared_once S = true -> locations_known S = true ->
  exists r, introspect pr S F = IntroOk r /\ normalise r = truncate query_depth (describe pr S F).
Proof. exact introspect_describes_upto_depth. Qed.

(** The same over a history: whatever requests were made before on the same schema value, under
    whatever feature sets, each response is the description for ITS feature set.  In the model
    this is immediate — [serve] has no state, the response is a function of (S, F) — and that is
    the point: the correspondence check runs histories [F, F', F] on one *schema.Schema value
    (also on the clone's and the rebuilt schema) and judges every step against this stateless
    model, so an implementation that remembers anything from an earlier request (a cache of the
    types listing keyed without the features) disagrees with it. *)
Theorem C10_introspect_history_independent : forall (D : Type) (pr : sty -> option gval -> D) S reqs,
  interfaces_declared_once S = true -> locations_known S = true ->
  Forall2 (fun F a => exists r, a = IntroOk r /\ normalise r = truncate query_depth (describe pr S F))
          reqs (serve pr S reqs).
Proof. exact introspect_history_independent. Qed.

(** Nothing is cut when the chains of the definition have at most 8 levels ([depth_ok]): then the
    response IS the description.  The bound is exactly the nesting of the query document
    (harness: the real introspection.Query is run on chains of 0..9 wrappers). *)
Theorem C10_introspect_describes : forall (D : Type) (pr : sty -> option gval -> D) (S : schema) (F : features),
  interfaces_declared_once S = true -> depth_ok S = true -> locations_known S = true ->
  exists r, introspect pr S F = IntroOk r /\ normalise r = describe pr S F.
Proof. exact introspect_describes. Qed.

(** The limit is the query's, not the resolvers': followed to [d] levels, kind / name / ofType
    deliver the complete chain of every type with at most [d] levels, for every [d]. *)
Theorem C10_typeref_complete_at_depth : forall S t d,
  (sty_levels t <= d)%nat -> type_ref S d t = Some (full_ref S t).
Proof. exact type_ref_full. Qed.

(** KNOWN limit (documented in introspection/query.go): [depth_ok] cannot be dropped from
    [C10_introspect_describes].  For a field of type [[[[[[[[Int]]]]]]]] (nine levels) the response
    differs from the description, is the truncated description, and contains a type reference
    that never reaches a named type — the standard query does not describe such a definition
    completely, a query nesting [ofType] nine times does. *)
Theorem C10_deep_chain_truncated_refuted :
  exists S F r,
    depth_ok S = false /\ interfaces_declared_once S = true /\ locations_known S = true /\
    introspect (fun t d => (t, d)) S F = IntroOk r /\
    normalise r <> describe (fun t d => (t, d)) S F /\
    normalise r = truncate query_depth (describe (fun t d => (t, d)) S F) /\
    refs_resolve (normalise r) = false /\
    type_ref S 9 (lists 8 (StNamed n_Int)) = Some (full_ref S (lists 8 (StNamed n_Int))).
Proof. exact deep_chain_truncated_refuted. Qed.

(** every type reference of the response (field, argument and input field types through their
    whole wrapper chain, interfaces, possible types, root operation types) names a type of the
    types listing.  Additional hypotheses, all enforced by schema.New (shallowValidate; root
    operation types and directive argument types must not require features) or by Go's
    pointers: *)
Theorem C10_introspect_refs_resolve : forall (D : Type) (pr : sty -> option gval -> D) S F r,
  depth_ok S = true -> interfaces_declared_once S = true -> locations_known S = true ->
  refs_defined S = true -> gating_nested S = true -> roots_visible S F = true ->
  introspect pr S F = IntroOk r -> refs_resolve (normalise r) = true.
Proof. exact introspect_refs_resolve. Qed.

(** ** stage 1: printed defaults *)

(** marshalValue prints a conforming default — of a scalar, enum, list or input object type, nested
    to any depth, nulls included, the fields of an input object in whatever order Go's map
    iteration delivers them — as a GraphQL literal whose input coercion at that type gives the
    configured value back.  Strings: every code point up to U+FFFF other than surrogates, with all
    of encoding/json's escaping (the hard lemma, [string_body_roundtrip]).  Input objects: a
    conforming value ([default_conforms]: what input coercion produces) has an entry for every
    field that has a default, so reading the literal back adds nothing.  [enums_ok], [inputs_ok]:
    enum value names and input field names are GraphQL names (shallowValidate).

    Floats: the text Go prints for a finite float64 — optional '-', digits, optional '.digits',
    optional 'e', sign, digits — is always an IntValue or FloatValue literal
    ([C10_go_float_text_is_literal]), so a Float default of any value is inside the theorem as far
    as reading the text back goes.

    FULL STATEMENT, proved except for the value of a float's digits:
      forall S v t, enums_ok S -> inputs_ok S -> default_conforms S v t = true -> (strings of v within
      U+0000..U+FFFF without surrogates) -> exists txt, marshal S v t = MOk txt /\ literal_denotes S t txt v = true.
    Missing: that the decimal strconv chooses for a float64 rounds back to that float64.  This is
    the correctness of strconv's shortest-round-trip digit generation (Ryu / Grisu with fallback)
    and is not derivable from C05's float lemmas (coq/Val: exact integers, rounding and overflow
    of a GIVEN decimal) without a model of that algorithm, which nobody has written.  [printable] carries it as a premise
    for each Float in the value ([float_lit_rounds (the literal read) m e = true], an exact rational
    comparison); the check evaluates exactly this premise on every generated default, and the
    real parser + coercion re-read the text. *)
Theorem C10_default_roundtrip_partial : forall (S : schema), enums_ok S -> inputs_ok S -> forall v t,
  default_conforms S v t = true -> printable v ->
  exists txt, marshal S v t = MOk txt /\ literal_denotes S t txt v = true.
Proof. exact default_roundtrip_values. Qed.

(** every text in the format encoding/json / strconv print a finite float in is a number literal
    of the grammar: [lex_number] reads all of it and returns the integer ([LInt]) when there is
    neither fraction nor exponent, else the exact decimal [LFloat n e10] = n * 10^e10 *)
Theorem C10_go_float_text_is_literal : forall neg ip fp ex rest,
  go_float_ok ip fp ex -> follow_ok rest ->
  lex_number (go_float_text neg ip fp ex ++ rest) = Some (go_float_lit neg ip fp ex, rest).
Proof. exact lex_number_go. Qed.

(** ... and a number token of C07's lexer specification (coq/Lex/LexSpec.v): [match_int] matches
    sign and integer part; [match_float] matches the whole text when it has a fraction or an
    exponent, and nothing otherwise (the text is then an IntValue) *)
Theorem C10_go_float_text_is_token : forall neg ip fp ex rest,
  go_float_ok ip fp ex -> follow_ok rest ->
  let txt := go_float_text neg ip fp ex in
  LS.match_int (txt ++ rest) = Some (length ((if neg then [45%N] else []) ++ ip)) /\
  LS.match_float (txt ++ rest) = match fp, ex with [], None => None | _, _ => Some (length txt) end.
Proof. exact go_float_text_is_token. Qed.

(** KNOWN (key default-string-astral): the restriction of [printable] to U+0000..U+FFFF cannot be
    dropped.  encoding/json leaves an astral character as its four UTF-8 bytes, the lexer's source
    characters end at U+FFFF and its \u escape knows no surrogate pairs, so the printed default of
    a string containing U+1F600 is not a literal of api-fu's GraphQL dialect at all. *)
Theorem C10_default_astral_refuted :
  exists S v t, enums_ok S /\ default_conforms S v t = true /\
    exists txt, marshal S v t = MOk txt /\ literal_denotes S t txt v = false.
Proof. exact default_astral_refuted. Qed.

(** ** stage 2: rebuild *)

(** A definition rebuilt by SchemaData.GetSchemaDefinition from the response is, for validation
    ([canon]: names, kinds, field / argument / input field types, presence and nullness of
    defaults, interfaces, union members, enum value names, directives with locations and
    arguments, root types, descriptions and deprecation reasons, whether a custom scalar accepts
    every literal), the visible part of the original ([erase S F]).  Hypotheses beyond those
    above: [scalars_accept_all] — a rebuilt scalar has no literal coercion, so it cannot reject
    what the original's rejects: a limit of introspection itself; [defaults_denote] — every
    configured default prints as a literal that denotes it (previous theorem);
    [builtins_consistent], [kinds_ok] — schema.New / Go's static types.
    At the level of documents: the two definitions give the validator the same answers to every
    question it asks, so they accept and reject the same documents, provided every listed type is
    still reachable in the rebuilt definition (types only reachable through AdditionalTypes that
    are neither unions nor objects with interfaces are dropped; no document can tell).  That step
    needs the validator's model (C04); here it is checked by validating generated documents
    against both schemas with the real validator.

    FULL STATEMENT, proved only in part:
      forall S F D, (hypotheses below) -> introspect (print_default S) S F = IntroOk r ->
      rebuild (map_defaults dflt_text r) = Some R ->
      (validate R {} D = [] <-> validate S F D = []).
    Proved: R and the visible part of S are the same definition for validation (below).  Missing:
    (a) [validate] itself — the validator is C04's model, not part of this development — and the
    lemma that it only looks at a definition through [canon] and through the types reachable in
    it; (b) validating against S under F is validating against [erase S F] (C13's view/erase
    theorem).  Both steps are covered by the correspondence check only: 30 generated documents
    per rebuilt schema are given to the real graphql.ParseAndValidate on both schemas. *)
Theorem C10_rebuild_same_verdicts_partial : forall S F r,
  depth_ok S = true -> interfaces_declared_once S = true -> locations_known S = true ->
  refs_defined S = true -> gating_nested S = true -> roots_visible S F = true ->
  builtins_consistent S = true -> kinds_ok S = true -> scalars_accept_all S = true -> defaults_denote S ->
  introspect (print_default S) S F = IntroOk r ->
  exists R, rebuild (map_defaults dflt_text r) = Some R /\ canon R = canon (erase S F).
Proof. exact rebuild_same_for_validation. Qed.

(** ... and therefore answers every schema lookup of the validator the way the original does for
    the request.  The lookups are C13's ([FM.ask], coq/Feat/FeaturesModel.v: root types, type by
    name, kind, GetField, possible types, enum values, input fields, directive by name — the
    validator's view [FM.in_view_validator] — and the executor's by-name lookup, abstract-type
    candidates and doesFragmentTypeApply — [FM.in_view_executor]); [to_feat] abstracts a C10 definition to a C13 schema,
    [registered S] is [S] with the types schema.New registers; [ans_eq] compares answers as finite
    maps / sets (what comes out of a Go map has no order) and without the feature annotations and
    the resolver tag, which a rebuilt definition cannot carry.  The rebuilt definition is asked
    with ANY feature set [G] (nothing in it is gated), the original with the request's [F].
    Premise on [q] as in C13: the type pointers a lookup is applied to are ones the request may
    hold.  Additional hypotheses: type names are unique (Go pointers / schema.New) and
    [FM.schema_ok] — C13's transcription of schema.New's acceptance checks — holds of the
    definition (both true of every schema value).
    Chain of the proof: [C13_view_erase_eq] (asking (S, F) = asking C13's erased schema), then
    [erase_fsim] (C13's erased schema is C10's [erase S F] up to [fsim]), [fsim_of_canon] with the
    previous theorem, and [ask_sim].
    With C13_noninterference in mind: a consumer that sees the schema only through these lookups
    and does not depend on map order computes the same on R and on (S, F).  What stays outside:
    the validator itself (C04's model), the presence of argument defaults (not part of C13's
    lookups; it is part of [canon], previous theorem).  Final round: the introspection view
    (types listing, __type(name:), fields, interfaces, possibleTypes, directives) is covered too:
    the statement holds for EVERY lookup [q] of C13's model, all three views. *)
Theorem C10_rebuild_same_lookups : forall S F r,
  depth_ok S = true -> interfaces_declared_once S = true -> locations_known S = true ->
  refs_defined S = true -> gating_nested S = true -> roots_visible S F = true ->
  builtins_consistent S = true -> kinds_ok S = true -> scalars_accept_all S = true -> defaults_denote S ->
  NoDup (map fst (types S)) -> FM.schema_ok (to_feat (registered S)) = true ->
  introspect (print_default S) S F = IntroOk r ->
  exists R, rebuild (map_defaults dflt_text r) = Some R /\
    forall G q,
      (forall h, In h (FM.handle_args q) -> FS.visible (to_feat (registered S)) F h = true) ->
      ans_eq (FM.ask FM.fixed (to_feat R) G q) (FM.ask FM.fixed (to_feat (registered S)) F q).
Proof. exact rebuild_same_lookups_all. Qed.

(** The verdicts themselves, composed with C13's theorem about C04's validator model
    ([C13_C04_validate_eq]: for every document, C04's [validate_model] answers the same on (S, F)
    and on the erased schema).  C04's schema type is a third representation; the composition is
    stated for ANY abstraction [to_vld] of C10's definitions into it, under two NAMED premises
    that are not proved:
      [validator_reads_only_canon] — C04's validator cannot tell two definitions apart that are
        the same for validation in C10's sense ([canon]);
      [erasures_agree] — C10's erased definition and C13's erasure of the registered definition,
        both abstracted, are indistinguishable for C04's validator (in C13's own model this is
        [erase_fsim] + [ask_sim], proved above).
    Given them: for every document, quirk setting with the repaired getPossibleTypes, map order
    and G ⊇ F, the validator model answers the same on the rebuilt definition R and on (S, F).
    This is why [C10_rebuild_same_verdicts_partial] keeps its name: what is missing is exactly
    the locality of C04's validator with respect to an abstraction function that nobody has
    defined yet. *)
Theorem C10_rebuild_same_verdicts_given_validator_locality :
  forall (to_vld : schema -> VA.schema),
  (forall X Y, canon X = canon Y ->
     forall q pi G D, VM.validate_model q pi (to_vld X) G D = VM.validate_model q pi (to_vld Y) G D) ->
  (forall S F q pi G D,
     VM.validate_model q pi (to_vld (erase S F)) G D =
     VM.validate_model q pi (FV.verase (to_vld (registered S)) F) G D) ->
  forall S F r,
  depth_ok S = true -> interfaces_declared_once S = true -> locations_known S = true ->
  refs_defined S = true -> gating_nested S = true -> roots_visible S F = true ->
  builtins_consistent S = true -> kinds_ok S = true -> scalars_accept_all S = true -> defaults_denote S ->
  introspect (print_default S) S F = IntroOk r ->
  exists R, rebuild (map_defaults dflt_text r) = Some R /\
    forall q pi G D,
      FV.vok (to_vld (registered S)) = true -> VA.subset F G = true -> ApiFu.Vld.ProofsCommon.order_ok pi ->
      VM.q_impl_features q = true ->
      VM.validate_model q pi (to_vld R) G D = VM.validate_model q pi (to_vld (registered S)) F D.
Proof. exact rebuild_same_verdicts_given_locality. Qed.

(** two C13 schemas that are the same up to map order and feature annotations ([fsim]) answer
    every lookup (validator's, executor's and introspection's view: all of C13's [query_]) alike for
    requests that see everything in them *)
Theorem C10_similar_schemas_answer_alike : forall A B GA GB,
  fsim A B -> all_visible A GA -> all_visible B GB ->
  forall q, ans_eq (FM.ask FM.fixed A GA q) (FM.ask FM.fixed B GB q).
Proof. exact ask_sim_all. Qed.

(** KNOWN (key rebuilt-scalar-accepts-any-literal): [scalars_accept_all] cannot be dropped.  With
    every other hypothesis in place, a custom scalar whose literal coercion rejects something is
    rebuilt as a scalar that accepts everything (introspection does not carry coercions). *)
Theorem C10_rebuild_picky_scalar_refuted :
  exists S F r R,
    depth_ok S = true /\ interfaces_declared_once S = true /\ locations_known S = true /\
    refs_defined S = true /\ gating_nested S = true /\ roots_visible S F = true /\
    builtins_consistent S = true /\ kinds_ok S = true /\ defaults_denote S /\
    scalars_accept_all S = false /\
    introspect (print_default S) S F = IntroOk r /\
    rebuild (map_defaults dflt_text r) = Some R /\ canon R <> canon (erase S F).
Proof. exact rebuild_picky_scalar_refuted. Qed.

(** ** stage 2: Clone *)

(** the clone is the same definition: exactly the registered types, each with the same content *)
Theorem C10_clone_same_definition : forall G next G' next' reg,
  registry (strip G) = Some reg -> clone G next = Cloned G' next' -> strip G' = restrict reg (strip G).
Proof. exact clone_same_definition. Qed.

(** hence it introspects identically, for every feature set *)
Theorem C10_clone_introspects_same : forall G next G' next' (D : Type) (pr : sty -> option gval -> D) F,
  clone G next = Cloned G' next' -> introspect pr (strip G') F = introspect pr (strip G) F.
Proof. exact clone_introspects_same. Qed.

(** and shares no mutable structure with the original: an identity (struct, map, slice, wrapper)
    of the clone that is also one of the original belongs to a built-in singleton.  [next]: where
    fresh identities start (above every identity of the original). *)
Theorem C10_clone_fresh : forall G next G' next',
  (forall i, In i (ids G) -> (i < next)%N) ->
  refs_defined (strip G) = true -> kinds_ok (strip G) = true -> builtin_targets_ok G ->
  clone G next = Cloned G' next' ->
  forall i, In i (ids G') -> In i (ids G) -> In i (builtin_ids G).
Proof. exact clone_fresh. Qed.

Print Assumptions C10_registry_exact.
Print Assumptions C10_members_exact.
Print Assumptions C10_types_listed_once.
Print Assumptions C10_introspect_describes_any_depth.
Print Assumptions C10_introspect_history_independent.
Print Assumptions C10_introspect_describes.
Print Assumptions C10_typeref_complete_at_depth.
Print Assumptions C10_deep_chain_truncated_refuted.
Print Assumptions C10_introspect_refs_resolve.
Print Assumptions C10_default_roundtrip_partial.
Print Assumptions C10_go_float_text_is_literal.
Print Assumptions C10_go_float_text_is_token.
Print Assumptions C10_default_astral_refuted.
Print Assumptions C10_rebuild_same_verdicts_partial.
Print Assumptions C10_rebuild_same_lookups.
Print Assumptions C10_rebuild_same_verdicts_given_validator_locality.
Print Assumptions C10_similar_schemas_answer_alike.
Print Assumptions C10_rebuild_picky_scalar_refuted.
Print Assumptions C10_clone_same_definition.
Print Assumptions C10_clone_introspects_same.
Print Assumptions C10_clone_fresh.
