(** * C10 — placeholder while the correspondence is being built *)
From Coq Require Import List.
From ApiFu Require Import Base.Sexp Intro.IntrospectModel.
Theorem C10_placeholder : query_depth = 8.
Proof. exact eq_refl. Qed.
Print Assumptions C10_placeholder.
