(** * C12 — parse/validate work is polynomially bounded; the depth limit is about depth only.
    This file contains only statements closed by [exact] and their [Print Assumptions].

    Parser (graphql/parser/parser.go, model Cplx/ParserDepthModel.v):
      C12_recursion_balanced, C12_parse_steps_linear, C12_depth_limit_iff,
      C12_flat_documents_never_hit_the_limit;  defect 14 as witnesses of the unrepaired model.
    Validator (count models Cplx/MergeCountModel.v, Cplx/CostWalkCount.v):
      C12_merge_steps_poly, C12_merge_steps_bound_poly — the overlapping-fields pass (repaired) is
        polynomial on every document;
      C12_merge_exponential_before_fix_witness / C12_merge_family_after_fix_witness — defect 15;
      C12_cost_walk_exponential_refuted — the cost walk is NOT polynomial (known finding, defect 16).

      C12_cycle_steps_le_bound, C12_var_steps_le_bound — the fragment cycle search of
        validateFragmentSpreads and the fragment closure of validateVariables are polynomial on
        every document whose spread lists are those of a syntax tree ([spreads_ok], evaluated by the
        check on every case).
    From bytes (composition with C07's scanner model): C12_parse_from_bytes_linear.

      C12_merge_family_exponential_before_fix — defect 15 for every n (at least 6^(n-1)/3 and 2^n calls).
      C12_cost_run_expansions — the cost walk expands exactly one definition per spread path;
      C12_cost_run_linear_when_bodies_flat — hence linearly many when no fragment body spreads.

    Not proved (oracle of Cplx/ComplexitySpec.v only): the STEP count of the cost walk (the theorems
    count expansions); the work of the scanner and of the validator rules that do not follow
    fragments (tied two-sidedly to bytes resp. AST nodes by the block counters, factor 4 resp. 2). *)
From Coq Require Import List NArith ZArith Bool.
From ApiFu Require Import Cplx.Tables Cplx.ParserDepthModel Cplx.MergeCountModel Cplx.CostWalkCount
     Cplx.ComplexityDecode Cplx.ComplexitySpec Cplx.ParserDepthProofs Cplx.CostWalkProofs Cplx.MergeFamily
     Cplx.MergeCountProofs Cplx.FragmentWalkCount Cplx.SpreadLists Cplx.FragmentWalkProofs
     Cplx.MergeLowerBound Cplx.CostWalkPaths.
From ApiFu Require Base.Sexp Lex.LexModel Lex.LexProgress Cplx.TokenClass Cplx.ParseFromBytes Cplx.ScanSteps.
From ApiFu Require Cplx.ParserStackDepth Vld.Ast Vld.Inspect Vld.ValidatorModel Cplx.InspectSteps.
Import ListNotations.
Open Scope Z_scope.

(** ** the parser *)

(** every production, from every state, on every normal return: p.recursion is back at its entry
    value and every bracket the production opened is closed *)
Theorem C12_recursion_balanced : forall c, sel_exit c = true ->
  forall p fuel s s', run_production c p fuel s = Ok s' -> rec_ s' = rec_ s /\ opens s' = opens s.
Proof. exact recursion_balanced. Qed.

(** production invocations are linear in the number of tokens whatever the outcome, and the
    model's fuel is always sufficient *)
Theorem C12_parse_steps_linear : forall c, sel_exit c = true ->
  forall ts,
    match parse c ts with
    | Ok s' | Err _ s' => steps s' <= 8 * Z.of_nat (length ts) + 6
    | OutOfFuel => False
    end.
Proof. exact parse_steps_linear. Qed.

(** "maximum recursion depth exceeded" only if 6 + 4 * (brackets open at once) > 1000; more than
    1000 brackets open at once are always refused with an ordinary error *)
Theorem C12_depth_limit_iff : forall ts,
  (forall s', parse go_cfg ts = Err DepthErr s' -> 1000 < 6 + 4 * maxnest ts) /\
  (1000 < maxnest ts -> exists k s', parse go_cfg ts = Err k s').
Proof. exact depth_limit_iff. Qed.

(** breadth is never limited: whatever the number of siblings, a document with at most 248 brackets
    open at once does not get the depth error *)
Theorem C12_flat_documents_never_hit_the_limit : forall ts,
  maxnest ts <= 248 -> forall s', parse go_cfg ts <> Err DepthErr s'.
Proof. exact flat_documents_never_hit_the_limit. Qed.

(** defect 14 (repaired: rw commit 3d07498) on the model of the pinned tree *)
Theorem C12_recursion_unbalanced_before_fix :
  exists s', parseSelection pinned_cfg 10 (init [TName]) = Ok s' /\ rec_ s' = rec_ (init [TName]) + 1.
Proof. exact recursion_unbalanced_before_fix. Qed.

Theorem C12_flat_document_refused_before_fix :
  maxnest (flat_selection_set 1000) = 1 /\
  (exists s', parse pinned_cfg (flat_selection_set 1000) = Err DepthErr s') /\
  (exists s', parse go_cfg (flat_selection_set 1000) = Ok s').
Proof. exact flat_document_refused_before_fix. Qed.

(** ** the validator *)

(** The overlapping-fields pass of validateFields as repaired (second ast.Inspect:
    addFieldSelections, validateFieldsInSetCanMerge, validateSameResponseShape with the two sets of
    checked pairs), on EVERY abstract document - valid or not, with fragment cycles, undefined
    fragments, unknown fields, dangling indices - and whatever it reports: the model never runs
    out of fuel and does at most [merge_steps_bound D] steps (one step per call of each of the four
    functions, per loop iteration, per AST node of two compared argument lists), where
      merge_steps_bound D = n_visits * top_cost + (n_visits + 1) * n_fields^2 * (pair_body_cost + shape_body_cost)
    is the polynomial the oracle applies to the real code's block counters on every run. *)
Theorem C12_merge_steps_poly : forall D : doc,
  match merge_run true D with
  | MOk st | MErr st => m_steps st <= merge_steps_bound D
  | MOutOfFuel => False
  end.
Proof. exact merge_steps_poly. Qed.

(** ... and that polynomial has degree 6 in the size of the document *)
Theorem C12_merge_steps_bound_poly : forall D : doc, merge_steps_bound D <= 150 * (doc_size D + 1) ^ 6.
Proof. exact merge_steps_bound_poly. Qed.

(** The two other passes that follow fragment spreads.  Hypothesis [spreads_ok D]: the spread lists
    of the definitions are together not longer than the number of spreads in the document (true of
    every syntax tree, where a selection set belongs to one definition; evaluated by the check on
    every case) and the node counts are not negative.
    validateFragmentSpreads, cycle search: for every fragment name a breadth-first search through
    the direct dependencies; at most n_frags * (2 n_spreads + 3) loop iterations, never out of fuel. *)
Theorem C12_cycle_steps_le_bound : forall D : doc, spreads_ok D = true ->
  match cycle_search_run D with
  | Some w => w_steps w <= cycle_steps_bound D
  | None => False
  end.
Proof. exact cycle_steps_le_bound. Qed.

(** validateVariables: per operation, the operation and every fragment reachable from it, each
    once; at most op_nodes_sum + n_ops * (frag_nodes + n_spreads + n_frags + 1) inspected nodes. *)
Theorem C12_var_steps_le_bound : forall D : doc, spreads_ok D = true ->
  match var_walk_run D with
  | Some k => k <= var_steps_bound D
  | None => False
  end.
Proof. exact var_steps_le_bound. Qed.

(** From the bytes of the request: on ANY byte string the scanner (C07's model) delivers at most
    one token per byte, the parser enters at most 8 |bytes| + 6 productions on them, and the depth
    error needs nesting. *)
Theorem C12_parse_from_bytes_linear : forall bs : Base.Sexp.bytes,
  exists ts es,
    Lex.LexModel.lex false bs = Lex.LexModel.Done ts es
    /\ (length ts <= length bs)%nat
    /\ match parse go_cfg (map TokenClass.tok_class ts) with
       | Ok s' | Err _ s' => steps s' <= 8 * Z.of_nat (length bs) + 6
       | OutOfFuel => False
       end
    /\ (forall s', parse go_cfg (map TokenClass.tok_class ts) = Err DepthErr s' ->
                   1000 < 6 + 4 * maxnest (map TokenClass.tok_class ts)).
Proof. exact ParseFromBytes.parse_from_bytes_linear. Qed.

(** The scanner goes through the input once: for every byte string (valid UTF-8 or not, with or
    without lexical errors, both modes) the state after the last Scan() is reached from the initial
    state by exactly [runes bs] consumeRune transitions (C07's trace relation [nsteps]) - at least one
    per token, at most one per byte; each transition decodes one rune (one DecodeRune). *)
Theorem C12_scan_steps_linear : forall (m : bool) (bs : Base.Sexp.bytes),
  exists ts es st' k,
    Lex.LexModel.lex m bs = Lex.LexModel.Done ts es
    /\ Lex.LexProgress.nsteps false k (Lex.LexModel.init bs) st' /\ Lex.LexModel.is_done st' = true
    /\ k = TokenClass.runes bs
    /\ (length ts <= k <= length bs)%nat.
Proof. exact ScanSteps.scan_steps_linear. Qed.

(** Stack: every production calls enter() first and enter() panics when p.recursion would exceed
    the limit, so in every state of every parse p.recursion <= limit and its high-water mark is at
    most limit + 1: the parser never has more than limit + 1 production frames on the Go stack.
    (The recursions of the validator models are bounded by their fuels, which the theorems show are
    never exhausted: |sets| + 2 nested addFieldSelectionsWithCycleDetection, |fields| + 1 nested
    validateSameResponseShape / validateFieldsInSetCanMerge - C12_merge_steps_poly.) *)
Theorem C12_parse_depth_bounded : forall c ts, 0 <= limit c ->
  match parse c ts with
  | Ok s' => rec_ s' <= limit c /\ maxrec s' <= limit c + 1
  | Err _ s' => maxrec s' <= limit c + 1
  | OutOfFuel => True
  end.
Proof. exact ParserStackDepth.parse_depth_bounded. Qed.

(** ast.Inspect (C04's model Vld/Inspect.v), for EVERY visitor, state and tree: wrapping the visitor
    with counters does not change what the traversal computes, the visitor is called between 1 and
    [nodes t] times with a node and at most [nodes t] times with nil. *)
Theorem C12_inspect_visits_linear :
  forall (St : Type) (enter : St -> Inspect.node -> St * bool) (leave : St -> St) (t : Inspect.tree) (s : St),
    fst (Inspect.inspect (InspectSteps.enter_c St enter) (InspectSteps.leave_c St leave) t (s, (0, 0)%nat))
    = Inspect.inspect enter leave t s
    /\ (let c := snd (Inspect.inspect (InspectSteps.enter_c St enter) (InspectSteps.leave_c St leave) t (s, (0, 0)%nat)) in
        (1 <= fst c <= InspectSteps.nodes t)%nat /\ (snd c <= InspectSteps.nodes t)%nat).
Proof. exact InspectSteps.inspect_visits_linear. Qed.

(** ... instantiated for the Inspect passes of C04's validator model: arguments, directives, values,
    the first and second visitor of validateFields, fragment declarations, the spread visitor of
    validateFragmentSpreads - each calls its visitor at most once per AST node of the document
    (what the visitor does at a node is C04's subject; its cost per node is tied by the block
    counters: clause other-rules-work, 32..49 statements per node). *)
Theorem C12_rule_visits_linear :
  forall (q : ValidatorModel.quirks) (pi : ValidatorModel.order) (S : Ast.schema) (F : Ast.features) (D : Ast.document),
  let ok (c : nat * nat) := (1 <= fst c <= InspectSteps.doc_nodes D)%nat /\ (snd c <= InspectSteps.doc_nodes D)%nat in
  (forall s0, ok (InspectSteps.visits (ValidatorModel.arguments_enter q pi S) (fun s => s) D s0))
  /\ (forall s0, ok (InspectSteps.visits (ValidatorModel.directives_enter q S) (fun s => s) D s0))
  /\ (forall s0, ok (InspectSteps.visits (ValidatorModel.values_enter q pi S) (fun s => s) D s0))
  /\ (forall s0, ok (InspectSteps.visits (ValidatorModel.fields_enter S F) ValidatorModel.pop D s0))
  /\ (forall s0, ok (InspectSteps.visits (ValidatorModel.decl_enter S F) (fun s => s) D s0))
  /\ (forall s0, ok (InspectSteps.visits (ValidatorModel.spreads_enter q pi S F D) ValidatorModel.pop D s0))
  /\ (forall s0, ok (InspectSteps.visits (ValidatorModel.merge_enter_m q pi S D) (fun s => s) D s0)).
Proof. exact InspectSteps.rule_visits_linear. Qed.

(** Defect 15 for every n >= 1: on  {...F0} fragment Fi on T{a{...F(i+1)} a{...F(i+1)}} (i < n)
    fragment Fn on T{i}  ([mfam n], size 13 n + 11) the pass of the pinned tree (nothing remembered)
    never runs out of fuel and calls validateSameResponseShape at least 2^n and at least 6^(n-1)/3
    times. *)
Theorem C12_merge_family_exponential_before_fix : forall n : nat, (1 <= n)%nat ->
  doc_size (mfam n) = 13 * Z.of_nat n + 11 /\
  match merge_run false (mfam n) with
  | MOk st | MErr st => 2 ^ Z.of_nat n <= n_shape st /\ 6 ^ Z.of_nat (n - 1) <= 3 * n_shape st
  | MOutOfFuel => False
  end.
Proof. exact merge_family_exponential_before_fix. Qed.

(** The growth function of the cost walk, for every document on which the walk ends without error:
    the number of fragment definitions it expands IS the number of spread paths starting in the
    operation ([paths]: a spread reached through fields and inline fragments counts once, plus once
    for every path starting in the body of the fragment it names). *)
Theorem C12_cost_run_expansions : forall (D : doc) (st : cst),
  cost_run D = COk st ->
  c_expansions st =
  match d_ops D with
  | [op] => paths (arr_of_list (d_fields D)) (arr_of_list (d_sets D)) (frag_table D) (cost_fuel D) (op_root op)
  | _ => 0
  end.
Proof. exact cost_run_expansions. Qed.

(** ... so a document whose fragment bodies contain no spread is walked with at most one expansion per
    spread occurrence below the operation: the complement of the known finding is linear. *)
Theorem C12_cost_run_linear_when_bodies_flat : forall (D : doc) (st : cst),
  (forall nm fd fuel, aget (frag_table D) nm = Some fd ->
                      occurrences (arr_of_list (d_fields D)) (arr_of_list (d_sets D)) fuel (fr_root fd) = 0) ->
  cost_run D = COk st ->
  c_expansions st <=
  match d_ops D with
  | [op] => occurrences (arr_of_list (d_fields D)) (arr_of_list (d_sets D)) (cost_fuel D) (op_root op)
  | _ => 0
  end.
Proof. exact cost_run_linear_when_bodies_flat. Qed.

(** Defect 16, known (key cost-walk-reexpansion): the property's clause "cost calculation
    included" is REFUTED for the cost walk.  For every n the document
      {...F0} fragment F0 on T{...F1 ...F1} ... fragment F(n-1) on T{...Fn ...Fn} fragment Fn on T{i}
    is well formed, has size 5 n + 11, and the walk of ValidateCost expands 2^(n+1) - 1 fragment
    definitions and visits 2^n field selections. *)
Theorem C12_cost_walk_exponential_refuted : forall n : nat,
  doc_wf (cost_family n) = true /\
  doc_size (cost_family n) = 5 * Z.of_nat n + 11 /\
  exists st, cost_run (cost_family n) = COk st
             /\ 2 ^ Z.of_nat n <= c_expansions st
             /\ 2 ^ Z.of_nat n <= c_fields st
             /\ 2 ^ Z.of_nat n <= c_steps st.
Proof. exact cost_walk_exponential. Qed.

(** Defect 15 (repaired: rw commit 100552d): the overlapping-fields pass without the sets of checked
    pairs on  fragment Fi on T{a{...F(i+1)} a{...F(i+1)}}, i < n  calls validateSameResponseShape
    6, 71, 632, 5027, 37574, 269921 times for n = 1..6 (the first four are the numbers measured on
    the pinned tree); with the sets of checked pairs 28 n - 37 times. *)
Theorem C12_merge_exponential_before_fix_witness :
  map (shape_calls false) (seq 1 6) = [6; 71; 632; 5027; 37574; 269921]
  /\ map (shape_calls true) (seq 1 6) = [3; 19; 47; 75; 103; 131]
  /\ forallb (fun n => 7 * shape_calls false n <=? shape_calls false (S n)) (seq 1 5) = true
  /\ forallb (fun n => doc_wf (merge_family n)) (seq 0 8) = true
  /\ forallb (fun n => doc_size (merge_family n) =? 13 * Z.of_nat n + 11) (seq 0 8) = true.
Proof. exact merge_exponential_before_fix_witness. Qed.

Theorem C12_merge_family_after_fix_witness :
  forallb (fun n => msteps true n =? 217 * Z.of_nat n - 170) [2; 3; 10; 40; 80; 160]%nat = true
  /\ forallb (fun n => msteps true n <=? merge_steps_bound (merge_family n)) [0; 1; 2; 3; 10; 40; 80; 160]%nat = true.
Proof. exact merge_family_after_fix_witness. Qed.

Print Assumptions C12_recursion_balanced.
Print Assumptions C12_parse_steps_linear.
Print Assumptions C12_depth_limit_iff.
Print Assumptions C12_flat_documents_never_hit_the_limit.
Print Assumptions C12_recursion_unbalanced_before_fix.
Print Assumptions C12_flat_document_refused_before_fix.
Print Assumptions C12_merge_steps_poly.
Print Assumptions C12_merge_steps_bound_poly.
Print Assumptions C12_cycle_steps_le_bound.
Print Assumptions C12_var_steps_le_bound.
Print Assumptions C12_parse_from_bytes_linear.
Print Assumptions C12_scan_steps_linear.
Print Assumptions C12_parse_depth_bounded.
Print Assumptions C12_inspect_visits_linear.
Print Assumptions C12_rule_visits_linear.
Print Assumptions C12_merge_family_exponential_before_fix.
Print Assumptions C12_cost_run_expansions.
Print Assumptions C12_cost_run_linear_when_bodies_flat.
Print Assumptions C12_cost_walk_exponential_refuted.
Print Assumptions C12_merge_exponential_before_fix_witness.
Print Assumptions C12_merge_family_after_fix_witness.
