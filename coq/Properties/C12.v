(** placeholder while the pipeline is brought up *)
From Coq Require Import List ZArith.
From ApiFu Require Import Cplx.ParserDepthModel.
Import ListNotations.
Theorem C12_placeholder : exists s, parse go_cfg [] = Err SyntaxErr s.
Proof. exact (ex_intro _ _ eq_refl). Qed.
Print Assumptions C12_placeholder.
