(** * C12 — parse/validate work is polynomially bounded; the depth limit is about depth only.
    This file contains only statements closed by [exact] and their [Print Assumptions].
    (interim: parser part) *)
From Coq Require Import List ZArith.
From ApiFu Require Import Cplx.ParserDepthModel Cplx.ComplexitySpec Cplx.ParserDepthProofs.
Import ListNotations.
Open Scope Z_scope.

Theorem C12_recursion_balanced : forall c, sel_exit c = true ->
  forall p fuel s s', run_production c p fuel s = Ok s' -> rec_ s' = rec_ s /\ opens s' = opens s.
Proof. exact recursion_balanced. Qed.

Theorem C12_parse_steps_linear : forall c, sel_exit c = true ->
  forall ts,
    match parse c ts with
    | Ok s' | Err _ s' => steps s' <= 8 * Z.of_nat (length ts) + 6
    | OutOfFuel => False
    end.
Proof. exact parse_steps_linear. Qed.

Theorem C12_depth_limit_iff : forall ts,
  (forall s', parse go_cfg ts = Err DepthErr s' -> 1000 < 6 + 4 * maxnest ts) /\
  (1000 < maxnest ts -> exists k s', parse go_cfg ts = Err k s').
Proof. exact depth_limit_iff. Qed.

Print Assumptions C12_recursion_balanced.
Print Assumptions C12_parse_steps_linear.
Print Assumptions C12_depth_limit_iff.
