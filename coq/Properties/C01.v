(** * C01 — the execution result equals the GraphQL (June 2018) execution algorithm's result.

    This file contains only statements, each closed by [exact], and their [Print Assumptions].

    Reading guide.
    - [run fixed S D E fuel W] (ExeA/ArgModel.v) is the transcription of graphql/executor's
      synchronous executor, memo cache included, after the two repairs (defects 1 and 7 of DESIGN
      section 6): schema [S], parsed document [D] (single operation, positions as the parser
      assigned them), coerced boolean variables [E] (for @skip/@include), resolver-outcome tree [W]
      (what every resolver returns, for every object value), [fuel] for fragment expansion.
      Its result is [Done data errors], [Panic] or [OutOfFuel].
    - [exec_spec S D E fuel W] (ExeA/ArgSpec.v) is the reference: ExecuteSelectionSet /
      CollectFields / ExecuteField / CompleteValue / ResolveAbstractType written from the
      specification, without state and without short-circuit, returning [data], [all_errors]
      (every field error the algorithm can raise) and [failure_nulls] (the nulls visible in data
      that a failure caused, each with the errors that propagated to exactly that position).
    - Hypotheses, all boolean and evaluated on every generated case by the correspondence check:
      [doc_ok S D E fuel n] — what validation guarantees, phrased as an execution over types:
      whatever object type is reached, every collected field is defined on it, field types are
      output types, type conditions name composite types, the fuel suffices;
      [doc_positions_okb D] — no two selection nodes of [D] share a position, lines < 2^24;
      [type_names_okb S] — type names have no zero byte;
      [dirs_evaluable D E] (implied by [doc_ok]) — every @skip/@include condition has a boolean
      value (a literal, or a variable whose coerced value is a boolean).
    Quantification: all schemas, documents, variable environments, outcome trees — no bound.

    INTERFACE TO C04 / C05 / C06 (what the neighbours have to deliver to discharge the hypotheses
    for a real request; none of it is assumed silently, each is a boolean hypothesis above):
      validate_ok_doc_ok (C04):  for the view [S] of an accepted schema ([schema_ok S]) and the
        abstraction [R] of a parsed document, if [validate_model repaired pi S F D = Done []], then for
        every operation [o] of [R] and coerced variables [vv] of it,
          exists n, doc_ok S (doc_of R o vv) (env_of_vars vv) (default_fuel (doc_of R o vv)) n = true.
        [doc_ok] is a conjunction; conjunct by conjunct, with the C04 theorem that is to discharge it
        (Properties/C04.v; "own" = a lemma of this development, no validation fact needed):
          (a) [conds_ok], type conditions: every inline fragment's and every fragment definition's
              type condition names no scalar, enum or input type ([cond_ok])
                <- valid_5_5_1 (5.5.1.2 type existence, 5.5.1.3 fragments on composite types):
                   C04_validate_verdict_partial, second conjunct.
          (b) [conds_ok], directives ([dirs_ok]): every @skip/@include condition is a boolean
              literal or a variable whose coerced value is a boolean
                <- valid_5_7 (directives defined, in a valid location, unique) and valid_5_6 (the
                   literal of [if:] coerces to Boolean!): C04_validate_verdict_partial, first and
                   fourth conjunct; for a variable: C04_variables_rule_iff (defined, allowed in a
                   Boolean! position) plus C05 (CoerceVariableValues gives a Boolean! variable a
                   boolean; a nullable Boolean variable with a default explicitly given null is
                   the one case left out: then this conjunct is false and C01 says nothing).
          (c) the operation's root type exists ([s_root_type S (op_kind D) <> None])
                <- valid_root: C04_accepted_operations_hold, third conjunct.
          (d) [sels_ok], collection: [s_collect] never runs out of fuel
                <- own: C01_collect_fuel_sufficient (unconditional for [default_fuel]; unknown or
                   cyclic fragment spreads are skipped by the visited set, so 5.5.2.1 / 5.5.2.2 are
                   NOT needed here).
          (e) [group_ok_with], every group is non-empty  <- own (groups come from [s_group]).
          (f) [group_ok_with], the group's field is __typename, a meta-field on the query root, or
              DEFINED on the object type at hand — for every object type a value at that position
              can have ([s_possible]: the type itself, the implementations of an interface, the
              members of a union)
                <- fields_defined / valid_5_3_1: C04_accepted_fields_hold (fields are defined on
                   the PARENT type of the selection set, incl. abstract parents) together with
                   [schema_ok S] (every implementation has the interface's fields; a field
                   selected directly on a union is only __typename); the step from "parent type"
                   to "every possible object type" is the interface lemma's own work.
          (g) [args_total]: coercing the first field node's arguments does not hit the
              "unsupported ... type" panic of the coercion code
                <- C05_request_no_panic for [env_closed (s_inputs S)] (part of [schema_ok]: every
                   named input type is defined); valid_5_4 (C04_accepted_arguments_hold) and
                   valid_5_6 are NOT needed for this conjunct — they make the coercion succeed,
                   which C01 does not require (a failing coercion is a field error).
          (h) [type_ok_with]: the field's type is an output type (scalar, enum, object, interface,
              union; not an input object, not undefined)  <- [schema_ok S] (schema construction).
          (i) [type_ok_with], recursion: for a composite field type the MERGED sub-selections of
              the group's field nodes satisfy (d)-(i) for every possible object type; for a leaf
              type nothing (5.3.3, leaf field selections, is not needed)
                <- the same theorems one level down; [n] bounds this recursion over types and is
                   monotone ([C01_doc_ok_mono]: fine with n => fine with every m >= n), so the
                   discharging lemma only has to exhibit SOME n.  [doc_depth D + 1] is NOT enough
                   (the nesting continues through fragment spreads:
                   [C01_level_bound_depth_plus_one_refuted]); without fragment cycles (5.5.2.2,
                   C04_cycle_search_iff) the number of levels is at most the sum of the depths of
                   the operation and the fragments, hence at most [default_fuel D], the value the
                   check evaluates; with a cycle such as F on O { o { ...F } } no n works.
                   [C01_doc_ok_acyclic] packages this: acyclicity (5.5.2.2:
                   C04_spreads_silent_acyclic, to be transported to [acyclic_frags]) plus an
                   n-free invariant Q give [doc_ok] with n = [default_fuel D].
        ALSO needed (correction, found by the C03 builder): 5.3.2 (field selection merging) for
        conjuncts (f) and (i).  The executor takes the field definition from the FIRST node of a
        group and executes the MERGED sub-selections of all its nodes on that field's type; two
        nodes under one response key that select different fields ({ a: o { i }  a: p { j } },
        o: Obj { i }, p: Obj2 { j }) put j into a selection set executed on Obj: [doc_ok] is
        false, and only 5.3.2 rejects the document (every other rule passes).  So the invariant Q
        of [C01_doc_ok_acyclic] must include "nodes sharing a response key on overlapping parent
        types select the same field with the same arguments".
        Not needed from validation at all: 5.2.x beyond the root type, 5.4 / 5.6 for field
        arguments, 5.5.2.1 / 5.5.2.3, 5.8 beyond what (b) uses.
      coerce_ok_dirs_evaluable (C05): CoerceVariableValues succeeding on a validated operation
        gives every declared Boolean! variable (and every Boolean variable that has a value or a
        non-null default) a boolean; the one remaining case — a nullable variable with a default,
        explicitly given null — is the case [dirs_evaluable] excludes (see
        [C01_collect_cache_transparent_refuted_before_fixd]).
      parse_pos_injective (C06_parse_pos_injective): distinct nodes of a parsed document have
        distinct positions: [doc_positions_okb]; schema.New's name check gives [type_names_okb].

    FOR C03 (no crash, no hang): [C01_exec_total] / [C01_request_total] need exactly
      (1) an accepted schema:            type_names_okb S = true;
      (2) a parsed, validated document:  doc_positions_okb D = true  and  doc_ok S D E fuel n = true
                                         for some n (with fuel = default_fuel D: [C01_exec_total_default_fuel]);
      (3) any outcome tree W of ordinary values (nil, typed nil, leaf values, slices, object
          values, resolver errors): W is universally quantified, there is no hypothesis on it.
    Nothing else: no bound on sizes, no hypothesis on resolvers' outcomes, none on variables
    beyond what [doc_ok] says about directive conditions. *)
From Coq Require Import List NArith ZArith Bool.
From ApiFu Require Val.Values.
From ApiFu Require Import Base.Sexp ExeA.ArgData ExeA.ArgArgs ExeA.ArgModel ExeA.ArgSpec ExeA.ArgHyps
     ExeA.ArgBaseProofs ExeA.ArgSpecProofs ExeA.ArgCacheProofs ExeA.ArgProofs
     ExeA.ArgOrderProofs ExeA.ArgShapeProofs ExeA.ArgFuelProofs ExeA.ArgVisibleProofs ExeA.ArgRequestProofs
     ExeA.ArgKeyOrder ExeA.ArgKeyOrderProofs ExeA.ArgLevelProofs ExeA.ArgAcyclicProofs ExeA.ArgDirProofs.
Import ListNotations.

(** The executor finishes: no panic, fragment expansion never runs out of fuel. *)
Theorem C01_exec_total : forall S D E fuel n W,
  type_names_okb S = true -> doc_positions_okb D = true -> doc_ok S D E fuel n = true ->
  exists d errs, run fixed S D E fuel W = Done d errs.
Proof. exact (fun S D E fuel n W Hn Hp Hd => exec_total S D E fuel Hn Hp n Hd W). Qed.

(** for C03 (round 8): the same WITHOUT the directive conjunct.  [doc_ok_nodirs] is [doc_ok] with
    [dirs_ok] dropped from the deep predicate (the type conditions [cond_ok] stay; [sels_ok] is
    unchanged): a validated request whose @skip/@include condition cannot be evaluated (a nullable
    variable with a default, explicitly null) satisfies it.  The executor still finishes — it
    leaves such a selection out and reports the directive — and its data is the reference's
    (whose CollectFields is totalised the same way) and has a JSON form.  Nothing is said about
    the errors here.  Proof: cache transparency, then [run_report_independent] (without the cache
    no function of the executor reads what has been reported, so the real executor and one that
    is silent about unevaluable directives return the same), then the simulation for the silent
    executor, which needs no hypothesis on directives. *)
Theorem C01_doc_ok_implies_nodirs : forall S D E fuel n,
  doc_ok S D E fuel n = true -> doc_ok_nodirs S D E fuel n = true.
Proof. exact doc_ok_nodirs_of_doc_ok. Qed.

Theorem C01_exec_total_nodirs : forall S D E fuel n W,
  type_names_okb S = true -> doc_positions_okb D = true -> doc_ok_nodirs S D E fuel n = true ->
  exists d errs, run fixed S D E fuel W = Done d errs.
Proof. exact (fun S D E fuel n W Hn Hp Hd => exec_total_nodirs S D E fuel Hn Hp n W Hd). Qed.

Theorem C01_exec_data_eq_nodirs : forall S D E fuel n W d errs,
  type_names_okb S = true -> doc_positions_okb D = true -> doc_ok_nodirs S D E fuel n = true ->
  run fixed S D E fuel W = Done d errs -> d = data (exec_spec S D E fuel W).
Proof. exact (fun S D E fuel n W d errs Hn Hp Hd => exec_data_eq_nodirs S D E fuel Hn Hp n W d errs Hd). Qed.

Theorem C01_exec_data_finite_nodirs : forall S D E fuel n W j errs,
  type_names_okb S = true -> doc_positions_okb D = true -> doc_ok_nodirs S D E fuel n = true ->
  run fixed S D E fuel W = Done (Some j) errs -> json_finite j = true.
Proof. exact (fun S D E fuel n W j errs Hn Hp Hd => exec_data_finite_nodirs S D E fuel Hn Hp n W j errs Hd). Qed.

(** [C01_doc_ok_acyclic] for [doc_ok_nodirs]: same Q, [conds_ok] replaced by its type-condition half *)
Theorem C01_doc_ok_nodirs_acyclic : forall S D E fuel (Q : name -> list selection -> Prop) rt,
  acyclic_frags D ->
  conds_gen S D E false = true ->
  s_root_type S (op_kind D) = Some rt ->
  (forall ot sels, Q ot sels ->
     exists groups, s_collect S D E fuel ot sels = Some groups /\ Forall (group_local S D Q ot) groups) ->
  Q rt (op_sels D) ->
  doc_ok_nodirs S D E fuel (default_fuel D) = true.
Proof. exact doc_ok_nodirs_acyclic. Qed.

(** the instance C03 uses: the fuel the executor model is run with in the check *)
Theorem C01_exec_total_default_fuel : forall S D E n W,
  type_names_okb S = true -> doc_positions_okb D = true -> doc_ok S D E (default_fuel D) n = true ->
  exists d errs, run fixed S D E (default_fuel D) W = Done d errs.
Proof. exact (fun S D E n W Hn Hp Hd => exec_total S D E (default_fuel D) Hn Hp n Hd W). Qed.

(** data is exactly the reference's data: response keys in document order after fragment
    expansion, merging, @skip/@include; leaves coerced; null in place of a failed nullable
    field; a failed non-null field nulls its nearest nullable ancestor, or the whole data. *)
Theorem C01_exec_data_eq : forall S D E fuel n W d errs,
  type_names_okb S = true -> doc_positions_okb D = true -> doc_ok S D E fuel n = true ->
  run fixed S D E fuel W = Done d errs ->
  d = data (exec_spec S D E fuel W).
Proof. exact (fun S D E fuel n W d errs Hn Hp Hd => exec_data_eq S D E fuel Hn Hp n Hd W d errs). Qed.

(** errors_model is a sub-multiset of allErrors_spec, keyed by (path, locations): nothing is
    reported that the algorithm does not raise, and nothing twice. *)
Theorem C01_exec_errors_sound : forall S D E fuel n W d errs,
  type_names_okb S = true -> doc_positions_okb D = true -> doc_ok S D E fuel n = true ->
  run fixed S D E fuel W = Done d errs ->
  forall e, (count e errs <= count e (all_errors (exec_spec S D E fuel W)))%nat.
Proof. exact (fun S D E fuel n W d errs Hn Hp Hd => exec_errors_sound S D E fuel Hn Hp n Hd W d errs). Qed.

(** ... and even in the reference's order (a subsequence). *)
Theorem C01_exec_errors_subseq : forall S D E fuel n W d errs,
  type_names_okb S = true -> doc_positions_okb D = true -> doc_ok S D E fuel n = true ->
  run fixed S D E fuel W = Done d errs ->
  subseq errs (all_errors (exec_spec S D E fuel W)).
Proof. exact (fun S D E fuel n W d errs Hn Hp Hd => exec_errors_subseq S D E fuel Hn Hp n Hd W d errs). Qed.

(** every null that a failure leaves visible in data is explained by exactly one reported error
    (one of the errors that propagated to that position). *)
Theorem C01_exec_errors_complete : forall S D E fuel n W d errs,
  type_names_okb S = true -> doc_positions_okb D = true -> doc_ok S D E fuel n = true ->
  run fixed S D E fuel W = Done d errs ->
  forall p cands, In (p, cands) (failure_nulls (exec_spec S D E fuel W)) ->
    length (filter (fun e => existsb (gerror_eqb e) cands) errs) = 1%nat.
Proof.
  exact (fun S D E fuel n W d errs Hn Hp Hd Hr p cands Hin =>
           proj1 (Forall_forall _ _) (exec_errors_complete S D E fuel Hn Hp n Hd W d errs Hr) (p, cands) Hin).
Qed.

(** ... where a failure null of the reference really is a null visible in its data, and the
    errors that explain it lie under that position (their paths extend it). *)
Theorem C01_failure_nulls_visible : forall S D E fuel W p cands,
  In (p, cands) (failure_nulls (exec_spec S D E fuel W)) ->
  match data (exec_spec S D E fuel W) with
  | Some j => json_at j p = Some JNull
  | None => p = []
  end /\ Forall (fun e => exists r, e_path e = p ++ r) cands.
Proof. exact failure_nulls_visible. Qed.

(** stage 2 / round 4: the memo cache of collectFields (keyed by object type name and the positions
    of the selections) is transparent: with and without it the executor returns the same
    response — data AND errors — for every document (typed or not, directives evaluable or not)
    whose selection nodes have distinct positions.  Since fix-C01's "report each directive once
    per operation" this no longer needs [dirs_evaluable]. *)
Theorem C01_collect_cache_transparent : forall S D E fuel W,
  type_names_okb S = true -> doc_positions_okb D = true ->
  run fixed S D E fuel W = run fixed_nomemo S D E fuel W.
Proof. exact (fun S D E fuel W Hn Hp => collect_cache_transparent S D E fuel Hn Hp W). Qed.

(** ... before that repair it was not: collectFields reported a directive whose condition cannot be
    evaluated on every traversal, i.e. on cache misses only ({ l { a @include(if: $s) } }, l a list
    of two objects, no value for $s: one error with the cache, two without; now one and one). *)
Theorem C01_collect_cache_transparent_refuted_before_fixd :
  exists S D E fuel W,
    type_names_okb S = true /\ doc_positions_okb D = true /\ dirs_evaluable D E = false /\
    exists d e, run before_fixd S D E fuel W = Done d [e] /\ run before_fixd_nomemo S D E fuel W = Done d [e; e] /\
                run fixed S D E fuel W = Done d [e] /\ run fixed_nomemo S D E fuel W = Done d [e].
Proof. exact collect_cache_transparent_refuted_before_fixd. Qed.

(** why: the memo key ([cache_key]: the type's name, then line and column of EVERY selection of
    the list, as the code builds it) determines the object type and the list of positions — for
    type names without zero byte, lines < 2^24 and columns < 2^32 — and inside one document with
    distinct positions a list of positions determines the list of selection nodes. *)
Theorem C01_cache_key_injective : forall ot ot' a b,
  Forall (fun x => x <> 0%N) ot -> Forall (fun x => x <> 0%N) ot' ->
  Forall (fun s => (line (sel_pos s) < 16777216)%N /\ (col (sel_pos s) < 4294967296)%N) a ->
  Forall (fun s => (line (sel_pos s) < 16777216)%N /\ (col (sel_pos s) < 4294967296)%N) b ->
  cache_key ot a = cache_key ot' b -> ot = ot' /\ map sel_pos a = map sel_pos b.
Proof. exact (fun ot ot' a b => cache_key_inj ot ot' a b). Qed.

(** ... and a key that keeps less is not transparent: with (type, first selection, number of
    selections) ([coarse_key], mode [coarse_memo]) a fragment's field node that merges with
    different sibling nodes at two spread sites makes two merged sub-selection lists collide
    ({ p: o { ...F o { s } } q: o { ...F o { sn } } }  fragment F on O { o { __typename } }): the
    response differs from the cache-free one, on a typed document with distinct positions. *)
Theorem C01_collect_cache_transparent_refuted_coarse_key :
  exists S D E fuel n W,
    type_names_okb S = true /\ doc_positions_okb D = true /\ doc_ok S D E fuel n = true /\
    run coarse_memo S D E fuel W <> run fixed_nomemo S D E fuel W /\
    run fixed S D E fuel W = run fixed_nomemo S D E fuel W /\
    exists ot l1 l2, l1 <> l2 /\ coarse_key ot l1 = coarse_key ot l2 /\ cache_key ot l1 <> cache_key ot l2.
Proof. exact collect_cache_transparent_refuted_coarse_key. Qed.

(** stage B: GetOperation.  The executor's loop over the definitions selects exactly the operation
    the specification determines (no name: the only operation; a name: the only operation of
    that name) ... *)
Theorem C01_get_operation_refines_spec : forall R opname o,
  get_operation R opname = GOp o <-> s_get_operation R (opname_of opname) = Some o.
Proof. exact get_operation_refines_spec. Qed.

(** ... a request that determines an operation, and whose raw variables [raw] coerce for it
    (CoerceVariableValues, C05's transcription), is executed as that operation with the coerced
    variables (so every theorem of this file speaks about [run_request] through [doc_of R o vv];
    what @skip/@include see of the variables is [env_of_vars vv]) ... *)
Theorem C01_run_request_selected : forall M S R opname raw fuel W o vv,
  s_get_operation R (opname_of opname) = Some o ->
  coerce_request_vars S o raw = Values.Ok vv ->
  run_request M S R opname raw fuel W = run M S (doc_of R o vv) (env_of_vars vv) fuel W.
Proof. exact run_request_selected. Qed.

(** ... one whose variables do not coerce is refused: no data, exactly one error, without path ... *)
Theorem C01_run_request_vars_refused : forall M S R opname raw fuel W o,
  s_get_operation R (opname_of opname) = Some o ->
  coerce_request_vars S o raw = Values.Err ->
  exists e, run_request M S R opname raw fuel W = Done None [e] /\ e_path e = [].
Proof. exact run_request_vars_refused. Qed.

(** ... and one that determines no operation (no name and several operations, no or several
    operations of the name) likewise. *)
Theorem C01_run_request_refused : forall M S R opname raw fuel W,
  s_get_operation R (opname_of opname) = None ->
  exists e, run_request M S R opname raw fuel W = Done None [e] /\ e_path e = [].
Proof. exact run_request_refused. Qed.

(** whole requests never crash: composed statement for C03 *)
Theorem C01_request_total : forall S R opname raw n W,
  type_names_okb S = true ->
  (forall o, s_get_operation R (opname_of opname) = Some o ->
     coerce_request_vars S o raw <> Values.Panic /\
     forall vv, coerce_request_vars S o raw = Values.Ok vv ->
       doc_positions_okb (doc_of R o vv) = true /\
       doc_ok S (doc_of R o vv) (env_of_vars vv) (default_fuel (doc_of R o vv)) n = true) ->
  forall fuel, (forall o vv, s_get_operation R (opname_of opname) = Some o -> fuel = default_fuel (doc_of R o vv)) ->
  exists d errs, run_request fixed S R opname raw fuel W = Done d errs.
Proof. exact request_total. Qed.

(** stage 2: response keys are in document order after fragment expansion, merging and
    @skip/@include: the root object's keys are the response keys of the collected field nodes
    ([s_collect_flat]: the selected field nodes in document order) in order of first appearance.
    [C01_selection_set_order] says the same of every selection set the reference executes, at
    any depth (and data is the reference's data, C01_exec_data_eq). *)
Theorem C01_exec_order : forall S D E fuel n W j errs,
  type_names_okb S = true -> doc_positions_okb D = true -> doc_ok S D E fuel n = true ->
  run fixed S D E fuel W = Done (Some j) errs ->
  exists rt visited flat kvs,
    s_root_type S (op_kind D) = Some rt /\
    s_collect_flat S D E fuel rt (op_sels D) [] = Some (visited, flat) /\
    j = JObj kvs /\ map fst kvs = first_occurrences (map fst flat) [].
Proof. exact (fun S D E fuel n W j errs => exec_order S D E fuel n W j errs). Qed.

Theorem C01_selection_set_order : forall S D E fuel n children ot sels path j,
  sels_ok S D E fuel n ot sels = true ->
  so_val (s_selection_set S D E fuel children ot sels path) = Some j ->
  exists visited flat kvs,
    s_collect_flat S D E fuel ot sels [] = Some (visited, flat) /\
    j = JObj kvs /\ map fst kvs = first_occurrences (map fst flat) [].
Proof. exact (fun S D E fuel n children ot sels path j => selection_set_order S D E fuel n children ot sels path j). Qed.

(** stage B: the same as ONE recursive predicate over the whole data (ExeA/ArgKeyOrder.v):
    [ordered_obj S D E fuel ot sels kvs] — the entries [kvs] of an object are, in this order, one
    per group of CollectFields(ot, sels) (field nodes after fragment expansion and
    @skip/@include, grouped by response key in order of first appearance), each under its
    group's key, and each value is [ordered] for the group's field type and field nodes: null, a
    list of ordered items, a leaf, or an object that is [ordered_obj] for a possible object type
    of the field's type and the MERGED sub-selections of the group's field nodes. *)
Theorem C01_exec_data_ordered : forall S D E fuel n W j errs,
  type_names_okb S = true -> doc_positions_okb D = true -> doc_ok S D E fuel n = true ->
  run fixed S D E fuel W = Done (Some j) errs ->
  exists rt kvs, s_root_type S (op_kind D) = Some rt /\ j = JObj kvs /\
                 ordered_obj S D E fuel rt (op_sels D) kvs.
Proof. exact exec_data_ordered. Qed.

(** ... which contains the statement about the keys, for every object at every depth *)
Theorem C01_ordered_obj_keys : forall S D E fuel ot sels kvs,
  ordered_obj S D E fuel ot sels kvs ->
  exists visited flat, s_collect_flat S D E fuel ot sels [] = Some (visited, flat) /\
                       map fst kvs = first_occurrences (map fst flat) [].
Proof. exact ordered_obj_keys. Qed.

(** stage 2: the shape of every reported error.  It belongs to a field instance of the execution
    ([field_instance]: a field at response path p selected by the field nodes [fields], reached
    from the root through collected fields, list items and resolved object types); its path is p,
    continued by list indices when the failure is inside a list value; its locations are the
    position of the first field node, or the positions of ALL field nodes that selected the field
    when the resolver itself failed. *)
Theorem C01_exec_error_shape : forall S D E fuel n W d errs rt e,
  type_names_okb S = true -> doc_positions_okb D = true -> doc_ok S D E fuel n = true ->
  run fixed S D E fuel W = Done d errs ->
  s_root_type S (op_kind D) = Some rt -> In e errs ->
  exists p fields,
    field_instance S D E fuel rt W (op_sels D) [] p fields /\
    exists idxs, e_path e = p ++ map PIdx idxs /\
                 (e_locs e = first_loc fields \/ (idxs = [] /\ e_locs e = map fn_pos fields)).
Proof. exact exec_error_shape. Qed.

(** the level bound [n] of [doc_ok] is monotone ... *)
Theorem C01_doc_ok_mono : forall S D E fuel n m,
  (n <= m)%nat -> doc_ok S D E fuel n = true -> doc_ok S D E fuel m = true.
Proof. exact doc_ok_mono. Qed.

(** how an n is exhibited (round 6).  [lv D sels n]: the field nesting of [sels], fragment spreads
    expanded, is at most n levels ([ArgLevelProofs.lv]; a derivation exists only if the expansion
    terminates); [levels D k sels] computes it with k as the fuel of the expansion and is sound.
    Every field node CollectFields returns has sub-selections one level lower, so an n-free
    invariant Q of (object type, selection list) — it guarantees collection and the local
    conditions [group_local] and is inherited by the merged sub-selections — gives [doc_ok] with
    n = levels + 1.  C04 supplies Q ("validated selection set for parent type ot"), [conds_ok],
    the root type, and acyclicity; round 7 proves the rest: when no fragment reaches itself
    ([acyclic_frags D]: no defined fragment occurs in a path of the spread graph — [chain] — that
    starts in its own body; the form of C04_spreads_silent_acyclic on this encoding) such a path
    has pairwise distinct defined fragments, hence at most [length (frags D)] of them
    (pigeonhole, [C01_chain_short]); the expansion of [levels] spends one unit of fuel per step
    of a path and every step adds at most [doc_depth D] levels, so [levels] terminates with a
    value below [default_fuel D] ([C01_acyclic_levels]) and [doc_ok] holds with the very bound
    the check evaluates ([C01_doc_ok_acyclic]). *)
Theorem C01_levels_sound : forall D k sels n, levels D k sels = Some n -> lv D sels n.
Proof. exact levels_sound. Qed.

Theorem C01_collected_nodes_are_one_level_lower : forall S D E fuel ot sels visited v flat n,
  lv D sels n -> s_collect_flat S D E fuel ot sels visited = Some (v, flat) ->
  Forall (fun kf => exists m, n = Datatypes.S m /\ lv D (fn_sub (snd kf)) m) flat.
Proof. exact collected_lower. Qed.

Theorem C01_doc_ok_intro : forall S D E fuel (Q : name -> list selection -> Prop) rt k n,
  conds_ok S D E = true ->
  s_root_type S (op_kind D) = Some rt ->
  (forall ot sels, Q ot sels ->
     exists groups, s_collect S D E fuel ot sels = Some groups /\ Forall (group_local S D Q ot) groups) ->
  Q rt (op_sels D) ->
  levels D k (op_sels D) = Some n ->
  doc_ok S D E fuel (Datatypes.S n) = true.
Proof. exact doc_ok_intro. Qed.

(** round 7: the pigeonhole — in a document without fragment cycles a path of the spread graph is
    no longer than the number of fragment definitions ... *)
Theorem C01_chain_short : forall D sels l,
  acyclic_frags D -> chain D sels l -> (length l <= length (frags D))%nat.
Proof. exact chain_short. Qed.

(** ... so the level count terminates, below [default_fuel D], for every selection list no deeper
    than the document ... *)
Theorem C01_acyclic_levels : forall D sels,
  acyclic_frags D -> (sels_depth sels <= doc_depth D)%nat ->
  exists n, levels D (Datatypes.S (length (frags D))) sels = Some n /\ (Datatypes.S n <= default_fuel D)%nat.
Proof. exact acyclic_levels. Qed.

(** ... and [doc_ok] holds with the bound the check evaluates, given from validation only
    acyclicity, [conds_ok], the root type and the n-free invariant Q. *)
Theorem C01_doc_ok_acyclic : forall S D E fuel (Q : name -> list selection -> Prop) rt,
  acyclic_frags D ->
  conds_ok S D E = true ->
  s_root_type S (op_kind D) = Some rt ->
  (forall ot sels, Q ot sels ->
     exists groups, s_collect S D E fuel ot sels = Some groups /\ Forall (group_local S D Q ot) groups) ->
  Q rt (op_sels D) ->
  doc_ok S D E fuel (default_fuel D) = true.
Proof. exact doc_ok_acyclic. Qed.

(** ... and depth + 1 levels are not enough in general *)
Theorem C01_level_bound_depth_plus_one_refuted :
  exists S D E,
    doc_ok S D E (default_fuel D) (doc_depth D + 1) = false /\
    doc_ok S D E (default_fuel D) (default_fuel D) = true.
Proof. exact level_bound_depth_plus_one_refuted. Qed.

(** the fuel bound: with [default_fuel D] = (fragment definitions + 1) * (nesting depth + 1),
    CollectFields never runs out of fuel on a selection list no deeper than the document (the
    operation's selections, a fragment body, merged sub-selections of collected fields) — so
    [doc_ok S D E (default_fuel D) n] can only fail for typing reasons. *)
Theorem C01_collect_fuel_sufficient : forall S D E ot sels visited,
  (sels_depth sels <= doc_depth D)%nat ->
  s_collect_flat S D E (default_fuel D) ot sels visited <> None.
Proof. exact collect_fuel_sufficient. Qed.

(** the reference's bookkeeping is coherent: in what the spec returns no two errors share a path,
    every error lies under the path of the value it was raised in, and the errors that explain a
    failure null were recorded. *)
Theorem C01_spec_selection_set_wf : forall S D E fuel W ot sels path,
  swf path (s_selection_set S D E fuel (s_children_of S D E fuel W) ot sels path).
Proof.
  exact (fun S D E fuel W ot sels path =>
           proj1 (swf_selection_set S D E fuel (s_children_of S D E fuel W) ot sels path
                                    (wf_s_children_of S D E fuel W))).
Qed.

(** result coercion: Int results are 32-bit, Float results finite; data always has a JSON form
    (defect 7 repaired). *)
Theorem C01_int_result_in_range : forall g z, gval_wf g -> coerce_int g = Some z -> in_int32 z = true.
Proof. exact coerce_int_range. Qed.

Theorem C01_exec_data_finite : forall S D E fuel n W j errs,
  type_names_okb S = true -> doc_positions_okb D = true -> doc_ok S D E fuel n = true ->
  run fixed S D E fuel W = Done (Some j) errs -> json_finite j = true.
Proof. exact (fun S D E fuel n W j errs Hn Hp Hd => exec_data_finite S D E fuel Hn Hp n Hd W j errs). Qed.

(** the two repaired defects, kept as witnesses: the transcription of the code before each
    repair violates the property on a typed document.
    Defect 1: {f} with f: Int! whose resolver returns a string gives {"f": null} and no error.
    Defect 7: a Float resolver returning NaN puts NaN into data. *)
Theorem C01_exec_data_eq_refuted_before_fix1 :
  exists S D E fuel n W d errs,
    doc_ok S D E fuel n = true /\ type_names_okb S = true /\ doc_positions_okb D = true /\
    run before_fix1 S D E fuel W = Done d errs /\
    d <> data (exec_spec S D E fuel W) /\ errs = [].
Proof. exact exec_data_eq_refuted_before_fix1. Qed.

Theorem C01_exec_data_finite_refuted_before_fix7 :
  exists S D E fuel n W j errs,
    doc_ok S D E fuel n = true /\ type_names_okb S = true /\ doc_positions_okb D = true /\
    run before_fix7 S D E fuel W = Done (Some j) errs /\ json_finite j = false.
Proof. exact exec_data_finite_refuted_before_fix7. Qed.

Print Assumptions C01_exec_total.
Print Assumptions C01_exec_total_default_fuel.
Print Assumptions C01_doc_ok_implies_nodirs.
Print Assumptions C01_exec_total_nodirs.
Print Assumptions C01_exec_data_eq_nodirs.
Print Assumptions C01_exec_data_finite_nodirs.
Print Assumptions C01_doc_ok_nodirs_acyclic.
Print Assumptions C01_collect_cache_transparent_refuted_before_fixd.
Print Assumptions C01_cache_key_injective.
Print Assumptions C01_collect_cache_transparent_refuted_coarse_key.
Print Assumptions C01_get_operation_refines_spec.
Print Assumptions C01_run_request_selected.
Print Assumptions C01_run_request_vars_refused.
Print Assumptions C01_run_request_refused.
Print Assumptions C01_request_total.
Print Assumptions C01_exec_data_ordered.
Print Assumptions C01_ordered_obj_keys.
Print Assumptions C01_exec_data_eq.
Print Assumptions C01_exec_errors_sound.
Print Assumptions C01_exec_errors_subseq.
Print Assumptions C01_exec_errors_complete.
Print Assumptions C01_failure_nulls_visible.
Print Assumptions C01_collect_cache_transparent.
Print Assumptions C01_exec_order.
Print Assumptions C01_selection_set_order.
Print Assumptions C01_exec_error_shape.
Print Assumptions C01_doc_ok_mono.
Print Assumptions C01_levels_sound.
Print Assumptions C01_collected_nodes_are_one_level_lower.
Print Assumptions C01_doc_ok_intro.
Print Assumptions C01_chain_short.
Print Assumptions C01_acyclic_levels.
Print Assumptions C01_doc_ok_acyclic.
Print Assumptions C01_level_bound_depth_plus_one_refuted.
Print Assumptions C01_collect_fuel_sufficient.
Print Assumptions C01_spec_selection_set_wf.
Print Assumptions C01_int_result_in_range.
Print Assumptions C01_exec_data_finite.
Print Assumptions C01_exec_data_eq_refuted_before_fix1.
Print Assumptions C01_exec_data_finite_refuted_before_fix7.
