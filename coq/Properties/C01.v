(** placeholder while the correspondence is being built *)
Theorem C01_placeholder : True.
Proof. exact I. Qed.
Print Assumptions C01_placeholder.
