(** * C05 — placeholder while the pipeline is brought up *)
From Coq Require Import List NArith ZArith Bool.
From ApiFu Require Import Base.Sexp Val.Values Val.CoerceModel Val.CoerceSpec Val.CoerceProofs.

Theorem C05_null_literal : forall fx E dt vv t a,
  coerce_literal fx E dt vv LNull t a = (if is_nonnull t then Err else Ok GNil).
Proof. exact placeholder_null_literal. Qed.

Print Assumptions C05_null_literal.
