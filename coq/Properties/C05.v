(** * C05 — resolvers, directive filters and cost functions only ever observe spec-coerced,
    type-conforming inputs.  This file contains only statements closed by [exact] and their
    [Print Assumptions].

    Model (Val/CoerceModel.v): [coerce_variable_values], [coerce_argument_values],
    [coerce_literal], [coerce_var_value], [static_ok] (the validator's value / variable / argument
    rules), [run_request], [cost_observation], parameterised by which repairs are applied
    ([all_fixed]: the tree the check runs against; [pinned]: the tree as found).
    Spec (Val/CoerceSpec.v): [conforms], [ref_coerce] (RefCoerce), [ref_request]. *)
From Coq Require Import List NArith ZArith Bool.
From ApiFu Require Import Base.Sexp Val.Values Val.CoerceModel Val.CoerceSpec Val.CoerceProofs Val.FloatExact Val.CoerceReasons Val.CoerceRefine Val.CoerceRoutes Val.CoerceSameValue Val.CoerceTotal Val.CoerceComplete Val.BridgeC04 Val.BridgeC04Proofs Val.BridgeC04Doc Val.BridgeC04Full Val.FloatRange Val.FloatText Val.Rfc3339 Val.Rfc3339Facts.
From ApiFu Require Vld.Ast Vld.ValidatorModel Vld.Inspect Vld.TypeInfoModel Vld.ProofsValues Vld.ProofsTypeInfoValues.
Import ListNotations.

(** Hypotheses, all true of the real system and checked on every case of the correspondence:
    [schema_ok]: declared defaults are values of their declared types and enum payloads are not
    nil (the library trusts the schema author on both), names in a Go map are unique;
    [request_ok]: variable default values are constant literals (the parser guarantees it), a Go
    [int] is a 64-bit integer and a Go map has each key once. *)

(** Every argument map the resolver is called with conforms to the declared argument types:
    for all type environments (scalars, enums, input objects with defaults and InputCoercion
    hooks, recursive ones included), argument definitions, variable definitions, argument literals
    (variables anywhere inside) and raw variable values. *)
Theorem C05_args_conform : forall E dt site argdefs defs args raw vv m,
  schema_ok E argdefs -> request_ok defs raw ->
  static_ok all_fixed E dt site argdefs defs args = true ->
  coerce_variable_values all_fixed E dt defs raw = Ok vv ->
  coerce_argument_values all_fixed E dt argdefs args vv = Ok m ->
  args_conform_b E argdefs m = true.
Proof. exact args_conform. Qed.

Theorem C05_called_args_conform : forall E dt site argdefs defs args raw m,
  schema_ok E argdefs -> request_ok defs raw ->
  run_request all_fixed E dt site argdefs defs args raw = OCalled m ->
  args_conform_b E argdefs m = true.
Proof. exact called_args_conform. Qed.

(** the cost function (ValidateCost) is one more observer *)
Theorem C05_cost_args_conform : forall E dt site argdefs defs args raw m,
  schema_ok E argdefs -> request_ok defs raw ->
  In m (cost_observation all_fixed E dt site argdefs defs args raw) ->
  args_conform_b E argdefs m = true.
Proof. exact cost_args_conform. Qed.

(** what [args_conform_b] and [conforms] say, spelled out *)
Theorem C05_conform_per_argument : forall E argdefs m a d,
  args_conform_b E argdefs m = true -> In (a, d) argdefs ->
  match aget a m with
  | Some g => conforms E g (in_type d) = true
  | None => is_nonnull (in_type d) = false /\ in_default d = None
  end.
Proof. exact args_conform_b_arg. Qed.

Theorem C05_never_null_at_non_null : forall E g t,
  conforms E g (StNonNull t) = true -> g <> GNil /\ conforms E g t = true.
Proof. exact conforms_nonnull_not_nil. Qed.

Theorem C05_always_a_list_at_list_type : forall E g t,
  conforms E g (StList t) = true ->
  g = GNil \/ exists items, g = GList items /\ Forall (fun x => conforms E x t = true) items.
Proof. exact conforms_list_is_list. Qed.

Theorem C05_declared_enum_value : forall E g n vals,
  aget n E = Some (TEnum vals) -> conforms E g (StNamed n) = true ->
  g = GNil \/ exists x v, In (x, v) vals /\ gval_eqb v g = true.
Proof. exact conforms_enum_declared. Qed.

Theorem C05_complete_field_map : forall E g n fields h,
  aget n E = Some (TInput fields h) -> conforms E g (StNamed n) = true ->
  g = GNil \/
  exists kvs, (g = GMap kvs \/ exists tag, g = GTagged tag (GMap kvs)) /\
              keys_sorted kvs = true /\
              (forall k x, In (k, x) kvs -> exists fd, aget k fields = Some fd /\ conforms E x (in_type fd) = true) /\
              (forall f fd, In (f, fd) fields -> ahas f kvs = true \/ (is_nonnull (in_type fd) = false /\ in_default fd = None)).
Proof. exact conforms_object_complete. Qed.

(** ** coerce_refines_ref: the model computes RefCoerce.  [agrees r o]: [r = Ok g] iff [o = Some g],
    [r = Err] iff [o = None] (a Go panic, which only an unknown named type can cause, agrees with
    anything).  Variable values (JSON transport): *)
Theorem C05_var_value_refines : forall E dt j, jval_ok j = true ->
  forall t a, agrees (coerce_var_value all_fixed E dt j t a) (ref_coerce E dt TJson (abs_json j) t a).
Proof. exact (fun E dt => var_value_refines all_fixed E dt eq_refl eq_refl). Qed.

(** literals, variables anywhere inside ([lit_nodup]: no object in it names a field twice, which
    the validator rejects) *)
Theorem C05_literal_refines : forall E dt vv l, env_ok E = true -> lit_nodup l = true ->
  forall t a, agrees (coerce_literal all_fixed E dt vv l t a) (ref_coerce E dt TLiteral (abs_lit vv l) t a).
Proof. exact (fun E dt vv l HE => literal_refines all_fixed E dt HE eq_refl eq_refl vv l). Qed.

(** the whole request: for every document the validator accepts, the resolver is called with
    exactly the reference coercion (6.1.2 + 6.4.1), and when there is none the client gets an
    error and nothing is called *)
Theorem C05_request_refines : forall E dt, env_ok E = true -> forall site argdefs defs args raw,
  (forall p, In p raw -> jval_ok (snd p) = true) ->
  static_ok all_fixed E dt site argdefs defs args = true ->
  match run_request all_fixed E dt site argdefs defs args raw with
  | OCalled m => ref_request E dt argdefs defs args raw = Some m
  | ORuntimeError => ref_request E dt argdefs defs args raw = None
  | OPanic => True
  | OStaticReject => False
  end.
Proof. exact request_refines. Qed.

Theorem C05_called_is_reference : forall E dt, env_ok E = true -> forall site argdefs defs args raw m,
  (forall p, In p raw -> jval_ok (snd p) = true) ->
  run_request all_fixed E dt site argdefs defs args raw = OCalled m ->
  ref_request E dt argdefs defs args raw = Some m.
Proof. exact called_is_reference. Qed.

(** reject_no_call *)
Theorem C05_reject_no_call : forall E dt, env_ok E = true -> forall site argdefs defs args raw,
  (forall p, In p raw -> jval_ok (snd p) = true) ->
  ref_request E dt argdefs defs args raw = None ->
  forall m, run_request all_fixed E dt site argdefs defs args raw <> OCalled m.
Proof. exact reject_no_call. Qed.

Theorem C05_reference_is_served : forall E dt, env_ok E = true -> forall site argdefs defs args raw m,
  (forall p, In p raw -> jval_ok (snd p) = true) ->
  static_ok all_fixed E dt site argdefs defs args = true ->
  ref_request E dt argdefs defs args raw = Some m ->
  run_request all_fixed E dt site argdefs defs args raw = OCalled m \/
  run_request all_fixed E dt site argdefs defs args raw = OPanic.
Proof. exact reference_is_served. Qed.

(** ** no panic, and the outcome is exactly the reference.  [env_closed E]: every named type an input
    object of the schema mentions is defined; [sty_closed E t]: the same for one type expression.
    Both are true of every schema the library builds (types are Go pointers) and are checked on
    every case.  Then the coercion code never panics, for every document, valid or not, and for
    the code as found as well as the repaired one ([fx] arbitrary): *)
Theorem C05_request_no_panic : forall E dt, env_closed E = true -> forall fx site argdefs defs args raw,
  (forall ad, In ad argdefs -> sty_closed E (in_type (snd ad)) = true) ->
  run_request fx E dt site argdefs defs args raw <> OPanic.
Proof. exact request_no_panic. Qed.

(** ... so [C05_request_refines] sharpens to an equation: for every document the validator accepts
    the resolver is called with RefCoerce of what the client supplied, or, when there is none, the
    client gets an error and nothing is called. *)
Theorem C05_request_exact : forall E dt, env_ok E = true -> env_closed E = true ->
  forall site argdefs defs args raw,
  (forall ad, In ad argdefs -> sty_closed E (in_type (snd ad)) = true) ->
  (forall p, In p raw -> jval_ok (snd p) = true) ->
  static_ok all_fixed E dt site argdefs defs args = true ->
  run_request all_fixed E dt site argdefs defs args raw =
  match ref_request E dt argdefs defs args raw with
  | Some m => OCalled m
  | None => ORuntimeError
  end.
Proof. exact request_exact. Qed.

(** ** route_independent.  [same_client_value l j]: the literal and the variable value spell the same
    client value (an integer literal and the JSON number that is exactly that integer, a float
    literal and the binary64 its text rounds to, an enum name and the string, ...);
    [jnum_wf j]: every JSON number is a well-formed binary64 in canonical form (a representation
    invariant of the exchange format, checked on every case);
    [strip_nn t1 = strip_nn t2]: the types differ at most in non-null wrappers (all the validator
    allows between a variable and its location, [compatible_strip]).  Literal versus variable
    value, any input type (input objects, defaults and hooks included): *)
Theorem C05_route_independent : forall E dt, env_ok E = true -> forall vv l j t1 t2 a1 a2 g1 g2,
  same_client_value l j -> jnum_wf j = true -> jval_ok j = true -> strip_nn t1 = strip_nn t2 ->
  coerce_literal all_fixed E dt vv l t1 a1 = Ok g1 ->
  coerce_var_value all_fixed E dt j t2 a2 = Ok g2 ->
  g1 = g2.
Proof. exact route_independent_wf. Qed.

(** the arithmetic behind it (round 1 carried this as a premise): ParseFloat of an integer
    literal's text is exactly the binary64 that holds that integer, when there is one.  An integer
    no binary64 holds (2^53+1) has no JSON spelling at all: see [Examples/C05.v, beyond_2_53]. *)
Theorem C05_integer_literal_is_exact_float : forall d z,
  f64_wf d = true -> f64_to_Z d = Some z -> f64_of_Q z 1 = Some d.
Proof. exact f64_of_Q_exact. Qed.

Theorem C05_validator_types_differ_in_non_null_only : forall lt vt,
  types_compatible lt vt = true -> strip_nn lt = strip_nn vt.
Proof. exact compatible_strip. Qed.

(** a variable nested anywhere inside a literal ([L]) versus the same literal with the value
    written in its place ([subst_var v r L]) *)
Theorem C05_route_nested : forall E dt, env_ok E = true -> forall defs vv v r j def c L t a ld g1 g2,
  find_def v defs = Some def -> aget v vv = Some c ->
  coerce_var_value all_fixed E dt j (vd_type def) true = Ok c ->
  same_client_value r j -> jnum_wf j = true -> jval_ok j = true -> lit_nodup L = true ->
  usage_ok all_fixed E defs L (Some t) ld = true ->
  coerce_literal all_fixed E dt vv L t a = Ok g2 ->
  coerce_literal all_fixed E dt vv (subst_var v r L) t a = Ok g1 ->
  g1 = g2.
Proof. exact route_nested_wf. Qed.

(** omitted in favour of the variable's default *)
Theorem C05_route_variable_default : forall E dt, env_ok E = true -> forall vv l tv t a c g1,
  lit_vars l = [] -> lit_nodup l = true -> strip_nn t = strip_nn tv ->
  coerce_literal all_fixed E dt [] l tv true = Ok c ->
  coerce_literal all_fixed E dt vv l t a = Ok g1 ->
  g1 = c.
Proof. exact route_variable_default. Qed.

Theorem C05_variable_returns_value : forall E dt vv v c t a g,
  aget v vv = Some c -> coerce_literal all_fixed E dt vv (LVar v) t a = Ok g -> g = c.
Proof. exact variable_returns_value. Qed.

(** omitted in favour of the argument's default (no argument, or a variable without a value) *)
Theorem C05_route_argument_default : forall E dt argdefs args vv x d dv m,
  has_dup (map fst argdefs) = false -> dup_names (map fst args) = false ->
  In (x, d) argdefs -> in_default d = Some dv ->
  match aget x args with Some (LVar vn) => ahas vn vv | Some _ => true | None => false end = false ->
  coerce_argument_values all_fixed E dt argdefs args vv = Ok m ->
  aget x m = Some (default_value dv).
Proof. exact route_argument_default. Qed.

(** the value never depends on non-null wrappers or the item-to-list flag, only acceptance does *)
Theorem C05_ref_nn_insensitive : forall E dt tr v t1 t2 w1 w2 g1 g2,
  strip_nn t1 = strip_nn t2 ->
  ref_coerce E dt tr v t1 w1 = Some g1 -> ref_coerce E dt tr v t2 w2 = Some g2 -> g1 = g2.
Proof. exact ref_nn_insensitive. Qed.

(** ** static_dynamic_agree: the static rules (validateCoercion, validateVariableUsage,
    validateArguments) are complete for the run-time coercion.  Once a document has passed
    validation, the ONLY reasons for a run-time coercion error are
    [bad_variable_value]: a raw variable value that does not coerce to the variable's type, or a
      non-null variable without value and default (CoerceVariableValues);
    [null_variable vv args]: a variable used by the arguments whose run-time value is null;
    [absent_item_variable vv args]: a variable without run-time value standing as an item of a list
      literal ([item_vars]);
    [hook_reached_args E argdefs args] / [hook_reached_defaults E defs raw]: an object literal of
      the request (in an argument; in the default value of a variable without raw value) stands where
      an input object type whose InputCoercion hook refuses is expected ([hook_hit], a walk over the
      literal and its expected type).
    [runtime_reason_precise] is their disjunction; [runtime_reason] is the coarser round-2 version
    with [refusing_hook E] (some input object type of the schema has such a hook) in their place.  In particular no literal, no default value and no
    type mismatch is left to fail at run time. *)
Theorem C05_static_dynamic_agree_precise : forall E dt site argdefs defs args raw,
  schema_ok E argdefs -> request_ok defs raw ->
  run_request all_fixed E dt site argdefs defs args raw = ORuntimeError ->
  runtime_reason_precise E dt argdefs defs args raw = true.
Proof. exact static_dynamic_agree_precise. Qed.

Theorem C05_static_dynamic_agree : forall E dt site argdefs defs args raw,
  schema_ok E argdefs -> request_ok defs raw ->
  run_request all_fixed E dt site argdefs defs args raw = ORuntimeError ->
  runtime_reason E dt defs args raw = true.
Proof. exact static_dynamic_agree. Qed.

(** the two halves: CoerceArgumentValues after a successful CoerceVariableValues ... *)
Theorem C05_argument_values_complete : forall E dt, env_ok E = true -> forall site argdefs defs args raw vv,
  has_dup (map fst argdefs) = false ->
  (forall def dflt, In def defs -> vd_default def = Some dflt -> lit_vars dflt = []) ->
  (forall p, In p raw -> jval_ok (snd p) = true) ->
  static_ok all_fixed E dt site argdefs defs args = true ->
  coerce_variable_values all_fixed E dt defs raw = Ok vv ->
  coerce_argument_values all_fixed E dt argdefs args vv = Err ->
  null_variable vv args || absent_item_variable vv args || hook_reached_args E argdefs args = true.
Proof. exact argument_values_complete_precise. Qed.

(** ... and CoerceVariableValues itself: a validated default value never fails to coerce *)
Theorem C05_variable_values_complete : forall E dt, env_ok E = true -> forall site argdefs defs args raw,
  (forall def dflt, In def defs -> vd_default def = Some dflt -> lit_vars dflt = []) ->
  static_ok all_fixed E dt site argdefs defs args = true ->
  coerce_variable_values all_fixed E dt defs raw = Err ->
  bad_variable_value all_fixed E dt defs raw || hook_reached_defaults E defs raw = true.
Proof. exact variable_values_complete_precise. Qed.

(** the precise hook reason implies the coarse one *)
Theorem C05_hook_hit_is_a_refusing_hook : forall E l t, hook_hit E l t = true -> refusing_hook E = true.
Proof. exact hook_hit_coarse. Qed.

(** a converse: the second reason is always fatal (a variable without a run-time value as an item
    of a list literal never coerces, whatever the types; graphql-js would make the item null) *)
Theorem C05_absent_item_variable_is_error : forall E dt site argdefs defs args vv,
  static_ok all_fixed E dt site argdefs defs args = true ->
  absent_item_variable vv args = true ->
  forall m, coerce_argument_values all_fixed E dt argdefs args vv <> Ok m.
Proof. exact absent_item_variable_is_error. Qed.

(** together with no-panic: on a closed schema a validated request without any of the run-time
    reasons IS served, and with the reference coercion *)
Theorem C05_served_unless_runtime_reason : forall E dt site argdefs defs args raw,
  schema_ok E argdefs -> request_ok defs raw -> env_closed E = true ->
  (forall ad, In ad argdefs -> sty_closed E (in_type (snd ad)) = true) ->
  static_ok all_fixed E dt site argdefs defs args = true ->
  runtime_reason_precise E dt argdefs defs args raw = false ->
  exists m, run_request all_fixed E dt site argdefs defs args raw = OCalled m /\
            ref_request E dt argdefs defs args raw = Some m.
Proof. exact served_unless_runtime_reason. Qed.

(** ** bridge to C04 (the validator model of coq/Vld): "validated" in C05's terms is C04's verdict.
    [tr_lit], [tr_sty], [tr_env] translate C05's literals (numbers as decimal text), types and type
    environments into C04's encoding; [c04_accepts E l t a] runs C04's transcription of
    validateCoercion ([ValidatorModel.coercion repaired id_order]) on the translation;
    [tr_request_schema] / [tr_request_doc] build C04's schema and document for a whole request and
    [c04_document_accepts] runs C04's ValidateDocument model on them.  The [_r] forms use the refined
    translation (DateTime / LongInt through C04's SRefined scalars).

    The complete statements are further down: [C05_C04_coercion_bridge_r] and
    [C05_C04_accepts_implies_static_ok_r] (every environment, no hypothesis about the models), with
    their kind-level forms [C05_C04_coercion_bridge] / [C05_C04_accepts_implies_static_ok] (kept
    because C14 builds on the kind-level translation).  The theorems of this block are the
    node-level pieces they are assembled from; each is a complete statement of its own. *)

(** the same under the general leaf hypothesis, for any environment *)
Theorem C05_C04_coercion_bridge_leaves : forall E dt, leaves_agree E dt ->
  forall l t a,
  match ValidatorModel.coercion ValidatorModel.repaired ValidatorModel.id_order (tr_env E) (tr_lit l) (tr_sty t) a with
  | ValidatorModel.VR [] => true
  | _ => false
  end = validate_coercion E dt l t a.
Proof. exact bridge_all. Qed.

(** the node level: C04's validateArguments check on the node and validateCoercion on every argument
    value and variable default, silent, give the five validateArguments / validateValues conjuncts
    of [static_ok] ([static_ok_arguments_values], [C05_static_ok_split]) *)
Theorem C05_C04_node_checks_imply_arguments_values : forall E dt argdefs defs args p,
  bridgeable E = true -> (no_float E = true \/ float_leaves_agree dt) ->
  fst (ValidatorModel.args_node ValidatorModel.repaired ValidatorModel.id_order [] (tr_args 0 args) (tr_argdefs argdefs) p) = [] ->
  (forall a d, In a args -> aget (fst a) argdefs = Some d -> c04_accepts E (snd a) (in_type d) true = true) ->
  (forall def dflt, In def defs -> vd_default def = Some dflt ->
                    type_known E (vd_type def) = true /\ c04_accepts E dflt (vd_type def) true = true) ->
  static_ok_arguments_values E dt argdefs defs args = true.
Proof. exact arguments_values_from_c04. Qed.

Theorem C05_static_ok_split : forall fx E dt site argdefs defs args,
  static_ok fx E dt site argdefs defs args =
  static_ok_arguments_values E dt argdefs defs args
  && negb (has_dup (map vd_name defs))
  && forallb (fun def : vardef => type_known E (vd_type def)) defs
  && forallb (fun a : name * lit =>
                match aget (fst a) argdefs with
                | Some d => usage_ok fx E defs (snd a) (Some (in_type d)) (arg_loc_default site d)
                | None => false
                end) args
  && forallb (fun def : vardef =>
                existsb (fun a : name * lit => existsb (bytes_eqb (vd_name def)) (lit_vars (snd a))) args) defs.
Proof. exact static_ok_split. Qed.

Theorem C05_C04_types_compatible : forall vt lt,
  ValidatorModel.types_compatible (tr_sty vt) (tr_sty lt) = types_compatible lt vt.
Proof. exact types_compatible_tr. Qed.

Theorem C05_C04_variable_usage : forall E (def : vardef) (d' : Ast.vardef) loc ld dollar,
  Ast.vd_ann d' = Some (tr_sty (vd_type def)) ->
  Ast.vd_default d' = option_map tr_lit (vd_default def) ->
  type_known E (vd_type def) = true ->
  match ValidatorModel.variable_usage d' {| Ast.va_expected := Some (tr_sty loc); Ast.va_default := ld; Ast.va_scalar := false |} dollar with
  | [] => true | _ => false end
  = var_usage_ok E def loc ld.
Proof. exact variable_usage_tr. Qed.

(** ** C05_C04_accepts_implies_static_ok (round 6: one theorem).  If C04's whole ValidateDocument
    model ([validate_model_memo repaired id_order]: NewTypeInfo and all eight rule groups) accepts
    the translated request - [tr_request_schema] / [tr_request_doc]:  query Q(defs) { f(args) }
    ([sf = true]) or  query Q(defs) { g @dname(args) }  ([sf = false], dname one of flt / skip /
    include) - then C05's [static_ok] holds for the request, all nine conjuncts (validateArguments,
    validateValues, validateVariables incl. nested usages and "every variable is used").
    Premises: [n_Query] and [n_Res] (the result scalar of f and g) are names reserved for the
    bridge (not in E, no variable of type Res_); E and the argument types are closed
    ([env_closed], [sty_closed]: true of schemas built from Go pointers, checked per case);
    [leaves_agree]: the two models agree on scalar leaves - proved for Int, ID, String, Boolean and
    the kind-level custom scalar ([leaves_agree_bridgeable]), a hypothesis for Float
    ([float_leaves_agree]) and, until C04's SRefined is used, excluded for DateTime / LongInt
    ([bridgeable]); the second form below states it with these.
    Proof: memo -> plain pipeline ([C04 validate_memo_iff_parsed]) -> every rule silent on the
    annotated document ([validate_model_nil], [all_rules_nil]; [annotated] computes [pti_doc] for
    both sites) -> per rule, the node picked out of C04's flat_map over the concrete tree
    ([args_rule_node], [vals_args], [vals_defaults], [body_flat]) -> the node-level bridges
    ([node_conjuncts], [bridge_closed], [usage_bridge], [var_fn_value], [value_no_spread]).
    C14's [C14_usage_from_c04] (coq/Cost/CostC04Usage.v) proves the usage step over [tr_env E]; the
    document level needs it over the request schema, which [C05_C04_usage_bridge] provides. *)
Theorem C05_C04_accepts_implies_static_ok : forall E dt sf dname argdefs defs args,
  ahas n_Query E = false -> ahas n_Res E = false ->
  env_closed E = true ->
  (forall ad, In ad argdefs -> sty_closed E (in_type (snd ad)) = true) ->
  leaves_agree E dt ->
  (forall def, In def defs -> leaf_name (vd_type def) <> n_Res) ->
  In dname dir_names ->
  c04_document_accepts E sf (if sf then None else Some dname) argdefs defs args = true ->
  static_ok all_fixed E dt sf argdefs defs args = true.
Proof. exact accepts_implies_static_ok. Qed.

Theorem C05_C04_accepts_implies_static_ok_bridgeable : forall E dt sf dname argdefs defs args,
  ahas n_Query E = false -> ahas n_Res E = false ->
  env_closed E = true ->
  (forall ad, In ad argdefs -> sty_closed E (in_type (snd ad)) = true) ->
  bridgeable E = true -> (no_float E = true \/ float_leaves_agree dt) ->
  (forall def, In def defs -> leaf_name (vd_type def) <> n_Res) ->
  In dname dir_names ->
  c04_document_accepts E sf (if sf then None else Some dname) argdefs defs args = true ->
  static_ok all_fixed E dt sf argdefs defs args = true.
Proof. exact accepts_implies_static_ok_bridgeable. Qed.

Theorem C05_C04_usage_bridge : forall E dt sf argdefs defs,
  (forall def, In def defs -> type_known E (vd_type def) = true) ->
  forall l t a ld,
  validate_coercion E dt l t a = true ->
  ProofsTypeInfoValues.usage_errs true (tr_request_schema E sf argdefs)
    (map (TypeInfoModel.ti_vardef true (tr_request_schema E sf argdefs) []) (tr_vardefs 0 defs))
    false (Some (tr_sty t)) ld (tr_lit l) = [] ->
  usage_ok all_fixed E defs l (Some t) ld = true.
Proof. exact usage_bridge_kind. Qed.

Theorem C05_C04_coercion_bridge_closed : forall E dt (S : Ast.schema),
  (forall n td, aget n E = Some td -> Ast.raw_body S n = Some (tr_tdef td)) ->
  env_closed E = true -> leaves_agree E dt ->
  forall l t a, sty_closed E t = true ->
  match ValidatorModel.coercion ValidatorModel.repaired ValidatorModel.id_order S (tr_lit l) (tr_sty t) a with
  | ValidatorModel.VR [] => true
  | _ => false
  end = validate_coercion E dt l t a.
Proof. exact bridge_closed_kind. Qed.

(** ** DateTime and LongInt through C04's refined scalars ([Ast.SRefined], [tr_scalar_r]):
    LongInt is SRefined (Some [KInt]) (PIntRange (-(2^53-1)) (2^53-1)), DateTime is
    SRefined (Some [KString]) (PStringIn (the case's RFC 3339 table)).  The refined images agree
    with C05's literal coercers on every literal - the leaf step [bridgeable] stood for.  The
    check runs the refined translation ([tr_env_r], [tr_request_schema_r]) for every case, at the
    literal and at the document level.  Not yet done: carrying the bridge theorems above over from
    [tr_env] (kept, because C14 builds on it) to [tr_env_r]; with these two leaves it is the same
    proof. *)
Theorem C05_C04_longint_leaf : forall dt l, (forall v, l <> LVar v) -> l <> LNull ->
  ValidatorModel.scalar_accepts (tr_scalar_r dt KLongInt) (tr_lit l) = match scalar_literal dt KLongInt l with Some _ => true | None => false end.
Proof. exact longint_leaf. Qed.

Theorem C05_C04_datetime_leaf : forall dt l, (forall v, l <> LVar v) -> l <> LNull ->
  ValidatorModel.scalar_accepts (tr_scalar_r dt KDateTime) (tr_lit l) = match scalar_literal dt KDateTime l with Some _ => true | None => false end.
Proof. exact datetime_leaf. Qed.

(** ** round 7: no hypothesis about scalar leaves is left, and [bridgeable] is gone.
    [C05_C04_float_leaves_agree]: C04's ParseFloat range test on the decimal text C05's bridge
    writes accepts exactly when C05's rounding succeeds.  Behind it:
    [C05_rounding_overflows_iff]: [f64_of_Q] of a positive n / d is [None] exactly when
    n / d >= 2^1024 - 2^970 (by cases on the final exponent: >= 972 always overflows, = 971 is the
    boundary where the tie rounds to even = up, <= 970 never), and C04's digit-count shortcuts at
    10^300 and 10^320 ([range_ok_spec]) over the number of digits [dec_of_Z] writes.
    The [_r] statements are over the refined translation ([tr_env_r], [tr_request_schema_r]:
    DateTime and LongInt through C04's SRefined): every environment. *)
Theorem C05_rounding_overflows_iff : forall p d : positive,
  f64_of_Q (Zpos p) d = None <-> (float_limit * Zpos d <= Zpos p)%Z.
Proof. exact f64_of_Q_none_iff. Qed.

Theorem C05_C04_float_leaves_agree : forall dt, float_leaves_agree dt.
Proof. exact float_leaves_agree_holds. Qed.

Theorem C05_C04_coercion_bridge_r : forall E dt, env_closed E = true ->
  forall l t a, sty_closed E t = true -> c04_accepts_r dt E l t a = validate_coercion E dt l t a.
Proof. exact bridge_closed_final. Qed.

Theorem C05_C04_coercion_bridge : forall E dt, bridgeable E = true ->
  forall l t a, c04_accepts E l t a = validate_coercion E dt l t a.
Proof. exact bridge_bridgeable_final. Qed.

Theorem C05_C04_accepts_implies_static_ok_r : forall E dt sf dname argdefs defs args,
  ahas n_Query E = false -> ahas n_Res E = false ->
  env_closed E = true ->
  (forall ad, In ad argdefs -> sty_closed E (in_type (snd ad)) = true) ->
  (forall def, In def defs -> leaf_name (vd_type def) <> n_Res) ->
  In dname dir_names ->
  c04_document_accepts_r dt E sf (if sf then None else Some dname) argdefs defs args = true ->
  static_ok all_fixed E dt sf argdefs defs args = true.
Proof. exact accepts_implies_static_ok_final. Qed.

(** ** DateTime: the verdict of time.Time.UnmarshalText is inside the model (final round).
    [rfc3339_go] (Val/Rfc3339.v) transcribes what apifu.DateTimeType accepts: time.Parse with the
    RFC3339 layout as go 1.23 runs it behind UnmarshalText (strict re-check switched off).  The check
    compares it with the standard library's own verdict on every string of every case.  A string it
    accepts names a real calendar date (digits, month 1..12, day within the month, leap years): *)
Theorem C05_datetime_accepted_is_calendar_date : forall s, rfc3339_go s = true ->
  exists y1 y2 y3 y4 m1 m2 d1 d2 r,
    s = (y1 :: y2 :: y3 :: y4 :: 45 :: m1 :: m2 :: 45 :: d1 :: d2 :: 84 :: r)%N /\
    isd y1 && isd y2 && isd y3 && isd y4 && isd m1 && isd m2 && isd d1 && isd d2 = true /\
    (1 <= num2 m1 m2 <= 12)%N /\
    (1 <= num2 d1 d2 <= days_in (num2 m1 m2) (1000 * dv y1 + 100 * dv y2 + 10 * dv y3 + dv y4))%N /\
    time_ok r = true.
Proof. exact accepted_is_calendar_date. Qed.

(** the repaired defects: the same statements are false of the code as found *)
Theorem C05_args_conform_refuted_before_fix :
  exists argdefs defs args raw m,
    schema_ok E0 argdefs /\ request_ok defs raw /\
    run_request pinned E0 dt0 true argdefs defs args raw = OCalled m /\
    args_conform_b E0 argdefs m = false.
Proof. exact args_conform_refuted_before_fix. Qed.

Theorem C05_cost_args_conform_refuted_before_fix :
  exists argdefs defs args raw m,
    schema_ok E0 argdefs /\ request_ok defs raw /\
    static_ok pinned E0 dt0 true argdefs defs args = false /\
    In m (cost_observation pinned E0 dt0 true argdefs defs args raw) /\
    args_conform_b E0 argdefs m = false.
Proof. exact cost_args_conform_refuted_before_fix. Qed.

(** defect 26 and the non-null/item-to-list defect: the pinned code does not refine RefCoerce *)
Theorem C05_refines_refuted_before_fix_bool :
  exists j t g, jval_ok j = true /\
    coerce_var_value pinned E0 dt0 j t true = Ok g /\
    ref_coerce E0 dt0 TJson (abs_json j) t true = None.
Proof. exact refines_refuted_before_fix_bool. Qed.

Theorem C05_refines_refuted_before_fix_nn_flag :
  exists j t g, jval_ok j = true /\
    coerce_var_value pinned E0 dt0 j t true = Ok g /\
    ref_coerce E0 dt0 TJson (abs_json j) t true = None.
Proof. exact refines_refuted_before_fix_nn_flag. Qed.

Print Assumptions C05_args_conform.
Print Assumptions C05_called_args_conform.
Print Assumptions C05_cost_args_conform.
Print Assumptions C05_conform_per_argument.
Print Assumptions C05_never_null_at_non_null.
Print Assumptions C05_always_a_list_at_list_type.
Print Assumptions C05_declared_enum_value.
Print Assumptions C05_complete_field_map.
Print Assumptions C05_var_value_refines.
Print Assumptions C05_literal_refines.
Print Assumptions C05_request_refines.
Print Assumptions C05_called_is_reference.
Print Assumptions C05_reject_no_call.
Print Assumptions C05_reference_is_served.
Print Assumptions C05_request_no_panic.
Print Assumptions C05_request_exact.
Print Assumptions C05_static_dynamic_agree_precise.
Print Assumptions C05_hook_hit_is_a_refusing_hook.
Print Assumptions C05_static_dynamic_agree.
Print Assumptions C05_argument_values_complete.
Print Assumptions C05_variable_values_complete.
Print Assumptions C05_absent_item_variable_is_error.
Print Assumptions C05_served_unless_runtime_reason.
Print Assumptions C05_C04_coercion_bridge_leaves.
Print Assumptions C05_C04_node_checks_imply_arguments_values.
Print Assumptions C05_static_ok_split.
Print Assumptions C05_C04_types_compatible.
Print Assumptions C05_C04_variable_usage.
Print Assumptions C05_C04_accepts_implies_static_ok.
Print Assumptions C05_rounding_overflows_iff.
Print Assumptions C05_C04_float_leaves_agree.
Print Assumptions C05_C04_coercion_bridge_r.
Print Assumptions C05_C04_coercion_bridge.
Print Assumptions C05_C04_accepts_implies_static_ok_r.
Print Assumptions C05_datetime_accepted_is_calendar_date.
Print Assumptions C05_C04_longint_leaf.
Print Assumptions C05_C04_datetime_leaf.
Print Assumptions C05_C04_accepts_implies_static_ok_bridgeable.
Print Assumptions C05_C04_usage_bridge.
Print Assumptions C05_C04_coercion_bridge_closed.
Print Assumptions C05_route_independent.
Print Assumptions C05_integer_literal_is_exact_float.
Print Assumptions C05_validator_types_differ_in_non_null_only.
Print Assumptions C05_route_nested.
Print Assumptions C05_route_variable_default.
Print Assumptions C05_variable_returns_value.
Print Assumptions C05_route_argument_default.
Print Assumptions C05_ref_nn_insensitive.
Print Assumptions C05_refines_refuted_before_fix_bool.
Print Assumptions C05_refines_refuted_before_fix_nn_flag.
Print Assumptions C05_args_conform_refuted_before_fix.
Print Assumptions C05_cost_args_conform_refuted_before_fix.
