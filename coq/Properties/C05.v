(** * C05 — resolvers, directive filters and cost functions only ever observe spec-coerced,
    type-conforming inputs.  This file contains only statements closed by [exact] and their
    [Print Assumptions].

    Model (Val/CoerceModel.v): [coerce_variable_values], [coerce_argument_values],
    [coerce_literal], [coerce_var_value], [static_ok] (the validator's value / variable / argument
    rules), [run_request], [cost_observation], parameterised by which repairs are applied
    ([all_fixed]: the tree the check runs against; [pinned]: the tree as found).
    Spec (Val/CoerceSpec.v): [conforms], [ref_coerce] (RefCoerce), [ref_request]. *)
From Coq Require Import List NArith ZArith Bool.
From ApiFu Require Import Base.Sexp Val.Values Val.CoerceModel Val.CoerceSpec Val.CoerceProofs.
Import ListNotations.

(** Hypotheses, all true of the real system and checked on every case of the correspondence:
    [schema_ok]: declared defaults are values of their declared types and enum payloads are not
    nil (the library trusts the schema author on both), names in a Go map are unique;
    [request_ok]: variable default values are constant literals (the parser guarantees it), a Go
    [int] is a 64-bit integer and a Go map has each key once. *)

(** Every argument map the resolver is called with conforms to the declared argument types:
    for all type environments (scalars, enums, input objects with defaults and InputCoercion
    hooks, recursive ones included), argument definitions, variable definitions, argument literals
    (variables anywhere inside) and raw variable values. *)
Theorem C05_args_conform : forall E dt site argdefs defs args raw vv m,
  schema_ok E argdefs -> request_ok defs raw ->
  static_ok all_fixed E dt site argdefs defs args = true ->
  coerce_variable_values all_fixed E dt defs raw = Ok vv ->
  coerce_argument_values all_fixed E dt argdefs args vv = Ok m ->
  args_conform_b E argdefs m = true.
Proof. exact args_conform. Qed.

Theorem C05_called_args_conform : forall E dt site argdefs defs args raw m,
  schema_ok E argdefs -> request_ok defs raw ->
  run_request all_fixed E dt site argdefs defs args raw = OCalled m ->
  args_conform_b E argdefs m = true.
Proof. exact called_args_conform. Qed.

(** the cost function (ValidateCost) is one more observer *)
Theorem C05_cost_args_conform : forall E dt site argdefs defs args raw m,
  schema_ok E argdefs -> request_ok defs raw ->
  In m (cost_observation all_fixed E dt site argdefs defs args raw) ->
  args_conform_b E argdefs m = true.
Proof. exact cost_args_conform. Qed.

(** what [args_conform_b] and [conforms] say, spelled out *)
Theorem C05_conform_per_argument : forall E argdefs m a d,
  args_conform_b E argdefs m = true -> In (a, d) argdefs ->
  match aget a m with
  | Some g => conforms E g (in_type d) = true
  | None => is_nonnull (in_type d) = false /\ in_default d = None
  end.
Proof. exact args_conform_b_arg. Qed.

Theorem C05_never_null_at_non_null : forall E g t,
  conforms E g (StNonNull t) = true -> g <> GNil /\ conforms E g t = true.
Proof. exact conforms_nonnull_not_nil. Qed.

Theorem C05_always_a_list_at_list_type : forall E g t,
  conforms E g (StList t) = true ->
  g = GNil \/ exists items, g = GList items /\ Forall (fun x => conforms E x t = true) items.
Proof. exact conforms_list_is_list. Qed.

Theorem C05_declared_enum_value : forall E g n vals,
  aget n E = Some (TEnum vals) -> conforms E g (StNamed n) = true ->
  g = GNil \/ exists x v, In (x, v) vals /\ gval_eqb v g = true.
Proof. exact conforms_enum_declared. Qed.

Theorem C05_complete_field_map : forall E g n fields h,
  aget n E = Some (TInput fields h) -> conforms E g (StNamed n) = true ->
  g = GNil \/
  exists kvs, (g = GMap kvs \/ exists tag, g = GTagged tag (GMap kvs)) /\
              keys_sorted kvs = true /\
              (forall k x, In (k, x) kvs -> exists fd, aget k fields = Some fd /\ conforms E x (in_type fd) = true) /\
              (forall f fd, In (f, fd) fields -> ahas f kvs = true \/ (is_nonnull (in_type fd) = false /\ in_default fd = None)).
Proof. exact conforms_object_complete. Qed.

(** the repaired defects: the same statements are false of the code as found *)
Theorem C05_args_conform_refuted_before_fix :
  exists argdefs defs args raw m,
    schema_ok E0 argdefs /\ request_ok defs raw /\
    run_request pinned E0 dt0 true argdefs defs args raw = OCalled m /\
    args_conform_b E0 argdefs m = false.
Proof. exact args_conform_refuted_before_fix. Qed.

Theorem C05_cost_args_conform_refuted_before_fix :
  exists argdefs defs args raw m,
    schema_ok E0 argdefs /\ request_ok defs raw /\
    static_ok pinned E0 dt0 true argdefs defs args = false /\
    In m (cost_observation pinned E0 dt0 true argdefs defs args raw) /\
    args_conform_b E0 argdefs m = false.
Proof. exact cost_args_conform_refuted_before_fix. Qed.

Print Assumptions C05_args_conform.
Print Assumptions C05_called_args_conform.
Print Assumptions C05_cost_args_conform.
Print Assumptions C05_conform_per_argument.
Print Assumptions C05_never_null_at_non_null.
Print Assumptions C05_always_a_list_at_list_type.
Print Assumptions C05_declared_enum_value.
Print Assumptions C05_complete_field_map.
Print Assumptions C05_args_conform_refuted_before_fix.
Print Assumptions C05_cost_args_conform_refuted_before_fix.
