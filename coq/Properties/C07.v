(** * C07 — tokens and string values follow the specification's lexical grammar.

    Only statements, each closed by [exact], and their [Print Assumptions].

    Vocabulary (definitions in Lex/LexModel.v, Lex/LexSpec.v, Lex/LexRel.v):
    - [lex m bs]: the scanner model on the bytes [bs] ([m = true]: mode ScanIgnored, [false]: mode 0);
      [Done ts es] = the tokens returned by successive Scan() calls and the positions of Errors();
      [OutOfFuel] = the model's loops did not terminate.
    - [utf8_decode bs = Some cps]: [bs] is valid UTF-8 (RFC 3629) for the code points [cps].
    - [spec_lex cps]: the reference lexer written from the June 2018 lexical grammar (longest match per
      token class; StringValue semantics; BlockStringValue; positions): the tokens up to the end of the
      text ([EndOk]) or up to the first place where the grammar has no token ([EndError]).
    - [token_of_stoken]: a reference token read as a scanner token: same kind, the extent in UTF-8
      bytes, same line/column, literal and decoded value UTF-8 encoded.
    - known deviations (both: the grammar accepts, the scanner reports an error; pinned by existing
      tests): [excl_dangling_exponent] (a number without exponent immediately followed by e/E) and
      [excl_inner_bom] (U+FEFF not at the start of the text).

    Decoded values of \uXXXX escapes in the surrogate range D800..DFFF: the reference semantics
    itself says U+FFFD there (LexSpec.escaped_unicode, decision (2)), so the decoded-value claim is
    empty for these escapes; everything else about such strings (extent, position, verdict) is claimed. *)
From Coq Require Import List NArith ZArith Bool.
From ApiFu Require Import Base.Sexp Lex.Utf8 Lex.LexModel Lex.LexSpec Lex.LexRel
  Lex.LexProgress Lex.LexMode Lex.BlockProofs Lex.LexRefine Lex.LexValid Lex.LexWitness
  Lex.LexErrors Lex.LexApi Lex.LexApiSpec Lex.LexApiProofs Lex.LexPrefixSpec Lex.LexPrefix.
Import ListNotations.
Open Scope Z_scope.

(** ** For EVERY byte string (valid UTF-8 or not) *)

(** lex_progress: the scanner terminates; every token covers at least one byte; token extents are
    increasing and inside the input; the literal is the bytes of the extent; no token is INVALID *)
Theorem C07_lex_progress : forall (m : bool) (bs : bytes),
  exists ts es, lex m bs = Done ts es /\ extents_ok bs 0 ts.
Proof. exact lex_progress. Qed.

(** in ScanIgnored mode an error-free scan partitions the input *)
Theorem C07_lex_partition : forall bs ts,
  lex true bs = Done ts [] -> concat (map t_lit ts) = bs.
Proof. exact lex_partition. Qed.

(** mode 0 returns exactly the non-ignored tokens of the ScanIgnored scan, and the same errors *)
Theorem C07_lex_mode : forall bs ts es,
  lex true bs = Done ts es -> lex false bs = Done (significant_tokens ts) es.
Proof. exact lex_mode. Qed.

(** never a silently different value, for every byte string: when the scanner reports no error,
    the input is valid UTF-8, the grammar tokenises it, and the scanner's tokens ARE the grammar's
    tokens — kinds (Int vs Float by longest match, names, punctuators, ignored tokens), byte extents,
    lines and columns, literals, decoded string values (escapes, \uXXXX, BlockStringValue) *)
Theorem C07_lex_sound_bytes : forall bs ts,
  lex true bs = Done ts [] ->
  exists cps stoks, utf8_decode bs = Some cps /\ spec_lex cps = (stoks, EndOk) /\
                    ts = map token_of_stoken stoks /\
                    excl_dangling_exponent cps stoks = false /\ excl_inner_bom stoks = false.
Proof. exact lex_sound_bytes. Qed.

(** a source text that is not valid UTF-8 always produces an error *)
Theorem C07_lex_invalid_utf8_rejected : forall bs,
  utf8_decode bs = None -> exists ts es, lex true bs = Done ts es /\ es <> [].
Proof. exact lex_invalid_utf8_rejected. Qed.

(** block strings undergo exactly the BlockStringValue algorithm: the transcription of the Go
    function equals the specification's algorithm on ALL raw values ... *)
Theorem C07_block_value_eq : forall raw : list N,
  block_string_value raw = Some (BlockStringValue raw).
Proof. exact block_value_eq. Qed.

(** ... and the algorithm does not care whether it runs on code points or on their UTF-8 bytes *)
Theorem C07_block_value_utf8 : forall raw : list cp,
  BlockStringValue (utf8_encode_all raw) = utf8_encode_all (BlockStringValue raw).
Proof. exact block_value_utf8. Qed.

(** ** For every valid UTF-8 source text *)

(** the reference lexer is total *)
Theorem C07_spec_lex_total : forall cps, snd (spec_lex cps) <> EndFuel.
Proof. exact spec_lex_total. Qed.

(** positions (also in texts with lexical errors, both modes): every token starts at a code point
    boundary n, and (line, column) is the specification's position of code point n — LF, CR not
    followed by LF, and CR LF each advance the line once; columns count code points *)
Theorem C07_lex_positions : forall m bs cps ts es,
  utf8_decode bs = Some cps -> lex m bs = Done ts es ->
  Forall (fun t => exists n, (n < length cps)%nat /\ t_off t = utf8_length (firstn n cps) /\
                             (t_line t, t_col t) = advance_pos (1, 1) n cps) ts.
Proof. exact lex_positions. Qed.

(** the same soundness, stated from the decoded text *)
Theorem C07_lex_sound : forall bs cps ts,
  utf8_decode bs = Some cps -> lex true bs = Done ts [] ->
  exists stoks, spec_lex cps = (stoks, EndOk) /\ ts = map token_of_stoken stoks /\
                excl_dangling_exponent cps stoks = false /\ excl_inner_bom stoks = false.
Proof. exact lex_sound. Qed.

(** lex_error_complete: where the grammar has no token — an unterminated string, an invalid escape, a
    character outside SourceCharacter (in a string, a comment or elsewhere), stray punctuation —
    the scanner always reports an error *)
Theorem C07_lex_error_complete : forall bs cps stoks why idx line col,
  utf8_decode bs = Some cps -> spec_lex cps = (stoks, EndError why idx line col) ->
  exists ts es, lex true bs = Done ts es /\ es <> [].
Proof. exact lex_error_complete. Qed.

(** lex_refines_spec: outside the two known classes, every text the grammar tokenises is scanned
    without error into exactly the grammar's tokens *)
Theorem C07_lex_refines_spec : forall bs cps stoks,
  utf8_decode bs = Some cps -> spec_lex cps = (stoks, EndOk) ->
  excl_dangling_exponent cps stoks = false -> excl_inner_bom stoks = false ->
  lex true bs = Done (map token_of_stoken stoks) [].
Proof. exact lex_refines_spec. Qed.

(** ... and what the parser sees (mode 0) is the grammar's Token sequence without the Ignored ones *)
Corollary C07_lex_refines_spec_mode0 : forall bs cps stoks,
  utf8_decode bs = Some cps -> spec_lex cps = (stoks, EndOk) ->
  excl_dangling_exponent cps stoks = false -> excl_inner_bom stoks = false ->
  lex false bs = Done (significant_tokens (map token_of_stoken stoks)) [].
Proof. exact (fun bs cps stoks H1 H2 H3 H4 => lex_mode _ _ _ (lex_refines_spec bs cps stoks H1 H2 H3 H4)). Qed.

(** the two known classes are always rejected (so they are exactly the texts on which the scanner
    and the grammar disagree about acceptance) *)
Theorem C07_known_classes_rejected : forall bs cps stoks,
  utf8_decode bs = Some cps -> spec_lex cps = (stoks, EndOk) ->
  excl_dangling_exponent cps stoks || excl_inner_bom stoks = true ->
  exists ts es, lex true bs = Done ts es /\ es <> [].
Proof. exact lex_known_classes_rejected. Qed.

(** agreement with the implementation modulo the property's equivalence (what the correspondence
    check establishes case by case) transfers the refinement to the implementation's output *)
Theorem C07_respects_equiv : forall (model observed : lex_result) (toks : list token),
  model = Done toks [] -> obs_equiv model observed ->
  exists ts', observed = Done ts' [] /\ map observable ts' = map observable toks.
Proof. exact refines_respects_equiv. Qed.

(** ** Witnesses *)

(** known: dangling-exponent — "1e" *)
Theorem C07_refines_refuted_dangling_exponent :
  exists bs cps stoks, utf8_decode bs = Some cps /\ spec_lex cps = (stoks, EndOk) /\
    excl_dangling_exponent cps stoks = true /\ excl_inner_bom stoks = false /\
    lex true bs <> Done (map token_of_stoken stoks) [].
Proof. exact refines_refuted_dangling_exponent. Qed.

(** known: inner-bom — "a" followed by U+FEFF *)
Theorem C07_refines_refuted_inner_bom :
  exists bs cps stoks, utf8_decode bs = Some cps /\ spec_lex cps = (stoks, EndOk) /\
    excl_dangling_exponent cps stoks = false /\ excl_inner_bom stoks = true /\
    lex true bs <> Done (map token_of_stoken stoks) [].
Proof. exact refines_refuted_inner_bom. Qed.

(** fixed: block strings kept white-space-only lines shorter than the common indentation *)
Theorem C07_block_value_eq_refuted_before_fix :
  exists raw : list N, block_string_value_before_fix raw <> Some (BlockStringValue raw).
Proof. exact block_value_eq_refuted_before_fix. Qed.

(** fixed: a correctly encoded U+FFFD was read with width 1 *)
Theorem C07_read_next_rune_refuted_before_fix :
  exists (c : cp) (rest : bytes), scalar_value c = true /\
    read_next_rune_before_fix (utf8_encode c ++ rest) <> (Z.of_N c, length (utf8_encode c)).
Proof. exact read_next_rune_refuted_before_fix. Qed.

(** ** ALL reported errors (count, order, line and column), for every byte string

    Vocabulary (Lex/LexErrors.v): [boundary bs k st]: [st] is the error-free scanner state reached
    from the start of [bs] by consuming exactly [k] whole runes as utf8.DecodeRune delimits them
    ([k] may be the number of runes: the end of input); [err_at bs e k]: the error position
    [e = (line, column)] is the position of boundary [k]. *)

(** every error the scanner reports — in either mode, whether or not the text is valid UTF-8 —
    carries the (line, column) of a rune boundary of the text or of its end, and successive errors
    never go backwards *)
Theorem C07_lex_error_positions_bytes : forall m bs ts es,
  lex m bs = Done ts es ->
  exists ks, Forall2 (err_at bs) es ks /\ Sorted.StronglySorted le ks.
Proof. exact lex_error_positions_bytes. Qed.

(** on valid UTF-8: the errors sit at code points [ns] of the text (or at its end), in
    non-decreasing order, and each carries the specification's (line, column) of its code point *)
Theorem C07_lex_error_positions : forall m bs cps ts es,
  utf8_decode bs = Some cps -> lex m bs = Done ts es ->
  exists ns, es = map (fun n => advance_pos (1, 1) n cps) ns /\
             Forall (fun n => (n <= length cps)%nat) ns /\ Sorted.StronglySorted le ns.
Proof. exact lex_error_positions. Qed.

(** the position of the end of input (what Position() answers after the last token) is the
    specification's position after the last code point *)
Theorem C07_end_pos_spec : forall bs cps, utf8_decode bs = Some cps ->
  end_pos bs = advance_pos (1, 1) (length cps) cps.
Proof. exact end_pos_spec. Qed.

(** ** Texts with a lexical error: agreement up to the failure, and no early error

    [agreed cps stoks failing] (Lex/LexPrefixSpec.v): the grammar's tokens [stoks] cut before the
    first token of a known class and, when the grammar ends in an error ([failing]) right after a
    COMMENT, without that comment (a comment that runs into a character outside SourceCharacter
    is reported from inside the comment, and the scanner's comment token runs on to the end of the
    line); [agreed_count]: the number of code points these tokens cover.  So with [EndError _ idx _ _]
    and no known class, [agreed_count] is [idx] itself unless a comment ends at [idx]. *)

(** whatever the grammar says about a valid UTF-8 text (tokenises it, or stops at a place without
    token): the scanner's tokens BEGIN with the agreed grammar tokens — kind, byte extent, line,
    column, literal, decoded value — and every error it reports sits at a code point at or after
    the end of those tokens, inside the text or at its end.  (With [e = EndOk] and no known class
    this is C07_lex_refines_spec again; with [EndError] it says what happens before the error.) *)
Theorem C07_lex_agrees_before_failure : forall bs cps stoks e ts es,
  utf8_decode bs = Some cps -> spec_lex cps = (stoks, e) -> lex true bs = Done ts es ->
  exists rest ns,
    ts = map token_of_stoken (agreed cps stoks (is_end_error e)) ++ rest /\
    es = map (fun n => advance_pos (1, 1) n cps) ns /\
    Forall (fun n => (agreed_count (agreed cps stoks (is_end_error e)) <= n <= length cps)%nat) ns.
Proof. exact lex_agrees_before_failure. Qed.

(** ... and what the parser sees (mode 0) begins with the non-ignored agreed tokens *)
Corollary C07_lex_agrees_before_failure_mode0 : forall bs cps stoks e ts es,
  utf8_decode bs = Some cps -> spec_lex cps = (stoks, e) -> lex false bs = Done ts es ->
  exists rest ns,
    ts = significant_tokens (map token_of_stoken (agreed cps stoks (is_end_error e))) ++ rest /\
    es = map (fun n => advance_pos (1, 1) n cps) ns /\
    Forall (fun n => (agreed_count (agreed cps stoks (is_end_error e)) <= n <= length cps)%nat) ns.
Proof. exact lex_agrees_before_failure_mode0. Qed.

(** ** The public API under ARBITRARY call sequences (Lex/LexApi.v, Lex/LexApiSpec.v)

    [run m src cs]: the answers of a fresh scanner (mode [m], source [src]) to the calls [cs] —
    any sequence of Scan, Token, Position, Literal, StringValue, Errors.  [trace_ok ts endp E 0 cs rs]:
    every answer in [rs] is the one prescribed for the number j of Scan() calls issued so far:
    j = 0: INVALID, (0,0), empty literal/value; 1 <= j <= |ts|: kind, position, literal, value of the
    j-th token of the canonical loop; j > |ts|: Scan() = false, INVALID, the end position, empty
    literal/value; Errors() = [E j].  [errs_by_cursor_ok ts es E]: [E 0 = []], [E] only grows, and
    [E j = es] once Scan() has returned false. *)

(** call-order independence: whatever the caller does between two Scan() calls (observers in any
    order, repeated, before the first Scan, after the last), every answer is a function of the
    number of Scan() calls so far and agrees with the canonical loop [lex m src = Done ts es] *)
Theorem C07_api_call_order : forall m src ts es, lex m src = Done ts es ->
  exists E, errs_by_cursor_ok ts es E /\
            forall cs, trace_ok ts (end_pos src) E 0 cs (run m src cs).
Proof. exact api_call_order. Qed.

(** no call sequence makes the scanner panic (Literal's slice expression stays inside the source)
    or loop *)
Theorem C07_api_never_panics : forall m src cs,
  ~ In RPanic (run m src cs) /\ ~ In RFuel (run m src cs).
Proof. exact api_never_panics. Qed.

(** fixed: before the repair, Literal() after Scan() had returned false sliced past the end of the
    source: on "a", Scan Scan Literal panics *)
Theorem C07_api_call_order_refuted_before_fix :
  exists m src cs, In RPanic (run_before_fix m src cs).
Proof. exact api_call_order_refuted_before_fix. Qed.

Print Assumptions C07_lex_progress.
Print Assumptions C07_lex_partition.
Print Assumptions C07_lex_mode.
Print Assumptions C07_lex_sound_bytes.
Print Assumptions C07_lex_invalid_utf8_rejected.
Print Assumptions C07_block_value_eq.
Print Assumptions C07_block_value_utf8.
Print Assumptions C07_spec_lex_total.
Print Assumptions C07_lex_positions.
Print Assumptions C07_lex_sound.
Print Assumptions C07_lex_error_complete.
Print Assumptions C07_lex_refines_spec.
Print Assumptions C07_lex_refines_spec_mode0.
Print Assumptions C07_known_classes_rejected.
Print Assumptions C07_respects_equiv.
Print Assumptions C07_refines_refuted_dangling_exponent.
Print Assumptions C07_refines_refuted_inner_bom.
Print Assumptions C07_block_value_eq_refuted_before_fix.
Print Assumptions C07_read_next_rune_refuted_before_fix.
Print Assumptions C07_lex_error_positions_bytes.
Print Assumptions C07_lex_error_positions.
Print Assumptions C07_end_pos_spec.
Print Assumptions C07_api_call_order.
Print Assumptions C07_api_never_panics.
Print Assumptions C07_api_call_order_refuted_before_fix.
Print Assumptions C07_lex_agrees_before_failure.
Print Assumptions C07_lex_agrees_before_failure_mode0.
