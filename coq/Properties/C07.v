(** placeholder while the correspondence is being built *)
From Coq Require Import List.
From ApiFu Require Import Lex.LexModel.
Theorem C07_placeholder : True.
Proof. exact I. Qed.
Print Assumptions C07_placeholder.
