(** * C11 — mutation root fields execute strictly serially in document order.
    This file contains only statements closed by [exact] and their [Print Assumptions].

    Vocabulary (Serial/SerialPlan.v, SerialSpec.v, SerialModel.v):
    - [root : selset] is the collected root selection set of the mutation: the ordered list of
      (response key, field plan); a field plan fixes, for the field and for everything beneath it,
      which resolvers answer synchronously and which through a promise, with which outcome, under
      which nullable / non-null / list / object type shape.  [map fst root] = k1..kn.
    - [sigma : sched] is the idle handler: any function from (idle round, outstanding promises) to
      the promises it fulfils now; [oh : option sched] is the request's IdleHandler field ([None] =
      nil).  The theorems quantify over all of them.
    - [run sigma Mutation fuel root] is the model of executeMutation (executeSelections with
      forceSerial = true, wait, the future library); [r_events r] is the global resolver log
      (resolver start / promise fulfilment, keyed by response path), [r_root r] the root result map.
    - [Serial keys log]: whenever e1 occurs before e2 in the log, the root field of e1 is not a
      later one than the root field of e2 — every event under k_i precedes every event under k_j,
      i < j.  [SerialStarts]: the same, except that e2 may be a promise fulfilment.
    - [excl_abandoned_promise root = false]: no position of non-null type in the plan fails
      (known finding "abandoned-promise", refuted below without it).

    The order theorems are safety statements about EVERY run of the model — every scheduler
    (fair or not), every fuel, whether the run returns ([Done r]), gets stuck because the idle
    handler fulfils nothing ([Stuck s]) or exhausts its fuel ([OutOfFuel s]): [log_of] is the log
    of the run so far.  Liveness is separate: [C11_mutation_terminates] — under a FAIR idle handler
    (one that fulfils at least one outstanding promise per call, the obligation the documentation
    of ResolvePromise states) and with fuel for one idle round per promise of the plan
    ([count_async root]) the run returns. *)
From Coq Require Import List NArith.
From ApiFu Require Import Base.Sexp Serial.SerialPlan Serial.SerialFuture Serial.SerialModel
     Serial.SerialSpec Serial.SerialProofs Serial.SerialTerm.
Import ListNotations.

(** the property, strict form: for every mutation, every assignment of synchronous / asynchronous
    resolvers and every fulfilment schedule ([oh = Some sigma], any function sigma; [None] = the
    request has no idle handler), in the global resolver log every event under k_i precedes every
    event under k_{i+1} *)
Theorem C11_mutation_serial : forall oh fuel root,
  NoDup (map fst root) -> excl_abandoned_promise root = false ->
  Serial (map fst root) (log_of (run oh Mutation fuel root)).
Proof. exact mutation_serial. Qed.

(** ... because when the wait for a root field returns, every promise created so far has been
    fulfilled and received: nothing beneath the earlier root fields is outstanding *)
Theorem C11_mutation_no_promise_left : forall oh fuel root r,
  NoDup (map fst root) -> excl_abandoned_promise root = false ->
  run oh Mutation fuel root = Done r -> r_null r = false ->
  Forall (fun pr => p_st pr = PRecv) (r_proms r).
Proof. exact mutation_no_promise_left. Qed.

(** ... therefore each root field observes all side effects of its predecessors: when any event of
    k_j happens (a resolver reads the shared state), the log so far already contains every side
    effect (resolver start, promise fulfilment) the earlier root fields will ever have *)
Theorem C11_mutation_observes_predecessors : forall oh fuel root,
  NoDup (map fst root) -> excl_abandoned_promise root = false ->
  ObservesPredecessors (map fst root) (log_of (run oh Mutation fuel root)).
Proof. exact mutation_observes_predecessors. Qed.

(** without the exclusion: no resolver belonging to an earlier root field starts after any event
    of a later root field; the only events that can come late are fulfilments of promises *)
Theorem C11_mutation_serial_starts : forall oh fuel root,
  NoDup (map fst root) ->
  SerialStarts (map fst root) (log_of (run oh Mutation fuel root)).
Proof. exact mutation_serial_starts. Qed.

(** the response lists the root fields in document order *)
Theorem C11_mutation_key_order : forall oh fuel root r,
  run oh Mutation fuel root = Done r -> r_null r = false ->
  KeysInOrder (map fst root) (slot_keys (r_root r)).
Proof. exact mutation_key_order. Qed.

(** the PROPOSED repair (checks/C11.proposed-drain.patch, not in the code: [run] is
    [run_gen false]) is a verified one: with the drain step after each root field's wait the strict
    order holds for EVERY plan, without the exclusion, and no promise is ever left behind *)
Theorem C11_mutation_serial_with_drain : forall sigma fuel root,
  NoDup (map fst root) ->
  Serial (map fst root) (log_of (run_gen true (Some sigma) Mutation fuel root)) /\
  forall r, run_gen true (Some sigma) Mutation fuel root = Done r -> r_null r = false ->
            Forall (fun pr => p_st pr = PRecv) (r_proms r).
Proof. exact mutation_serial_with_drain. Qed.

(** liveness: a fair idle handler and fuel for one idle round per promise make the mutation
    return — no wait loop gets stuck or runs out of fuel; for the code that exists
    ([drain = false], [run = run_gen false]) and for the proposed drain variant *)
Theorem C11_mutation_terminates : forall sigma, fair sigma -> forall drain fuel root,
  count_async root <= fuel ->
  exists r, run_gen drain (Some sigma) Mutation fuel root = Done r.
Proof. exact mutation_terminates. Qed.

(** a request without idle handler always returns (wait answers "No idle handler defined." as soon
    as a future is not ready) *)
Theorem C11_mutation_terminates_no_handler : forall drain fuel root,
  exists r, run_gen drain None Mutation fuel root = Done r.
Proof. exact mutation_terminates_no_handler. Qed.

(** the same for queries (the non-serial path beneath every root field) *)
Theorem C11_query_terminates : forall sigma, fair sigma -> forall fuel root,
  count_async root <= fuel ->
  exists r, run (Some sigma) Query fuel root = Done r.
Proof. exact query_terminates. Qed.

(** the property as one total-correctness statement *)
Theorem C11_mutation_serial_total : forall sigma fuel root,
  fair sigma -> count_async root <= fuel ->
  NoDup (map fst root) -> excl_abandoned_promise root = false ->
  exists r, run (Some sigma) Mutation fuel root = Done r /\
            Serial (map fst root) (r_events r) /\
            (r_null r = false -> KeysInOrder (map fst root) (slot_keys (r_root r))).
Proof. exact mutation_serial_total. Qed.

(** the strict form is false without the exclusion (known finding "abandoned-promise"):
    mutation { a { x y } b }, x: Int! a promise that fails, y and b promises; x is fulfilled first:
    a becomes null, b's resolver starts, and only then y's promise is fulfilled *)
Theorem C11_mutation_serial_refuted_when_promise_abandoned :
  exists sigma fuel root,
    fair sigma /\ NoDup (map fst root) /\ excl_abandoned_promise root = true /\
    exists r, run (Some sigma) Mutation fuel root = Done r /\ ~ Serial (map fst root) (r_events r).
Proof. exact mutation_serial_refuted_when_promise_abandoned. Qed.

(** the executable oracle run on the implementation's log decides exactly [Serial] *)
Theorem C11_oracle_sound : forall keys log, strict_serial keys log = true -> Serial keys log.
Proof. exact strict_serial_sound. Qed.

Theorem C11_oracle_complete : forall keys log,
  (forall e, In e log -> ev_index keys e <> None) -> Serial keys log -> strict_serial keys log = true.
Proof. exact strict_serial_complete. Qed.

(** the scheduler the harness implements (ranks) is a fair scheduler *)
Theorem C11_rank_scheduler_fair : forall ranks, fair (sigma_ranks ranks).
Proof. exact sigma_ranks_fair. Qed.

(** not vacuous: the same model, run as a query, does interleave the root fields *)
Theorem C11_query_parallel_witness :
  exists r, run (Some (sigma_ranks [1; 0])) Query 3 wit_two = Done r /\
            strict_serial (map fst wit_two) (r_events r) = false /\
            ~ Serial (map fst wit_two) (r_events r).
Proof. exact query_parallel_witness. Qed.

Print Assumptions C11_mutation_serial.
Print Assumptions C11_mutation_no_promise_left.
Print Assumptions C11_mutation_observes_predecessors.
Print Assumptions C11_mutation_serial_starts.
Print Assumptions C11_mutation_serial_with_drain.
Print Assumptions C11_mutation_key_order.
Print Assumptions C11_mutation_terminates.
Print Assumptions C11_mutation_terminates_no_handler.
Print Assumptions C11_query_terminates.
Print Assumptions C11_mutation_serial_total.
Print Assumptions C11_mutation_serial_refuted_when_promise_abandoned.
Print Assumptions C11_oracle_sound.
Print Assumptions C11_oracle_complete.
Print Assumptions C11_rank_scheduler_fair.
Print Assumptions C11_query_parallel_witness.
