(** * C03 — no request can crash, hang or produce an unserialisable response.
    Only statements closed by [exact] and their [Print Assumptions].

    FULL STATEMENT (properties.jsonl): for every byte string q, JSON variables v, operation name n,
    schema S the library accepts and resolvers returning ordinary values or errors,
    ParseAndValidate / Execute / Subscribe return normally (no panic, no unbounded recursion, no
    endless loop), the response serialises to JSON and carries errors whenever it carries no (or
    null) data.

    WHAT IS PROVED HERE.  [pipeline_order pi VS F ES bs opname raw W] (Pipe/Compose.v) is ONE executable
    model of graphql.Execute on the BYTES [bs] of the request text: the parser model of C06 driven
    by the scanner model of C07 ([FrontEnd.parse_document_bytes]), the glue of
    graphql.ParseAndValidate, the validator model of C04 ([validate_model_memo repaired], the one C04's
    check ties to the code) on the
    structurally converted tree ([Convert.vld_of_syn]), GetOperation and the synchronous executor
    model of C01 (coq/ExeA: [ArgModel.run fixed] with [default_fuel], field arguments coerced by
    C05's [coerce_argument_values]) on [Convert.exe_of_syn], after C05's [coerce_variable_values] on
    the RAW variable values [raw] ([ArgModel.coerce_request_vars]), the glue of graphql.Execute.  [VS] / [ES]: the schema in the validator's / the executor's encoding
    (the check verifies on every case that they describe one schema); [F] the enabled features;
    [raw]: Request.VariableValues as handed to the library (any JSON value, Go int, or a Go value
    of a kind no coercer accepts); [W]: the resolver-outcome world (what
    every resolver returns for every object value: nil, typed nil, leaf values of every Go kind
    incl. NaN / Inf, slices, object values, errors).
    [pi]: the order in which Go's [range] visits the entries of the validator's maps (any
    permutation: [order_ok pi]; [pipeline_model] = [pipeline_order id_order] is what the check runs).
    Quantification: ALL byte strings, operation names, raw variable values, worlds, map orders,
    schemas in both encodings — the only hypotheses are [order_ok pi] (a range visits each entry
    once) and [schema_accepted ES] := [type_names_okb ES] (no zero byte in a type name) &&
    [env_closed (s_inputs ES)] (every type an input type mentions is defined): both are guaranteed
    by schema.New and evaluated by the check on every case.

      C03_front_never_panics      ParseAndValidate from bytes: never Panic / OutOfFuel, any schema
      C03_pipeline_never_panics   the whole pipeline never returns Panic / OutOfFuel
      C03_pipeline_total          ... and returns a response, or reports a broken stage contract
      C03_response_serialisable   every number in the data of a response has a JSON form
      C03_data_or_errors          no (or null) data => at least one error
      C03_parsed_positions_distinct   the parser's half of C01's hypothesis, across the conversion
      C03_pipeline_order_independent  the response does not depend on Go's map iteration order
      C03_pipeline_response       ... a response, for every text with positions below 2^24 / 2^32 (round 5)

    WHAT WAS PARTIAL, and how it was closed (round 5).
    - C01's totality theorem needs [doc_ok_nodirs] ("what validation guarantees", as an execution
      over types: [doc_ok] without the conjunct "every @skip/@include condition has a boolean
      value").  The composed model EVALUATES it (and the size half of [doc_positions_okb]) and
      answers [PContractBroken] when it fails; the totality theorems hold unconditionally because
      of that check, and the correspondence check reports [PContractBroken] as an oracle failure.
      Since round 5 that the validator model establishes it is PROVED:
      [C03_validate_establishes_invariant] (Pipe/MergeBridge.v, Pipe/InvariantBridge.v) gives the
      n-free invariant Q of C01_doc_ok_nodirs_acyclic from C04's theorems — fields defined on every
      possible object type (C04_defined_on_possible), merge soundness of the validator as it is
      (C04_accepted_merge_sound, with its unfolding lemma), 5.5.1.1, valid_root — across both
      conversions; [C03_validate_establishes_doc_ok] and [C03_pipeline_response] follow without
      premise: every request whose positions fit line 2^24 / column 2^32 gets a response, and
      [PContractBroken CDocOk] is unreachable.  Hypotheses on the two encodings of the schema, all
      decidable and evaluated by the check on every composed case: [schemas_agree VS ES],
      [es_wf ES] (type names are map keys, union members and root types are object types, field
      types are output types, an implementing field is covariant with the interface's), C04's
      [schema_ok], [schema_impls_ok], [schema_ifaces_ok] ([vschema_wf]).
    - C01's [doc_ok] contains the hypothesis that every @skip/@include condition has a boolean value.
      A validated request can violate it (a nullable Boolean variable with a default, given null:
      the directive's argument cannot be coerced, the selection is left out with an error).  Since
      round 5 the composed model checks C01's [doc_ok_nodirs] and C01's dirs-free theorems
      (C01_exec_total_nodirs, C01_exec_data_finite_nodirs, C01_doc_ok_nodirs_acyclic) cover such
      requests: there is no [PUnevaluable] outcome and no [request_evaluable] hypothesis any more.
      Only [C03_async_resolvers_same_data] keeps [dirs_evaluable] as a hypothesis (C02's bridge
      theorem is stated under the full [doc_ok]).
    - (round 6) The round-1 glue theorems are restated on the composed stages ([C03_glue_is_composed],
      [C03_execute_total], [C03_execute_data_or_errors], [C03_parse_errors_alone], [C03_subscribe_total]);
      graphql.Subscribe with one Execute per event of the source stream is [C03_subscribe_pipeline_total];
      the hypothesis on positions is a bound on the length of the text ([text_short]: fewer than
      2^24 - 1 bytes; [C03_short_text_positions_small]).
    - Outside the composition: API.ServeGraphQL, the source event stream of a subscription (the
      application's), the serialiser itself (encoding/json; [json_finite] is the condition under
      which it accepts a number), stack depth of the Go runtime.  For these the glue theorems over
      ARBITRARY observed stage verdicts (the two statements that keep _partial, at the end) and the
      hostile stream remain the evidence. *)
From Coq Require Import List NArith.
From ApiFu Require Import Base.Sexp.
From ApiFu Require Syn.Ast Syn.ParserModel Syn.FrontEnd Vld.Ast Vld.ValidatorModel Vld.ProofsCommon Val.Values ExeA.ArgData ExeA.ArgArgs ExeA.ArgModel ExeA.ArgSpec ExeA.ArgHyps.
From ApiFu Require Vld.MemoEquiv Vld.ProofsSubscription.
From ApiFu Require Import Pipe.PipelineModel Pipe.PipelineProofs Pipe.Convert Pipe.Compose Pipe.SchemaAgree Pipe.PositionsProofs Pipe.FieldPositions Pipe.ComposeProofs Pipe.CondsProofs Pipe.TypingProofs Pipe.CostCompose Pipe.CostComposeProofs Pipe.AcyclicProofs Pipe.InvariantProofs Pipe.SetPositions Pipe.MergeBridge Pipe.InvariantBridge Pipe.SubscribeCompose Pipe.SubscribeProofs Pipe.AsyncProofs Pipe.TextBound Pipe.Corollaries.
From ApiFu Require Fut.Plan Fut.ExecAsync Fut.AsyncRun Fut.FutSpec Fut.FutProofs Fut.BridgeC01.
Import ListNotations.

(** ** the composed model, from bytes *)

(** graphql.ParseAndValidate: for EVERY byte string, schema and feature set the outcome is syntax
    errors, validation errors or the accepted document — never a panic, never fuel exhaustion
    (C06_parse_document_bytes_never_panics + C04_validate_no_panic across [vld_of_syn]) *)
Theorem C03_front_never_panics : forall pi, Vld.ProofsCommon.order_ok pi -> forall VS F bs,
  match parse_and_validate_order pi VS F bs with FPanic _ | FOutOfFuel _ => False | _ => True end.
Proof. exact front_never_panics. Qed.

(** ... and what each outcome means for the stages *)
Theorem C03_front_cases : forall pi, Vld.ProofsCommon.order_ok pi -> forall VS F bs,
  (exists e es tree, parse_and_validate_order pi VS F bs = FSyntax e es /\
                     Syn.FrontEnd.parse_document_bytes bs = Syn.ParserModel.Out tree (e :: es)) \/
  (exists d e es, parse_and_validate_order pi VS F bs = FInvalid e es /\
                  Syn.FrontEnd.parse_document_bytes bs = Syn.ParserModel.Out (Some d) [] /\
                  validate_doc pi VS F d = Vld.Ast.Done (e :: es)) \/
  (exists d, parse_and_validate_order pi VS F bs = FAccepted d /\
             Syn.FrontEnd.parse_document_bytes bs = Syn.ParserModel.Out (Some d) [] /\
             validate_doc pi VS F d = Vld.Ast.Done []).
Proof. exact front_cases. Qed.

(** graphql.Execute: no stage of the composed model panics or runs out of fuel, for every byte
    string, operation name, variable verdict, world and schema *)
Theorem C03_pipeline_never_panics : forall pi, Vld.ProofsCommon.order_ok pi -> forall VS F ES bs opname raw W,
  schema_accepted ES = true ->
  match pipeline_order pi VS F ES bs opname raw W with PPanic _ | POutOfFuel _ => False | _ => True end.
Proof. exact pipeline_never_panics_cases. Qed.

(** ... and the outcome is a response (syntax errors / validation errors / data and execution
    errors / the variable-coercion error), or the report that a stage contract does not hold —
    whatever the variables: a @skip/@include condition without a boolean value is covered
    (C01_exec_total_nodirs) *)
Theorem C03_pipeline_total : forall pi, Vld.ProofsCommon.order_ok pi -> forall VS F ES bs opname raw W,
  schema_accepted ES = true ->
  is_response (pipeline_order pi VS F ES bs opname raw W) = true \/
  contract_broken (pipeline_order pi VS F ES bs opname raw W) = true.
Proof. exact pipeline_total. Qed.

(** the complete classification: a response with data or errors and serialisable data, or a broken
    contract *)
Theorem C03_pipeline_cases : forall pi, Vld.ProofsCommon.order_ok pi -> forall VS F ES bs opname raw W,
  schema_accepted ES = true ->
  let r := pipeline_order pi VS F ES bs opname raw W in
  (is_response r = true /\ data_or_errors_p r = true /\ serialisable_p r = true) \/
  contract_broken r = true.
Proof. exact pipeline_cases. Qed.

(** every response's data has a JSON form: no NaN, no infinity anywhere in it (C01_exec_data_finite
    through the composition) *)
Theorem C03_response_serialisable : forall pi, Vld.ProofsCommon.order_ok pi -> forall VS F ES bs opname raw W j errs,
  schema_accepted ES = true ->
  pipeline_order pi VS F ES bs opname raw W = PExecuted (Some j) errs ->
  ExeA.ArgData.json_finite j = true.
Proof. exact pipeline_serialisable. Qed.

(** a response without data (syntax errors, validation errors, a refused operation or variable
    value, a propagated null at the root) carries at least one error *)
Theorem C03_data_or_errors : forall pi, Vld.ProofsCommon.order_ok pi -> forall VS F ES bs opname raw W,
  schema_accepted ES = true ->
  is_response (pipeline_order pi VS F ES bs opname raw W) = true ->
  data_or_errors_p (pipeline_order pi VS F ES bs opname raw W) = true.
Proof. exact pipeline_data_or_errors. Qed.

(** the parser's half of C01's hypothesis [doc_positions_okb], for every byte string: whatever
    operation of a parsed text is selected, its selection nodes and those of all fragment
    definitions have pairwise distinct positions in the executor's encoding
    (C06_parse_bytes_pos_injective across [exe_of_syn]) *)
Theorem C03_parsed_positions_distinct : forall bs d es opname o vv,
  Syn.FrontEnd.parse_document_bytes bs = Syn.ParserModel.Out (Some d) es ->
  ExeA.ArgModel.get_operation (exe_of_syn d) opname = ExeA.ArgModel.GOp o ->
  ExeA.ArgHyps.nodup_posb
    (map ExeA.ArgData.sel_pos (ExeA.ArgHyps.all_sels (ExeA.ArgData.doc_of (exe_of_syn d) o vv))) = true.
Proof. exact parsed_positions_distinct. Qed.

(** Go's map iteration order is not an input of the response: under any two orders the composed
    model gives the same outcome, except that the validation errors of a rejected document may be
    listed differently (C04_verdict_deterministic through the composition) *)
Theorem C03_pipeline_order_independent : forall pi1 pi2 VS F ES bs opname raw W,
  Vld.ProofsCommon.order_ok pi1 -> Vld.ProofsCommon.order_ok pi2 ->
  pipeline_order pi1 VS F ES bs opname raw W = pipeline_order pi2 VS F ES bs opname raw W \/
  (exists e1 l1 e2 l2, pipeline_order pi1 VS F ES bs opname raw W = PInvalid e1 l1 /\
                       pipeline_order pi2 VS F ES bs opname raw W = PInvalid e2 l2).
Proof. exact pipeline_order_independent. Qed.

(** ** the open obligation [validate accepted => doc_ok], half of it proved.

    [doc_ok_nodirs ES D E fuel n] = [conds_gen ES D E false] && [doc_typed ES D E]:
    - [conds_gen _ _ _ false]: every type condition (of a fragment definition or an inline fragment,
      at any depth) names a composite type — so that doesFragmentTypeApply never reaches
      panic("unexpected fragment type"); ([conds_ok] = [conds_gen _ _ _ true] adds: every
      @skip/@include condition has a boolean value);
    - [doc_typed]: whatever object type is reached, every collected field is defined on it and has
      an output type (so that completeValue never reaches panic("unexpected field type")).
    PROVED: a text accepted by the composed front half satisfies [conds_gen _ _ _ false], for every
    selectable operation and ALL variable values, given schema encodings that agree (C04's rule
    theorem for 5.5.1 across [vld_of_syn] / [exe_of_syn] / [schemas_agree]); and [conds_ok] when
    the conditions are evaluable. *)
Theorem C03_validated_type_conditions_composite : forall pi VS F ES bs d opname o vv E,
  Vld.ProofsCommon.order_ok pi -> schemas_agree VS ES = true ->
  parse_and_validate_order pi VS F bs = FAccepted d ->
  ExeA.ArgModel.get_operation (exe_of_syn d) opname = ExeA.ArgModel.GOp o ->
  ExeA.ArgSpec.conds_gen ES (ExeA.ArgData.doc_of (exe_of_syn d) o vv) E false = true.
Proof. exact accepted_conds_gen. Qed.
Theorem C03_validated_conditions_ok_when_evaluable : forall pi VS F ES bs d opname o vv E,
  Vld.ProofsCommon.order_ok pi -> schemas_agree VS ES = true ->
  parse_and_validate_order pi VS F bs = FAccepted d ->
  ExeA.ArgModel.get_operation (exe_of_syn d) opname = ExeA.ArgModel.GOp o ->
  ExeA.ArgHyps.dirs_evaluable (ExeA.ArgData.doc_of (exe_of_syn d) o vv) E = true ->
  ExeA.ArgSpec.conds_ok ES (ExeA.ArgData.doc_of (exe_of_syn d) o vv) E = true.
Proof. exact accepted_conds_ok. Qed.

Theorem C03_composite_condition_never_unexpected : forall ES c ot,
  ExeA.ArgSpec.cond_ok ES c = true -> ExeA.ArgModel.type_applies ES ot c <> ExeA.ArgModel.ApPanic.
Proof. exact cond_ok_no_panic. Qed.

(** PROVED as well: conjunct (c), the root type of the selected operation exists in the executor's
    schema (C04's valid_root across the conversions and [schemas_agree]) *)
Theorem C03_validated_root_type_exists : forall pi VS F ES bs d opname o vv,
  Vld.ProofsCommon.order_ok pi -> schemas_agree VS ES = true ->
  parse_and_validate_order pi VS F bs = FAccepted d ->
  ExeA.ArgModel.get_operation (exe_of_syn d) opname = ExeA.ArgModel.GOp o ->
  exists rt, ExeA.ArgSpec.s_root_type ES (ExeA.ArgData.op_kind (ExeA.ArgData.doc_of (exe_of_syn d) o vv)) = Some rt.
Proof. exact accepted_root_type. Qed.

(** the positions hypothesis of C04's memo theorems (the validator's memo identifies a pair of
    fields by their positions) holds of every parsed text: the composed model validates with
    [validate_model_memo], the model C04's check ties to the code, and C04_memo_equiv_parsed /
    C04_memo_verdict_deterministic apply to it (C06_parse_bytes_pos_injective across [vld_of_syn]) *)
Theorem C03_parsed_field_positions_distinct : forall bs d es,
  Syn.FrontEnd.parse_document_bytes bs = Syn.ParserModel.Out (Some d) es ->
  Vld.MemoEquiv.doc_field_positions_distinct (vld_of_syn d).
Proof. exact parsed_field_positions_distinct. Qed.

(** conjunct (g) [args_total]: argument coercion in executeField never reaches the "unsupported
    type" panic of the coercion code, whatever the document (C05's no-panic theorem through C01's
    [coerce_field_args]), for schemas with closed input and argument types *)
Theorem C03_argument_coercion_never_unsupported : forall ES D ot f,
  cost_schema_accepted ES = true -> ExeA.ArgSpec.args_total ES D ot f = true.
Proof. exact args_total_closed. Qed.

(** PROVED (round 4): acyclicity, transported.  An accepted text has no fragment that reaches itself
    in the executor's encoding, for every operation and all variable values (C04's silent cycle rule
    in the Spec's formulation across both conversions) — the hypothesis of C01_doc_ok_acyclic /
    C01_acyclic_levels: the fuel and level part of [doc_ok] (conjuncts (d) and the depth of (i)) is
    thereby discharged *)
Theorem C03_accepted_acyclic : forall pi VS F bs d o vv,
  Vld.ProofsCommon.order_ok pi ->
  parse_and_validate_order pi VS F bs = FAccepted d ->
  ExeA.ArgHyps.acyclic_frags (ExeA.ArgData.doc_of (exe_of_syn d) o vv).
Proof. exact accepted_acyclic. Qed.

(** the other positional hypothesis of C04's theorems about addFieldSelections: the selection sets of
    a parsed text open at pairwise distinct positions (the opening braces are tokens the tree
    records, C06's [recorded_layout]; distinct tokens start at distinct positions, C07) *)
Theorem C03_parsed_set_positions_distinct : forall bs d es,
  Syn.FrontEnd.parse_document_bytes bs = Syn.ParserModel.Out (Some d) es ->
  Vld.ProofsSubscription.doc_set_positions_distinct (vld_of_syn d).
Proof. exact parsed_set_positions_distinct. Qed.

(** PROVED (round 5) — what was the remaining obligation: the n-free invariant Q of
    C01_doc_ok_nodirs_acyclic (Pipe/InvariantProofs.v):
    [validate_establishes_invariant pi VS F ES] :=
      forall bs d opname o vv rt,
        parse_and_validate_order pi VS F bs = FAccepted d ->
        get_operation (exe_of_syn d) opname = GOp o ->
        let D := doc_of (exe_of_syn d) o vv in  let E := env_of_vars vv in
        s_root_type ES (op_kind D) = Some rt ->
        exists Q, Q rt (op_sels D) /\ fields_defined_on ES D E Q /\ merge_sound ES D E Q.
    [fields_defined_on] — THE POSSIBLE-OBJECT-TYPE STEP: for [Q ot sels], CollectFields(ot, sels) is
      defined and the first field node of every group is __typename, a meta-field of the query
      root, or a field defined ON [ot] with an output type;
    [merge_sound] — MERGE SOUNDNESS (rule 5.3.2): for a group of a composite field type the MERGED
      sub-selections of all its field nodes satisfy [Q] again for every possible object type of the
      FIRST node's field type.
    The witness is [MergeBridge.Qv ot sels]: [ot] is an object type and [sels] is the concatenation
    of selection sets of the parsed document, each written beneath a scope (TypeInfo's) of which
    [ot] is a possible type, any two of them merge-checked together by the validator
    (addFieldSelections of one, then of the other, gives a map that is [MergeOK]).
    - the step from CollectFields of the executor (type conditions evaluated against [ot],
      @skip/@include, visited fragments) to the validator's addFieldSelections (everything, once):
      what the former collects the latter files, with the parent type and position of the set it
      is written in (Vld/ProofsCollectEntries.v, written for this bridge and adopted by C04: C04_collect_complete strengthened from keys to entries);
    - two nodes under one response key whose parent types both have [ot] as a possible type
      [may_overlap]: C04_merge_ok_unfold gives the same field name and the merge-checked pair of
      sub-selection sets;
    - the possible object types of the field's type on [ot] are possible types of the field's type
      on the parent type of the selection set: covariance of implementing fields ([es_wf]). *)
Theorem C03_validate_establishes_invariant : forall pi VS F ES,
  Vld.ProofsCommon.order_ok pi -> schemas_agree VS ES = true -> es_wf ES = true -> vschema_wf VS = true ->
  validate_establishes_invariant pi VS F ES.
Proof. exact validate_establishes_invariant_proved. Qed.

(** hence an accepted text satisfies C01's [doc_ok_nodirs] with the fuel and level bound the composed
    model evaluates, for every selectable operation and all variable values: the outcome
    [PContractBroken CDocOk] is unreachable *)
Theorem C03_validate_establishes_doc_ok : forall pi VS F ES,
  Vld.ProofsCommon.order_ok pi -> schemas_agree VS ES = true -> cost_schema_accepted ES = true ->
  es_wf ES = true -> vschema_wf VS = true ->
  validate_establishes_doc_ok pi VS F ES.
Proof. exact validate_establishes_doc_ok_proved. Qed.

(** the premise is exactly as strong as needed: [doc_ok_nodirs] itself yields such a Q *)
Theorem C03_invariant_from_doc_ok : forall ES D E n rt,
  ExeA.ArgSpec.s_root_type ES (ExeA.ArgData.op_kind D) = Some rt ->
  ExeA.ArgSpec.doc_ok_nodirs ES D E (ExeA.ArgModel.default_fuel D) n = true ->
  exists Q, Q rt (ExeA.ArgData.op_sels D) /\ fields_defined_on ES D E Q /\ merge_sound ES D E Q.
Proof. exact invariant_from_doc_ok. Qed.

(** ... and every request whose text keeps positions below line 2^24 / column 2^32
    ([text_positions_small]) gets a response: no broken contract is left *)
Theorem C03_pipeline_response_small_positions : forall pi VS F ES bs opname raw W,
  Vld.ProofsCommon.order_ok pi ->
  schema_accepted ES = true -> cost_schema_accepted ES = true -> schemas_agree VS ES = true ->
  es_wf ES = true -> vschema_wf VS = true -> text_positions_small bs ->
  is_response (pipeline_order pi VS F ES bs opname raw W) = true.
Proof. exact pipeline_response. Qed.

(** the hypothesis on the positions is a bound on the LENGTH of the text (round 6): every token of a
    text of n bytes starts on a line and in a column of at most n + 1 (the line bound is C07's
    [inside_text]; the column bound is proved in Pipe/TextBound.v by the same route: column +
    bytes left <= n + 1 in every state the scanner reaches), and selection positions are token
    positions (C06).  [text_short bs]: fewer than 2^24 - 1 bytes. *)
Theorem C03_short_text_positions_small : forall bs, text_short bs -> text_positions_small bs.
Proof. exact short_text_positions_small. Qed.

(** EVERY request whose text is shorter than 2^24 - 1 bytes (16 MiB) gets a response: syntax errors,
    validation errors, or data and execution errors — for every operation name, all raw variable
    values, every resolver-outcome world and every map order *)
Theorem C03_pipeline_response : forall pi, Vld.ProofsCommon.order_ok pi -> forall VS F ES bs opname raw W,
  schema_accepted ES = true -> cost_schema_accepted ES = true -> schemas_agree VS ES = true ->
  es_wf ES = true -> vschema_wf VS = true -> text_short bs ->
  is_response (pipeline_order pi VS F ES bs opname raw W) = true.
Proof. exact pipeline_response_short. Qed.

(** ** the cost rule inside the composition.
    [parse_validate_cost pi VS F ES bs opname raw r max] (Pipe/CostCompose.v) is
    graphql.ParseAndValidate(bs, schema, features, ValidateCost(opname, raw, max, &actual,
    FieldCost{Resolver: r})): the front half above, then C14's [validate_cost_request] (validate_cost.go
    with C05's variable and argument coercion) on the document as TypeInfo annotates it
    (C04's [pti_doc]); outcome: syntax errors / validation errors (of the standard rules or of the cost
    rule) / accepted with [*actual].  For every byte string, operation name, raw variable values,
    default cost, limit, map order and schema with closed input and argument types, no stage of it
    panics or runs out of fuel (C03_front_never_panics, C05's no-panic theorems,
    C14_request_never_out_of_fuel, and the stack invariant of the walk: Pipe/CostNoPanic.v — every
    [multipliers[len-1]] / [multipliers[:len-1]] of validate_cost.go is in range) *)
Theorem C03_validate_with_cost_never_crashes : forall pi VS F ES bs opname raw r max,
  Vld.ProofsCommon.order_ok pi -> cost_schema_accepted ES = true ->
  parse_validate_cost pi VS F ES bs opname raw r max <> CCrashed.
Proof. exact parse_validate_cost_never_crashes. Qed.

(** ** graphql.Subscribe inside the composition.
    [subscribe_order pi VS F ES bs opname raw W] (Pipe/SubscribeCompose.v) is graphql.Subscribe on the
    bytes: the front half, GetOperation, C05's variable coercion, then executor.subscribe — the
    operation must be a subscription, the schema must have a subscription object type,
    collectFields (C01's [collect_impl]) must yield exactly one response key whose field is defined,
    its arguments are coerced (C05), and the source resolver answers from the root value [W]: an
    error (path = the response key) or the source value.  Outcome: syntax errors / validation errors
    / exactly one error / the source.  No stage panics or runs out of fuel (in particular
    collectFields never reaches panic("unexpected fragment type") and [Items()[0]] is only taken of
    a one-element set).  The execution of ONE event is graphql.Execute with the event as root
    value: [pipeline_order] above (an operation of kind subscription runs on the subscription root
    type). *)
Theorem C03_subscribe_never_crashes : forall pi VS F ES bs opname raw W,
  Vld.ProofsCommon.order_ok pi ->
  schema_accepted ES = true -> cost_schema_accepted ES = true -> schemas_agree VS ES = true ->
  match subscribe_order pi VS F ES bs opname raw W with SubPanic _ | SubOutOfFuel _ => False | _ => True end.
Proof. exact subscribe_never_crashes. Qed.

(** ** asynchronous resolvers inside the composition.
    Whenever the composed model executes a request ([PExecuted data errs]: operation selected,
    variables coerced, contract checks passed), then for EVERY choice of resolvers that answer
    through promises ([root]: any plan with the same outcomes as the one C01's world denotes) and
    EVERY fair idle handler [sigma], the asynchronous executor model of C02 (executor.go +
    future.go) finishes — it is never stuck and never out of fuel with one idle round per
    promise — with the same data, and its errors conform to the plan (exactly one admissible
    error for every visible failure-null).  C02_every_schedule_yields_ExecuteRequest_response
    through the composition: its hypotheses are the dynamic checks of the composed model, plus
    [dirs_evaluable] (every @skip/@include condition has a boolean value: C02's bridge theorem is
    stated under C01's full [doc_ok]). *)
Theorem C03_async_resolvers_same_data : forall pi VS F ES bs opname raw W d o vv data errs
    (code : ExeA.ArgData.json -> BinNums.Z) md root sigma fuelr jfuel,
  schema_accepted ES = true ->
  parse_and_validate_order pi VS F bs = FAccepted d ->
  ExeA.ArgModel.get_operation (exe_of_syn d) opname = ExeA.ArgModel.GOp o ->
  ExeA.ArgModel.coerce_request_vars ES o raw = Val.Values.Ok vv ->
  pipeline_order pi VS F ES bs opname raw W = PExecuted data errs ->
  let D := ExeA.ArgData.doc_of (exe_of_syn d) o vv in
  let E := ExeA.ArgArgs.env_of_vars vv in
  ExeA.ArgHyps.dirs_evaluable D E = true ->
  Fut.FutSpec.same_outcomes root (Fut.BridgeC01.plan_of code ES D E (ExeA.ArgModel.default_fuel D) W) ->
  Fut.AsyncRun.fair sigma -> (Fut.Plan.count_async root <= fuelr)%nat -> (Fut.FutProofs.resp_depth root < jfuel)%nat ->
  exists r, Fut.ExecAsync.run Fut.ExecAsync.fixed_flags sigma md fuelr jfuel root = Fut.ExecAsync.Done r /\
            Fut.ExecAsync.r_data r = Fut.BridgeC01.tr_data code data /\
            Fut.FutSpec.conforms root (Fut.ExecAsync.r_data r) (Fut.ExecAsync.r_errors r).
Proof. exact async_pipeline_total. Qed.

(** ** graphql.go's glue over the COMPOSED stages (round 6).
    The round-1 theorems spoke about graphql.Execute / graphql.Subscribe as functions of observed
    stage verdicts, with "no stage crashed" and the executor's contract as premises.  With
    [parse_verdict], [validate_verdict], [exec_verdict], [subscribe_verdict] — the verdicts computed
    by the composed stage models from the bytes (Pipe/Corollaries.v) — the glue model IS the composed
    model ([C03_glue_is_composed]) and the premises are theorems. *)
Theorem C03_glue_is_composed : forall pi VS F ES bs opname raw W,
  execute (parse_verdict bs) (validate_verdict pi VS F bs) (exec_verdict pi VS F ES bs opname raw W)
  = glue_of (pipeline_order pi VS F ES bs opname raw W).
Proof. exact glue_is_composed. Qed.

Theorem C03_execute_total : forall pi, Vld.ProofsCommon.order_ok pi -> forall VS F ES bs opname raw W,
  schema_accepted ES = true -> cost_schema_accepted ES = true -> schemas_agree VS ES = true ->
  es_wf ES = true -> vschema_wf VS = true -> text_short bs ->
  exists r, execute (parse_verdict bs) (validate_verdict pi VS F bs) (exec_verdict pi VS F ES bs opname raw W) = Resp r.
Proof. exact execute_total_composed. Qed.

Theorem C03_execute_data_or_errors : forall pi, Vld.ProofsCommon.order_ok pi -> forall VS F ES bs opname raw W r,
  schema_accepted ES = true ->
  execute (parse_verdict bs) (validate_verdict pi VS F bs) (exec_verdict pi VS F ES bs opname raw W) = Resp r ->
  data_or_errors r = true.
Proof. exact execute_data_or_errors_composed. Qed.

(** syntax errors are returned alone, whatever the schemas, the operation name, the variables and
    the resolvers (no hypothesis) *)
Theorem C03_parse_errors_alone : forall pi VS F ES bs opname raw W tree e es,
  Syn.FrontEnd.parse_document_bytes bs = Syn.ParserModel.Out tree (e :: es) ->
  pipeline_order pi VS F ES bs opname raw W = PSyntax e es /\
  execute (parse_verdict bs) (validate_verdict pi VS F bs) (exec_verdict pi VS F ES bs opname raw W)
  = Resp {| has_data := false; data_null := true; nerrors := S (length es) |}.
Proof. exact parse_errors_alone_composed. Qed.

(** ** graphql.Subscribe with the per-event execution (round 6).
    [subscribe_pipeline pi VS F ES bs opname raw W events]: graphql.Subscribe on the bytes
    ([subscribe_order]); when it hands out the source, one graphql.Execute per event of the source
    stream on the same request with the event as root value (executor.ExecuteRequest of a
    subscription operation = executeSubscriptionEvent: query mode on the subscription root type).
    For EVERY list of events: Subscribe refuses with syntax errors / validation errors / one error,
    or every event gets a response that has data or errors and serialisable data. *)
Theorem C03_subscribe_pipeline_total : forall pi, Vld.ProofsCommon.order_ok pi -> forall VS F ES bs opname raw W events,
  schema_accepted ES = true -> cost_schema_accepted ES = true -> schemas_agree VS ES = true ->
  es_wf ES = true -> vschema_wf VS = true -> text_short bs ->
  match subscribe_pipeline pi VS F ES bs opname raw W events with
  | SPRefused (SubSyntax _ _) | SPRefused (SubInvalid _ _) | SPRefused (SubError _) => True
  | SPRefused _ => False
  | SPStream _ rs => length rs = length events /\ forallb event_ok rs = true
  end.
Proof. exact subscribe_pipeline_total. Qed.

(** graphql.Subscribe's own answer, through the glue: a response, with data (the source) or errors *)
Theorem C03_subscribe_total : forall pi, Vld.ProofsCommon.order_ok pi -> forall VS F ES bs opname raw W,
  schema_accepted ES = true -> cost_schema_accepted ES = true -> schemas_agree VS ES = true ->
  exists r, subscribe (parse_verdict bs) (validate_verdict pi VS F bs) (subscribe_verdict pi VS F ES bs opname raw W) = Resp r /\
            data_or_errors r = true.
Proof. exact subscribe_total_composed. Qed.

(** ** what genuinely stays outside the composition (and keeps [_partial]): requests whose stages are
    only OBSERVED, not modelled — API.ServeGraphQL (the HTTP layer in front of the same stages) and
    the hostile schema's value-dependent scalars; and the source event stream of a subscription,
    which is the application's.  For these the check applies the glue model to the verdicts of the
    separately called stages; the glue theorems for ARBITRARY verdicts (premises: no stage crashed,
    the executor's contract) are what covers them. *)
Theorem C03_observed_stages_total_partial :
  (forall p v e, no_crash p -> no_crash v -> no_crash e -> exists r, execute p v e = Resp r) /\
  (forall p v s, no_crash p -> no_crash v -> no_crash s -> exists r, subscribe p v s = Resp r).
Proof. exact observed_stages_total. Qed.

Theorem C03_observed_stages_data_or_errors_partial :
  (forall p v e r, exec_contract e -> execute p v e = Resp r -> data_or_errors r = true) /\
  (forall p v s r, subscribe p v s = Resp r -> data_or_errors r = true).
Proof. exact observed_stages_data_or_errors. Qed.

Print Assumptions C03_front_never_panics.
Print Assumptions C03_front_cases.
Print Assumptions C03_pipeline_never_panics.
Print Assumptions C03_pipeline_total.
Print Assumptions C03_pipeline_cases.
Print Assumptions C03_response_serialisable.
Print Assumptions C03_data_or_errors.
Print Assumptions C03_parsed_positions_distinct.
Print Assumptions C03_pipeline_order_independent.
Print Assumptions C03_validated_type_conditions_composite.
Print Assumptions C03_validated_conditions_ok_when_evaluable.
Print Assumptions C03_composite_condition_never_unexpected.
Print Assumptions C03_validated_root_type_exists.
Print Assumptions C03_parsed_field_positions_distinct.
Print Assumptions C03_argument_coercion_never_unsupported.
Print Assumptions C03_accepted_acyclic.
Print Assumptions C03_parsed_set_positions_distinct.
Print Assumptions C03_validate_establishes_invariant.
Print Assumptions C03_validate_establishes_doc_ok.
Print Assumptions C03_invariant_from_doc_ok.
Print Assumptions C03_pipeline_response.
Print Assumptions C03_validate_with_cost_never_crashes.
Print Assumptions C03_subscribe_never_crashes.
Print Assumptions C03_async_resolvers_same_data.
Print Assumptions C03_pipeline_response_small_positions.
Print Assumptions C03_short_text_positions_small.
Print Assumptions C03_glue_is_composed.
Print Assumptions C03_execute_total.
Print Assumptions C03_execute_data_or_errors.
Print Assumptions C03_parse_errors_alone.
Print Assumptions C03_subscribe_pipeline_total.
Print Assumptions C03_subscribe_total.
Print Assumptions C03_observed_stages_total_partial.
Print Assumptions C03_observed_stages_data_or_errors_partial.
