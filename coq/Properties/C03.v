(** * C03 — no request can crash, hang or produce an unserialisable response.

    Full statement (properties.jsonl): for every byte string q, JSON variables v, operation name n,
    schema S the library accepts and resolvers returning ordinary values or errors,
    ParseAndValidate / Execute / Subscribe return normally, the response serialises to JSON and
    carries errors whenever it carries no (or null) data.

    What is closed HERE is the glue of graphql.go over the verdicts of its stages (…_partial in
    the sense of BUILDER_GUIDE: the stages' own totality theorems are proved over their own models
    in the files of C07 (scanner makes progress on every byte string), C06 (parser total with the
    stated fuel, recursion counter balanced), C04 (validator raises no panic), C05 (argument
    coercion raises no panic, non-null positions never see null) and C01 (executor total on
    validated documents; nil data only with an error; leaf coercion admits only serialisable
    values); they are re-checked by those properties' own checks.  The composition across the
    differently-typed stage models is tied by the hostile end-to-end stream of this property's
    check, not by a theorem. *)
From Coq Require Import List NArith.
From ApiFu Require Import Pipe.PipelineModel Pipe.PipelineProofs.

Theorem C03_execute_total_partial : forall p v e,
  no_crash p -> no_crash v -> no_crash e -> exists r, execute p v e = Resp r.
Proof. exact execute_total. Qed.

Theorem C03_execute_data_or_errors_partial : forall p v e r,
  exec_contract e -> execute p v e = Resp r -> data_or_errors r = true.
Proof. exact execute_data_or_errors. Qed.

Theorem C03_subscribe_total_partial : forall p v s,
  no_crash p -> no_crash v -> no_crash s -> exists r, subscribe p v s = Resp r.
Proof. exact subscribe_total. Qed.

Theorem C03_subscribe_data_or_errors_partial : forall p v s r,
  subscribe p v s = Resp r -> data_or_errors r = true.
Proof. exact subscribe_data_or_errors. Qed.

Theorem C03_parse_errors_alone : forall n v e,
  execute (Returned (S n)) v e = Resp {| has_data := false; data_null := true; nerrors := S n |}.
Proof. exact parse_errors_alone. Qed.

Print Assumptions C03_execute_total_partial.
Print Assumptions C03_execute_data_or_errors_partial.
Print Assumptions C03_subscribe_total_partial.
Print Assumptions C03_subscribe_data_or_errors_partial.
Print Assumptions C03_parse_errors_alone.
