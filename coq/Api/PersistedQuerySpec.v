(** * Api/PersistedQuerySpec.v — what C18 demands, independently of the code.

    The server keeps the set of texts that were registered; a hash-only request names a digest
    only if its hash string is exactly the hexadecimal spelling (either letter case) of that
    digest; it executes a registered text with that digest (or the empty document for the digest
    of the empty string) and answers PersistedQueryNotFound otherwise. *)
From Coq Require Import List NArith ZArith Bool.
From ApiFu Require Import Base.Sexp Api.PersistedQueryModel.
Import ListNotations.
Open Scope N_scope.

(** hexadecimal spelling of a byte string, lower case *)
Definition hexdigit (a : N) : N := if a <? 10 then 48 + a else 87 + a.
Definition hex_encode (d : bytes) : bytes :=
  flat_map (fun x => [hexdigit (x / 16); hexdigit (x mod 16)]) d.
Definition lower (c : N) : N := if (65 <=? c) && (c <=? 90) then c + 32 else c.

(** strict decoder: [Some d] only when the whole string is an even number of hex digits *)
Fixpoint strict_hex (s : bytes) : option bytes :=
  match s with
  | [] => Some []
  | p :: q :: rest =>
      match hexval p, hexval q, strict_hex rest with
      | Some a, Some b, Some d => Some ((a * 16 + b) :: d)
      | _, _, _ => None
      end
  | _ => None
  end.

(** the digest a hash string denotes: 64 hex digits, nothing else *)
Definition denotes (hx : bytes) : option bytes :=
  match strict_hex hx with
  | Some d => if N.of_nat (length d) =? 32 then Some d else None
  | None => None
  end.

Section Spec.
  Variable sha : bytes -> bytes.

  (** registered texts, most recent first *)
  Definition spec_step (reg : list bytes) (r : request) : list bytes * action :=
    match rq_ext r with
    | None => (reg, Exec (rq_query r))
    | Some e =>
        if ext_version_one e then
          match rq_query r with
          | [] =>
              match denotes (ext_hash e) with
              | None => (reg, NotFound)
              | Some d =>
                  if bytes_eqb d (sha []) then (reg, Exec [])
                  else match find (fun t => bytes_eqb (sha t) d) reg with
                       | Some t => (reg, Exec t)
                       | None => (reg, NotFound)
                       end
              end
          | q => (q :: reg, Exec q)
          end
        else (reg, Exec (rq_query r))
    end.

  Fixpoint spec_run (reg : list bytes) (rs : list request) : list action :=
    match rs with
    | [] => []
    | r :: rs' => let (reg1, a) := spec_step reg r in a :: spec_run reg1 rs'
    end.

  (** texts registered by a history: the non-empty query texts of version-1 requests *)
  Definition registers (r : request) : option bytes :=
    match rq_ext r, rq_query r with
    | Some e, (_ :: _) as q => if ext_version_one e then Some q else None
    | _, _ => None
    end.
  Fixpoint registered (rs : list request) : list bytes :=
    match rs with
    | [] => []
    | r :: rs' => match registers r with Some q => q :: registered rs' | None => registered rs' end
    end.
End Spec.
