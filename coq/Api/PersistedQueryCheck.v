(** * Api/PersistedQueryCheck.v — C18 correspondence: decode a case, run model + spec oracle,
    compare with what the implementation did.  Executable only (extracted / vm_compute). *)
From Coq Require Import List NArith ZArith Bool String.
From ApiFu Require Import Base.Sexp Api.PersistedQueryModel Api.PersistedQuerySpec Api.Sha256.
Import ListNotations.
Open Scope string_scope.

(** observed per request *)
(** [OModified]: the harness found its own request object or extension map changed after the call
    (routes direct, direct-shared, direct-wb), or saw an answer that is none of the three others *)
Inductive obs_action := OExec (q : bytes) | OExecError | ONotFound | OModified.
Record obs := { o_action : obs_action; o_calls : list call }.

Definition dec_ext (s : sexp) : option (option ext) :=
  if is_sym "none" s then Some None
  else match tagged "v1" s with
       | Some [v; h] =>
           match as_bool v, as_bytes h with
           | Some b, Some hb => Some (Some {| ext_version_one := b; ext_hash := hb |})
           | _, _ => None
           end
       | _ => None
       end.

Definition dec_req (s : sexp) : option request :=
  match tagged "req" s with
  | Some [q; e] =>
      match as_bytes q, dec_ext e with
      | Some qb, Some eo => Some {| rq_query := qb; rq_ext := eo |}
      | _, _ => None
      end
  | _ => None
  end.

Definition dec_call (s : sexp) : option call :=
  match untag s with
  | Some (t, [h]) => if String.eqb t "get" then match as_bytes h with Some hb => Some (CGet hb) | None => None end else None
  | Some (t, [q; h]) =>
      if String.eqb t "put" then
        match as_bytes q, as_bytes h with Some qb, Some hb => Some (CPut qb hb) | _, _ => None end
      else None
  | _ => None
  end.

Definition dec_act (a : sexp) : option obs_action :=
  match untag a with
  | Some (t, [q]) => if String.eqb t "exec" then match as_bytes q with Some qb => Some (OExec qb) | None => None end else None
  | Some (t, []) => if String.eqb t "exec-error" then Some OExecError
                    else if String.eqb t "notfound" then Some ONotFound
                    else if String.eqb t "unexpected" then Some OModified else None
  | _ => None
  end.

Definition dec_obs (s : sexp) : option obs :=
  match tagged "obs" s with
  | Some [a; SL cs] =>
      match dec_act a, map_opt dec_call cs with
      | Some x, Some l => Some {| o_action := x; o_calls := l |}
      | _, _ => None
      end
  | _ => None
  end.

(** table entries: (text hash valid) *)
Definition dec_sha (s : sexp) : option (bytes * bytes * bool) :=
  match s with
  | SL [t; h; v] =>
      match as_bytes t, as_bytes h, as_bool v with
      | Some tb, Some hb, Some vb => Some (tb, hb, vb)
      | _, _, _ => None
      end
  | _ => None
  end.

Definition tbl := list (bytes * bytes * bool).
Definition tbl_sha (T : tbl) (t : bytes) : bytes :=
  match find (fun e => bytes_eqb (fst (fst e)) t) T with Some (_, h, _) => h | None => [] end.
Definition tbl_valid (T : tbl) (t : bytes) : bool :=
  match find (fun e => bytes_eqb (fst (fst e)) t) T with Some (_, _, v) => v | None => false end.
Definition tbl_has (T : tbl) (t : bytes) : bool :=
  existsb (fun e => bytes_eqb (fst (fst e)) t) T.

(** the property's observational equivalence on actions: an [exec-error] observation (the
    document was handed to the executor and failed to parse/validate, so the route cannot tell
    which text it was) agrees with executing any text the table marks invalid. *)
Definition act_agrees (T : tbl) (a : action) (o : obs_action) : bool :=
  match a, o with
  | Exec q, OExec q' => bytes_eqb q q'
  | Exec q, OExecError => negb (tbl_valid T q)
  | NotFound, ONotFound => true
  | _, _ => false
  end.

Definition puts (cs : list call) : list (bytes * bytes) :=
  flat_map (fun c => match c with CPut q h => [(q, h)] | CGet _ => [] end) cs.
Fixpoint puts_eqb (a b : list (bytes * bytes)) : bool :=
  match a, b with
  | [], [] => true
  | (q, h) :: a', (q', h') :: b' => bytes_eqb q q' && bytes_eqb h h' && puts_eqb a' b'
  | _, _ => false
  end.

Definition of_action (a : action) : sexp :=
  match a with Exec q => tag "exec" [SStr q] | NotFound => tag "notfound" [] end.

(** classify an oracle failure into a stable key (known_findings.txt speaks in these keys) *)
Definition classify (r : request) (spec_a : action) (o : obs_action) : string :=
  match rq_ext r with
  | None => "disabled-not-transparent"
  | Some e =>
      if negb (ext_version_one e) then "disabled-not-transparent"
      else match rq_query r with
           | _ :: _ => "supplied-text-not-executed"
           | [] =>
               match spec_a, o with
               | NotFound, _ =>
                   match strict_hex (ext_hash e) with
                   | None => "malformed-hash-executed"
                   | Some d => if N.eqb (N.of_nat (List.length d)) 32 then "unregistered-digest-executed"
                               else "wrong-length-hash-executed"
                   end
               | Exec _, ONotFound => "registered-digest-not-found"
               | Exec _, _ => "wrong-document-executed"
               end
           end
  end.

Fixpoint oracle (T : tbl) (i : nat) (rs : list request) (spec : list action) (os : list obs) : option sexp :=
  match rs, spec, os with
  | r :: rs', a :: spec', o :: os' =>
      if (match o_action o with OModified => true | _ => false end) then
        Some (v_oracle_fail "callers-request-modified-or-unexpected-answer" [of_nat i; tag "spec" [of_action a]])
      else if negb (act_agrees T a (o_action o)) then
        Some (v_oracle_fail (classify r a (o_action o)) [of_nat i; tag "spec" [of_action a]])
      else if negb (forallb (fun p => bytes_eqb (snd p) (tbl_sha T (fst p))) (puts (o_calls o))) then
        Some (v_oracle_fail "registered-under-wrong-digest" [of_nat i])
      else oracle T (S i) rs' spec' os'
  | [], [], [] => None
  | _, _, _ => Some (v_bad "length")
  end.

Fixpoint compare (T : tbl) (i : nat) (model : list (action * list call)) (os : list obs) : option sexp :=
  match model, os with
  | (a, cs) :: m', o :: os' =>
      if negb (act_agrees T a (o_action o)) then
        Some (v_mismatch "action" [of_nat i; tag "model" [of_action a]])
      else if negb (puts_eqb (puts cs) (puts (o_calls o))) then
        Some (v_mismatch "registrations" [of_nat i])
      else compare T (S i) m' os'
  | [], [] => None
  | _, _ => Some (v_bad "length")
  end.

(** evidence classes *)
Definition is_lookup (r : request) : bool :=
  match rq_ext r, rq_query r with
  | Some e, [] => ext_version_one e
  | _, _ => false
  end.
Definition classes (rs : list request) (spec : list action) : list string :=
  let lookups := combine rs spec in
  let hit := existsb (fun p => is_lookup (fst p) && match snd p with Exec (_ :: _) => true | _ => false end) lookups in
  let miss := existsb (fun p => is_lookup (fst p) && match snd p with NotFound => true | _ => false end) lookups in
  let malformed := existsb (fun r => is_lookup r && match rq_ext r with
                                                    | Some e => match denotes (ext_hash e) with None => true | _ => false end
                                                    | None => false end) rs in
  let disabled := existsb (fun r => match rq_ext r with None => true | Some e => negb (ext_version_one e) end) rs in
  let reg := existsb (fun r => match registers r with Some _ => true | None => false end) rs in
  (if hit then ["lookup-hit"] else []) ++ (if miss then ["lookup-miss"] else []) ++
  (if malformed then ["malformed-hash"] else []) ++ (if disabled then ["disabled"] else []) ++
  (if reg then ["register"] else []) ++
  (if hit || (miss && reg) then ["nontrivial"] else []).

(** The digest table comes from the harness (Go's crypto/sha256).  Every entry the model, the Spec
    or the oracle can consult in this case — the texts of the history and the texts the
    implementation stored — is recomputed with the Gallina SHA-256 of [Api/Sha256.v]. *)
Definition table_is_sha256 (T : tbl) (used : list bytes) : bool :=
  forallb (fun e => negb (existsb (bytes_eqb (fst (fst e))) used)
                    || bytes_eqb (sha256 (fst (fst e))) (snd (fst e))) T.

Definition check (c : sexp) : sexp :=
  match tagged "case" c with
  | Some l =>
      match field1 "shas" l, field1 "history" l, field1 "observed" l with
      | Some (SL ts), Some (SL hs), Some (SL os) =>
      match map_opt dec_sha ts, map_opt dec_req hs, map_opt dec_obs os with
      | Some T, Some rs, Some obss =>
          if negb (forallb (fun e => N.eqb (N.of_nat (List.length (snd (fst e)))) 32) T) then v_bad "sha-length"
          else if negb (forallb (fun r => tbl_has T (rq_query r)) rs && tbl_has T []) then v_bad "sha-table-incomplete"
          else if negb (table_is_sha256 T ([] :: map rq_query rs ++ map fst (flat_map (fun o => puts (o_calls o)) obss)))
               then v_bad "sha-table-not-sha256"
          else
            let sha := tbl_sha T in
            let spec := spec_run sha [] rs in
            match oracle T 0 rs spec obss with
            | Some v => v
            | None =>
                match compare T 0 (snd (run sha false [] rs)) obss with
                | Some v => v
                | None => v_ok (classes rs spec)
                end
            end
      | _, _, _ => v_bad "decode"
      end
      | _, _, _ => v_bad "fields"
      end
  | None => v_bad "shape"
  end.
