(** * Api/PersistedQueryModel.v — transcription of persisted_query.go (C18)

    [PersistedQueryExtension(storage, execute)] as a step function over an explicit storage.
    No proofs in this file. *)
From Coq Require Import List NArith ZArith Bool.
From ApiFu Require Import Base.Sexp.
Import ListNotations.
Open Scope N_scope.

(** ** Go's encoding/hex.DecodeString: returns the bytes decoded *before* the first problem, and
    whether there was an error (invalid byte or odd length). *)
Definition hexval (c : N) : option N :=
  if (48 <=? c) && (c <=? 57) then Some (c - 48)
  else if (97 <=? c) && (c <=? 102) then Some (c - 87)
  else if (65 <=? c) && (c <=? 70) then Some (c - 55)
  else None.

Fixpoint hex_decode (s : bytes) : bytes * bool :=
  match s with
  | [] => ([], false)
  | [_] => ([], true)
  | p :: q :: rest =>
      match hexval p, hexval q with
      | Some a, Some b => let (d, e) := hex_decode rest in ((a * 16 + b) :: d, e)
      | _, _ => ([], true)
      end
  end.

(** ** The request as the extension sees it.

    [rq_ext = None]: [Extensions["persistedQuery"]] is absent or not a JSON object.
    [ext_version_one]: [ext["version"]] is the int 1 or the float64 1.0 (the Go [switch] cases).
    [ext_hash]: [ext["sha256Hash"]] if it is a string, the empty string otherwise. *)
Record ext := { ext_version_one : bool; ext_hash : bytes }.
Record request := { rq_query : bytes; rq_ext : option ext }.

(** what the wrapped [execute] receives, or the PersistedQueryNotFound response *)
Inductive action := Exec (q : bytes) | NotFound.
(** calls made on the PersistedQueryStorage *)
Inductive call := CGet (h : bytes) | CPut (q h : bytes).

(** The storage the property speaks about ("one storage"): a map hash -> text, [""] when absent,
    later registrations shadow earlier ones. *)
Definition storage := list (bytes * bytes).
Definition st_get (st : storage) (h : bytes) : bytes :=
  match find (fun p => bytes_eqb (fst p) h) st with
  | Some (_, q) => q
  | None => []
  end.
Definition st_put (st : storage) (h q : bytes) : storage := (h, q) :: st.

Section Model.
  (** crypto/sha256.Sum256: not interpreted; nothing about it is needed. *)
  Variable sha : bytes -> bytes.

  (** [ignore_hex_err = true] is the pinned tree before the repair (the error of
      [hex.DecodeString] was dropped); [false] is the current code. *)
  Variable ignore_hex_err : bool.

  Definition decode_hash (hx : bytes) : bytes :=
    let (d, err) := hex_decode hx in
    if err && negb ignore_hex_err then [] else d.

  Definition step (st : storage) (r : request) : storage * action * list call :=
    match rq_ext r with
    | None => (st, Exec (rq_query r), [])
    | Some e =>
        if ext_version_one e then
          match rq_query r with
          | [] =>
              let hash := decode_hash (ext_hash e) in
              if bytes_eqb hash (sha []) then (st, Exec [], [])
              else if N.of_nat (length hash) =? 32 then
                     match st_get st hash with
                     | [] => (st, NotFound, [CGet hash])
                     | q => (st, Exec q, [CGet hash])
                     end
                   else (st, NotFound, [])
          | q => (st_put st (sha q) q, Exec q, [CPut q (sha q)])
          end
        else (st, Exec (rq_query r), [])
    end.

  (** a history of requests against one storage *)
  Fixpoint run (st : storage) (rs : list request) : storage * list (action * list call) :=
    match rs with
    | [] => (st, [])
    | r :: rs' =>
        let '(st1, a, cs) := step st r in
        let (st2, out) := run st1 rs' in
        (st2, (a, cs) :: out)
    end.
End Model.
