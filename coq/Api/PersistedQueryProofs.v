(** * Api/PersistedQueryProofs.v — C18: the model refines the spec, for every history. *)
From Coq Require Import List NArith ZArith Bool Lia.
From ApiFu Require Import Base.Sexp Api.PersistedQueryModel Api.PersistedQuerySpec.
Import ListNotations.
Open Scope N_scope.

(** ** hex *)

Lemma hexval_range c a : hexval c = Some a -> a < 16.
Proof.
  unfold hexval; intro H.
  destruct ((48 <=? c) && (c <=? 57)) eqn:E1.
  { apply andb_true_iff in E1 as [A B]. apply N.leb_le in A, B. inversion H; lia. }
  destruct ((97 <=? c) && (c <=? 102)) eqn:E2.
  { apply andb_true_iff in E2 as [A B]. apply N.leb_le in A, B. inversion H; lia. }
  destruct ((65 <=? c) && (c <=? 70)) eqn:E3; [|discriminate].
  apply andb_true_iff in E3 as [A B]. apply N.leb_le in A, B. inversion H; lia.
Qed.

Lemma hexval_lower c a : hexval c = Some a -> lower c = hexdigit a.
Proof.
  unfold hexval, lower, hexdigit; intro H.
  destruct ((48 <=? c) && (c <=? 57)) eqn:E1.
  { apply andb_true_iff in E1 as [A B]. apply N.leb_le in A, B. inversion H; subst.
    destruct ((65 <=? c) && (c <=? 90)) eqn:E.
    { apply andb_true_iff in E as [C D]. apply N.leb_le in C, D. lia. }
    destruct (c - 48 <? 10) eqn:F; [apply N.ltb_lt in F | apply N.ltb_ge in F]; lia. }
  destruct ((97 <=? c) && (c <=? 102)) eqn:E2.
  { apply andb_true_iff in E2 as [A B]. apply N.leb_le in A, B. inversion H; subst.
    destruct ((65 <=? c) && (c <=? 90)) eqn:E.
    { apply andb_true_iff in E as [C D]. apply N.leb_le in C, D. lia. }
    destruct (c - 87 <? 10) eqn:F; [apply N.ltb_lt in F | apply N.ltb_ge in F]; lia. }
  destruct ((65 <=? c) && (c <=? 70)) eqn:E3; [|discriminate].
  apply andb_true_iff in E3 as [A B]. apply N.leb_le in A, B. inversion H; subst.
  destruct ((65 <=? c) && (c <=? 90)) eqn:E.
  2:{ apply andb_false_iff in E as [C|C]; apply N.leb_gt in C; lia. }
  destruct (c - 55 <? 10) eqn:F; [apply N.ltb_lt in F | apply N.ltb_ge in F]; lia.
Qed.

(** a hash string accepted by the strict decoder is the hex spelling of what it decodes to *)
Lemma strict_hex_sound : forall hx d, strict_hex hx = Some d -> map lower hx = hex_encode d.
Proof.
  fix IH 1. intros [|p [|q rest]] d H; simpl in H.
  - inversion H; reflexivity.
  - discriminate.
  - destruct (hexval p) as [a|] eqn:Hp; [|discriminate].
    destruct (hexval q) as [b|] eqn:Hq; [|discriminate].
    destruct (strict_hex rest) as [d'|] eqn:Hr; [|discriminate].
    inversion H; subst d. simpl.
    pose proof (hexval_range _ _ Hp). pose proof (hexval_range _ _ Hq).
    rewrite (hexval_lower _ _ Hp), (hexval_lower _ _ Hq).
    replace ((a * 16 + b) / 16) with a by (apply N.div_unique with b; lia).
    replace ((a * 16 + b) mod 16) with b by (apply N.mod_unique with a; lia).
    f_equal. f_equal. apply IH. exact Hr.
Qed.

(** Go's decoder without error = the strict decoder *)
Lemma hex_decode_strict : forall hx,
  strict_hex hx = (let (d, e) := hex_decode hx in if e then None else Some d).
Proof.
  fix IH 1. intros [|p [|q rest]]; simpl; try reflexivity.
  destruct (hexval p) as [a|]; [|reflexivity].
  destruct (hexval q) as [b|]; [|reflexivity].
  rewrite (IH rest). destruct (hex_decode rest) as [d e]. destruct e; reflexivity.
Qed.

Section Proofs.
  Variable sha : bytes -> bytes.
  Hypothesis sha_len : forall t, length (sha t) = 32%nat.

  Notation step := (step sha false).
  Notation run := (run sha false).

  Lemma decode_hash_strict hx :
    decode_hash false hx = match strict_hex hx with Some d => d | None => [] end.
  Proof.
    unfold decode_hash. rewrite hex_decode_strict.
    destruct (hex_decode hx) as [d e]; destruct e; reflexivity.
  Qed.

  (** ** invariant: every stored pair is (sha t, t) with t non-empty *)
  Definition st_ok (st : storage) : Prop :=
    Forall (fun p => fst p = sha (snd p) /\ snd p <> []) st.

  (** abstraction: the registered texts, most recent first *)
  Definition abs (st : storage) : list bytes := map snd st.

  Lemma st_get_find st h : st_ok st ->
    st_get st h = match find (fun t => bytes_eqb (sha t) h) (abs st) with Some t => t | None => [] end.
  Proof.
    induction st as [|[h' q] st IH]; intro Hok; [reflexivity|].
    inversion Hok as [|? ? [Hh Hq] Hok']; subst. simpl in Hh. subst h'.
    unfold st_get; simpl. destruct (bytes_eqb (sha q) h); [reflexivity|].
    apply IH; assumption.
  Qed.

  Lemma find_nonempty st h t : st_ok st ->
    find (fun t => bytes_eqb (sha t) h) (abs st) = Some t -> t <> [].
  Proof.
    intros Hok Hf. apply find_some in Hf as [Hin _].
    unfold abs in Hin. apply in_map_iff in Hin as [p [<- Hp]].
    unfold st_ok in Hok. rewrite Forall_forall in Hok. apply Hok in Hp. tauto.
  Qed.

  Lemma step_inv st r : st_ok st -> st_ok (fst (fst (step st r))).
  Proof.
    intro Hok. unfold PersistedQueryModel.step.
    destruct (rq_ext r) as [e|]; [|exact Hok].
    destruct (ext_version_one e); [|exact Hok].
    destruct (rq_query r) as [|c q] eqn:Hq.
    - destruct (bytes_eqb _ _); [exact Hok|].
      destruct (_ =? 32); [|exact Hok].
      destruct (st_get st _); exact Hok.
    - simpl. constructor; [|exact Hok]. simpl. split; [reflexivity|discriminate].
  Qed.

  (** one step of the model is one step of the spec *)
  Lemma step_refines st r : st_ok st ->
    let '(st', a, _) := step st r in spec_step sha (abs st) r = (abs st', a).
  Proof.
    intro Hok. unfold PersistedQueryModel.step, spec_step.
    destruct (rq_ext r) as [e|]; [|reflexivity].
    destruct (ext_version_one e); [|reflexivity].
    destruct (rq_query r) as [|c q] eqn:Hq; [|reflexivity].
    rewrite decode_hash_strict. unfold denotes.
    destruct (strict_hex (ext_hash e)) as [d|] eqn:Hd.
    - destruct (N.of_nat (length d) =? 32) eqn:Hl.
      + destruct (bytes_eqb d (sha [])) eqn:He; [reflexivity|].
        rewrite (st_get_find st d Hok).
        destruct (find (fun t => bytes_eqb (sha t) d) (abs st)) as [t|] eqn:Hf; [|reflexivity].
        pose proof (find_nonempty st d t Hok Hf) as Hne.
        destruct t; [congruence|reflexivity].
      + destruct (bytes_eqb d (sha [])) eqn:He; [|reflexivity].
        apply bytes_eqb_eq in He. subst d. rewrite sha_len in Hl. discriminate.
    - (* undecodable: hash = [] *)
      destruct (bytes_eqb [] (sha [])) eqn:He.
      + apply bytes_eqb_eq in He. pose proof (sha_len []) as L. rewrite <- He in L. discriminate.
      + reflexivity.
  Qed.

  Lemma run_inv : forall rs st, st_ok st -> st_ok (fst (run st rs)).
  Proof.
    induction rs as [|r rs IH]; intros st Hok; [exact Hok|].
    simpl. pose proof (step_inv st r Hok) as H1.
    destruct (step st r) as [[st1 a] cs]. simpl in H1.
    specialize (IH st1 H1). destruct (run st1 rs) as [st2 out]. exact IH.
  Qed.

  Lemma run_refines : forall rs st, st_ok st ->
    map fst (snd (run st rs)) = spec_run sha (abs st) rs.
  Proof.
    induction rs as [|r rs IH]; intros st Hok; [reflexivity|].
    simpl. pose proof (step_inv st r Hok) as H1. pose proof (step_refines st r Hok) as H2.
    destruct (step st r) as [[st1 a] cs]. simpl in H1. rewrite H2.
    specialize (IH st1 H1). destruct (run st1 rs) as [st2 out]. simpl in *. f_equal. exact IH.
  Qed.

  (** the texts in the storage are exactly the registered ones *)
  Lemma run_abs : forall rs st, abs (fst (run st rs)) = rev (registered rs) ++ abs st.
  Proof.
    induction rs as [|r rs IH]; intros st; [reflexivity|].
    simpl. unfold registers.
    assert (Hs : abs (fst (fst (step st r))) =
                 match registers r with Some q => q :: abs st | None => abs st end).
    { unfold PersistedQueryModel.step, registers.
      destruct (rq_ext r) as [e|]; [|destruct (rq_query r); reflexivity].
      destruct (ext_version_one e) eqn:Hv.
      - destruct (rq_query r) as [|c q]; [|reflexivity].
        destruct (bytes_eqb _ _); [reflexivity|]. destruct (_ =? 32); [|reflexivity].
        destruct (st_get st _); reflexivity.
      - destruct (rq_query r); reflexivity. }
    destruct (step st r) as [[st1 a] cs]. simpl in Hs.
    specialize (IH st1). destruct (run st1 rs) as [st2 out]. simpl in *.
    rewrite IH, Hs. unfold registers.
    destruct (rq_ext r) as [e|]; [|destruct (rq_query r); reflexivity].
    destruct (rq_query r) as [|c q]; [destruct (ext_version_one e); reflexivity|].
    destruct (ext_version_one e); [|reflexivity].
    simpl. rewrite <- app_assoc. reflexivity.
  Qed.

  (** ** The property's clauses *)

  Theorem storage_inv rs : st_ok (fst (run [] rs)).
  Proof. apply run_inv. constructor. Qed.

  Theorem refines_spec rs : map fst (snd (run [] rs)) = spec_run sha [] rs.
  Proof. apply (run_refines rs []). constructor. Qed.

  (** A hash-only request after any history [rs] executes [t] only if its hash string is the
      64-digit hex spelling of [sha t] and [t] was registered by [rs] (or is the empty text). *)
  Theorem lookup_exact rs e t :
    ext_version_one e = true ->
    snd (fst (step (fst (run [] rs)) {| rq_query := []; rq_ext := Some e |})) = Exec t ->
    map lower (ext_hash e) = hex_encode (sha t) /\ (t = [] \/ In t (registered rs)).
  Proof.
    intros Hv Hex.
    pose proof (storage_inv rs) as Hok.
    pose proof (step_refines _ {| rq_query := []; rq_ext := Some e |} Hok) as Href.
    destruct (step _ _) as [[st' a] cs]. simpl in Hex. subst a.
    unfold spec_step in Href. simpl in Href. rewrite Hv in Href.
    unfold denotes in Href.
    destruct (strict_hex (ext_hash e)) as [d|] eqn:Hd; [|discriminate].
    apply strict_hex_sound in Hd.
    destruct (N.of_nat (length d) =? 32); [|discriminate].
    destruct (bytes_eqb d (sha [])) eqn:He.
    - apply bytes_eqb_eq in He. inversion Href; subst. split; [exact Hd|left; reflexivity].
    - destruct (find _ _) as [t'|] eqn:Hf; [|discriminate].
      inversion Href; subst t'.
      apply find_some in Hf as [Hin Heq]. apply bytes_eqb_eq in Heq. subst d.
      split; [exact Hd|right].
      rewrite run_abs, app_nil_r in Hin. apply in_rev in Hin. exact Hin.
  Qed.

  (** ... and it does execute a text with that digest whenever one was registered. *)
  Theorem lookup_complete rs e t :
    ext_version_one e = true -> In t (registered rs) -> denotes (ext_hash e) = Some (sha t) ->
    exists t', snd (fst (step (fst (run [] rs)) {| rq_query := []; rq_ext := Some e |})) = Exec t'
               /\ sha t' = sha t.
  Proof.
    intros Hv Hin Hden.
    pose proof (storage_inv rs) as Hok.
    pose proof (step_refines _ {| rq_query := []; rq_ext := Some e |} Hok) as Href.
    destruct (step _ _) as [[st' a] cs]. simpl.
    unfold spec_step in Href. simpl in Href. rewrite Hv, Hden in Href.
    destruct (bytes_eqb (sha t) (sha [])) eqn:He.
    - apply bytes_eqb_eq in He. inversion Href; subst. exists []. split; [reflexivity|congruence].
    - destruct (find _ _) as [t'|] eqn:Hf.
      + inversion Href; subst. exists t'. split; [reflexivity|].
        apply find_some in Hf as [_ Heq]. apply bytes_eqb_eq in Heq. exact Heq.
      + exfalso. rewrite run_abs, app_nil_r in Hf.
        pose proof (find_none _ _ Hf t) as Hn. simpl in Hn.
        rewrite bytes_eqb_refl in Hn. apply Bool.diff_true_false, Hn.
        apply -> in_rev. exact Hin.
  Qed.

  (** supplied text always wins, and registers under its true digest only *)
  Theorem text_wins st r c q : rq_query r = c :: q ->
    snd (fst (step st r)) = Exec (c :: q) /\
    (fst (fst (step st r)) = st \/ fst (fst (step st r)) = (sha (c :: q), c :: q) :: st).
  Proof.
    intro Hq. unfold PersistedQueryModel.step. rewrite Hq.
    destruct (rq_ext r) as [e|]; [|split; [reflexivity|left; reflexivity]].
    destruct (ext_version_one e); split; try reflexivity; [right|left]; reflexivity.
  Qed.

  (** without the extension, or with an unknown version, the wrapper is the identity *)
  Theorem disabled_equiv st r :
    (rq_ext r = None \/ exists e, rq_ext r = Some e /\ ext_version_one e = false) ->
    step st r = (st, Exec (rq_query r), []).
  Proof.
    intros [H|[e [H Hv]]]; unfold PersistedQueryModel.step; rewrite H; [reflexivity|].
    rewrite Hv; reflexivity.
  Qed.
End Proofs.

(** ** The pinned tree before the repair (hex error ignored) violates [lookup_exact]. *)
Definition toy_sha (t : bytes) : bytes := repeat (N.of_nat (length t)) 32.

Theorem lookup_exact_refuted_when_hex_error_ignored :
  exists (rs : list request) (e : ext) (t : bytes),
    ext_version_one e = true /\
    snd (fst (PersistedQueryModel.step toy_sha true (fst (PersistedQueryModel.run toy_sha true [] rs))
                {| rq_query := []; rq_ext := Some e |})) = Exec t /\
    map lower (ext_hash e) <> hex_encode (toy_sha t).
Proof.
  exists [ {| rq_query := [123; 97; 125]; rq_ext := Some {| ext_version_one := true; ext_hash := [] |} |} ].
  exists {| ext_version_one := true; ext_hash := hex_encode (toy_sha [123; 97; 125]) ++ [122; 122] |}.
  exists [123; 97; 125].
  split; [reflexivity|]. split; [vm_compute; reflexivity|].
  vm_compute. discriminate.
Qed.
