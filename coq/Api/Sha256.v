(** * Api/Sha256.v — SHA-256 (FIPS 180-4) as an executable Gallina function over byte lists.

    C18's theorems are stated for an arbitrary digest function [sha] whose digests are 32 bytes long.
    This file supplies the function the property's text names, so that (a) the theorems can be
    instantiated with it ([Properties/C18.v], [C18_*_sha256]) and (b) the correspondence check no
    longer has to trust the digest table the harness computes with Go's crypto/sha256: every entry
    of the table is recomputed here ([PersistedQueryCheck.check], verdict [bad sha-table-not-sha256]).
    Words are [N] kept below 2^32 by explicit masking; nothing here is proved about collision
    resistance (nothing in C18 needs it: the theorems speak of "the text registered under [sha t]"). *)
From Coq Require Import List NArith.
From ApiFu Require Import Base.Sexp.
Import ListNotations.
Open Scope N_scope.

Definition mask32 : N := 4294967295.
Definition add32 (a b : N) : N := N.land (a + b) mask32.
Definition rotr (n x : N) : N := N.lor (N.shiftr x n) (N.land (N.shiftl x (32 - n)) mask32).
Definition not32 (x : N) : N := N.lxor x mask32.

Definition ch (x y z : N) : N := N.lxor (N.land x y) (N.land (not32 x) z).
Definition maj (x y z : N) : N := N.lxor (N.lxor (N.land x y) (N.land x z)) (N.land y z).
Definition bsig0 (x : N) : N := N.lxor (N.lxor (rotr 2 x) (rotr 13 x)) (rotr 22 x).
Definition bsig1 (x : N) : N := N.lxor (N.lxor (rotr 6 x) (rotr 11 x)) (rotr 25 x).
Definition ssig0 (x : N) : N := N.lxor (N.lxor (rotr 7 x) (rotr 18 x)) (N.shiftr x 3).
Definition ssig1 (x : N) : N := N.lxor (N.lxor (rotr 17 x) (rotr 19 x)) (N.shiftr x 10).

Definition K256 : list N :=
  [ 0x428a2f98; 0x71374491; 0xb5c0fbcf; 0xe9b5dba5; 0x3956c25b; 0x59f111f1; 0x923f82a4; 0xab1c5ed5;
    0xd807aa98; 0x12835b01; 0x243185be; 0x550c7dc3; 0x72be5d74; 0x80deb1fe; 0x9bdc06a7; 0xc19bf174;
    0xe49b69c1; 0xefbe4786; 0x0fc19dc6; 0x240ca1cc; 0x2de92c6f; 0x4a7484aa; 0x5cb0a9dc; 0x76f988da;
    0x983e5152; 0xa831c66d; 0xb00327c8; 0xbf597fc7; 0xc6e00bf3; 0xd5a79147; 0x06ca6351; 0x14292967;
    0x27b70a85; 0x2e1b2138; 0x4d2c6dfc; 0x53380d13; 0x650a7354; 0x766a0abb; 0x81c2c92e; 0x92722c85;
    0xa2bfe8a1; 0xa81a664b; 0xc24b8b70; 0xc76c51a3; 0xd192e819; 0xd6990624; 0xf40e3585; 0x106aa070;
    0x19a4c116; 0x1e376c08; 0x2748774c; 0x34b0bcb5; 0x391c0cb3; 0x4ed8aa4a; 0x5b9cca4f; 0x682e6ff3;
    0x748f82ee; 0x78a5636f; 0x84c87814; 0x8cc70208; 0x90befffa; 0xa4506ceb; 0xbef9a3f7; 0xc67178f2 ].

(** the eight working variables / the intermediate hash value *)
Record st8 := { sa : N; sb : N; sc : N; sd : N; se : N; sf : N; sg : N; sh : N }.

Definition H256 : st8 :=
  {| sa := 0x6a09e667; sb := 0xbb67ae85; sc := 0x3c6ef372; sd := 0xa54ff53a;
     se := 0x510e527f; sf := 0x9b05688c; sg := 0x1f83d9ab; sh := 0x5be0cd19 |}.

(** padding (5.1.1): the message, 0x80, zeros up to 56 mod 64, the bit length as 8 bytes big-endian *)
Definition be_bytes (n : nat) (x : N) : bytes :=
  map (fun i => N.land (N.shiftr x (8 * N.of_nat i)) 255) (rev (seq 0 n)).
Definition pad_zeros (len : nat) : nat := Nat.modulo (64 - Nat.modulo (len + 9) 64) 64.
Definition pad (m : bytes) : bytes :=
  m ++ [128] ++ repeat 0 (pad_zeros (length m)) ++ be_bytes 8 (8 * N.of_nat (length m)).

(** big-endian words of a block *)
Fixpoint words (fuel : nat) (b : bytes) : list N :=
  match fuel, b with
  | S f, b0 :: b1 :: b2 :: b3 :: r =>
      (N.shiftl b0 24 + N.shiftl b1 16 + N.shiftl b2 8 + b3) :: words f r
  | _, _ => []
  end.

(** message schedule (6.2.2 step 1), kept most-recent-first: [w] holds W_{t-1}, W_{t-2}, … *)
Fixpoint schedule (n : nat) (w : list N) : list N :=
  match n with
  | O => w
  | S n' =>
      let x := add32 (add32 (ssig1 (nth 1 w 0)) (nth 6 w 0)) (add32 (ssig0 (nth 14 w 0)) (nth 15 w 0)) in
      schedule n' (x :: w)
  end.

Definition round (s : st8) (kw : N * N) : st8 :=
  let t1 := add32 (add32 (add32 (sh s) (bsig1 (se s))) (ch (se s) (sf s) (sg s))) (add32 (fst kw) (snd kw)) in
  let t2 := add32 (bsig0 (sa s)) (maj (sa s) (sb s) (sc s)) in
  {| sa := add32 t1 t2; sb := sa s; sc := sb s; sd := sc s;
     se := add32 (sd s) t1; sf := se s; sg := sf s; sh := sg s |}.

Definition compress (h : st8) (block : bytes) : st8 :=
  let w := rev (schedule 48 (rev (words 16 block))) in
  let s := fold_left round (combine K256 w) h in
  {| sa := add32 (sa h) (sa s); sb := add32 (sb h) (sb s); sc := add32 (sc h) (sc s); sd := add32 (sd h) (sd s);
     se := add32 (se h) (se s); sf := add32 (sf h) (sf s); sg := add32 (sg h) (sg s); sh := add32 (sh h) (sh s) |}.

(** fuel = number of blocks + 1 suffices; [sha256] passes the length of the padded message *)
Fixpoint blocks (fuel : nat) (h : st8) (m : bytes) : st8 :=
  match fuel, m with
  | _, [] => h
  | O, _ => h
  | S f, _ => blocks f (compress h (firstn 64 m)) (skipn 64 m)
  end.

Definition be32 (x : N) : bytes :=
  [ N.land (N.shiftr x 24) 255; N.land (N.shiftr x 16) 255; N.land (N.shiftr x 8) 255; N.land x 255 ].

Definition digest (s : st8) : bytes :=
  be32 (sa s) ++ be32 (sb s) ++ be32 (sc s) ++ be32 (sd s) ++
  be32 (se s) ++ be32 (sf s) ++ be32 (sg s) ++ be32 (sh s).

Definition sha256 (m : bytes) : bytes :=
  let p := pad m in digest (blocks (length p) H256 p).

Lemma sha256_len : forall m, length (sha256 m) = 32%nat.
Proof. intro m. unfold sha256, digest. reflexivity. Qed.

Lemma sha256_byte_range : forall m, Forall (fun b => b < 256) (sha256 m).
Proof.
  intro m. unfold sha256, digest, be32.
  repeat (first [ apply Forall_nil | apply Forall_cons | apply Forall_app; split ]);
    change 255 with (N.ones 8); rewrite N.land_ones; apply N.mod_lt; discriminate.
Qed.
