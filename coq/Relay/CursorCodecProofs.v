(** * Relay/CursorCodecProofs.v — the cursor codec round-trips; the harness's cursor order is a
    strict total order. *)
From Coq Require Import List NArith ZArith Bool Lia ZifyBool ZifyN ZifyNat.
From ApiFu Require Import Base.Sexp Relay.CursorCodec.
Import ListNotations.

Ltac Zify.zify_post_hook ::= Z.div_mod_to_equations.

(** ** base64url *)
Lemma forallb_N_below (p : N -> bool) (n : nat) :
  forallb p (map N.of_nat (seq 0 n)) = true -> forall s, (s < N.of_nat n)%N -> p s = true.
Proof.
  intros H s Hs. rewrite forallb_forall in H. apply H. apply in_map_iff. exists (N.to_nat s).
  split; [lia|]. apply in_seq. lia.
Qed.

Lemma b64_val_char s : (s < 64)%N -> b64_val (b64_char s) = Some s.
Proof.
  intro Hs.
  pose proof (forallb_N_below (fun s => match b64_val (b64_char s) with Some x => N.eqb x s | None => false end) 64) as H.
  specialize (H ltac:(vm_compute; reflexivity) s Hs). cbv beta in H. destruct (b64_val (b64_char s)); [|discriminate]. apply N.eqb_eq in H. congruence.
Qed.

Lemma b64_char_not_newline s : (s < 64)%N -> is_newline (b64_char s) = false.
Proof.
  intro Hs.
  pose proof (forallb_N_below (fun s => negb (is_newline (b64_char s))) 64) as H.
  specialize (H ltac:(vm_compute; reflexivity) s Hs). cbv beta in H. apply negb_true_iff in H. exact H.
Qed.

Fixpoint sextets_of (l : bytes) : list N :=
  match l with
  | [] => []
  | [a] => [a / 4; (a mod 4) * 16]
  | [a; b] => [a / 4; (a mod 4) * 16 + b / 16; (b mod 16) * 4]
  | a :: b :: c :: rest =>
      a / 4 :: (a mod 4) * 16 + b / 16 :: (b mod 16) * 4 + c / 64 :: c mod 64 :: sextets_of rest
  end%N.

Lemma list_ind3 (A : Type) (P : list A -> Prop) :
  P [] -> (forall a, P [a]) -> (forall a b, P [a; b]) ->
  (forall a b c r, P r -> P (a :: b :: c :: r)) -> forall l, P l.
Proof.
  intros H0 H1 H2 H3. fix IH 1.
  intros [|a [|b [|c r]]]; [exact H0 | exact (H1 a) | exact (H2 a b) | exact (H3 a b c r (IH r))].
Qed.

Definition is_bytes (l : bytes) : Prop := Forall (fun x => (x < 256)%N) l.

Lemma b64_encode_sextets l : b64_encode l = map b64_char (sextets_of l).
Proof.
  induction l as [| a | a b | a b c r IH] using list_ind3; try reflexivity.
  cbn [b64_encode sextets_of map]. rewrite IH. reflexivity.
Qed.

Lemma sextets_lt l : is_bytes l -> Forall (fun s => (s < 64)%N) (sextets_of l).
Proof.
  unfold is_bytes. induction l as [| a | a b | a b c r IH] using list_ind3; intro H; cbn [sextets_of].
  - constructor.
  - inversion H; subst. repeat constructor; lia.
  - inversion H as [|? ? Ha H']; subst. inversion H'; subst. repeat constructor; lia.
  - inversion H as [|? ? Ha H']; subst. inversion H' as [|? ? Hb H'']; subst. inversion H'' as [|? ? Hc H''']; subst.
    repeat (constructor; [lia|]). apply IH. exact H'''.
Qed.

Lemma sextets_back l : is_bytes l -> sextets_to_bytes (sextets_of l) = Some l.
Proof.
  unfold is_bytes. induction l as [| a | a b | a b c r IH] using list_ind3; intro H.
  - reflexivity.
  - inversion H; subst. cbn [sextets_of sextets_to_bytes]. f_equal. f_equal. lia.
  - inversion H as [|? ? Ha H']; subst. inversion H'; subst. cbn [sextets_of sextets_to_bytes].
    f_equal. f_equal; [lia|]. f_equal. lia.
  - inversion H as [|? ? Ha H']; subst. inversion H' as [|? ? Hb H'']; subst. inversion H'' as [|? ? Hc H''']; subst.
    cbn [sextets_of sextets_to_bytes]. rewrite (IH H''').
    f_equal. f_equal; [lia|]. f_equal; [lia|]. f_equal. lia.
Qed.

Lemma map_opt_b64 l : Forall (fun s => (s < 64)%N) l -> map_opt b64_val (map b64_char l) = Some l.
Proof.
  induction 1 as [|s r Hs Hr IH]; simpl; [reflexivity|]. rewrite (b64_val_char s Hs), IH. reflexivity.
Qed.

Lemma filter_no_newline l : Forall (fun s => (s < 64)%N) l ->
  filter (fun c => negb (is_newline c)) (map b64_char l) = map b64_char l.
Proof.
  induction 1 as [|s r Hs Hr IH]; simpl; [reflexivity|]. rewrite (b64_char_not_newline s Hs). simpl. rewrite IH. reflexivity.
Qed.

Theorem b64_roundtrip l : is_bytes l -> b64_decode (b64_encode l) = Some l.
Proof.
  intro H. unfold b64_decode. rewrite b64_encode_sextets.
  rewrite (filter_no_newline _ (sextets_lt l H)), (map_opt_b64 _ (sextets_lt l H)). apply sextets_back. exact H.
Qed.

Lemma b64_encode_nonempty l : l <> [] -> b64_encode l <> [].
Proof. destruct l as [|a [|b [|c r]]]; simpl; congruence. Qed.

(** ** big-endian numbers *)
Lemma be_decode_app a b : be_decode (a ++ b) = fold_left (fun acc x => (acc * 256 + Z.of_N x)%Z) b (be_decode a).
Proof. unfold be_decode. apply fold_left_app. Qed.

Lemma be_encode_length k n : length (be_encode k n) = k.
Proof. revert n. induction k as [|k IH]; intro n; simpl; [reflexivity|]. rewrite app_length, IH. simpl. lia. Qed.

Lemma be_encode_bytes k n : is_bytes (be_encode k n).
Proof.
  revert n. induction k as [|k IH]; intro n; simpl; [constructor|].
  apply Forall_app. split; [apply IH|]. constructor; [lia | constructor].
Qed.

Lemma be_roundtrip k n : (0 <= n)%Z -> be_decode (be_encode k n) = (n mod 256 ^ Z.of_nat k)%Z.
Proof.
  revert n. induction k as [|k IH]; intros n Hn.
  - simpl. rewrite Z.mod_1_r. reflexivity.
  - cbn [be_encode]. rewrite be_decode_app. cbn [fold_left].
    rewrite IH by (apply Z.div_pos; lia).
    replace (Z.of_nat (S k)) with (1 + Z.of_nat k)%Z by lia.
    rewrite Z.pow_add_r by lia. change (256 ^ 1)%Z with 256%Z.
    rewrite (Z.rem_mul_r n 256 (256 ^ Z.of_nat k)) by lia.
    rewrite Z2N.id by (apply Z.mod_pos_bound; lia). lia.
Qed.

Lemma take_all (l : bytes) : take (N.of_nat (length l)) l = Some l.
Proof.
  unfold take. rewrite N.ltb_irrefl. rewrite Nat2N.id. rewrite firstn_all. reflexivity.
Qed.

Lemma take_app (a b : bytes) : take (N.of_nat (length a)) (a ++ b) = Some a.
Proof.
  unfold take. rewrite app_length.
  replace (N.of_nat (length a + length b) <? N.of_nat (length a))%N with false by lia.
  rewrite Nat2N.id. rewrite firstn_app, firstn_all, Nat.sub_diag. simpl. rewrite app_nil_r. reflexivity.
Qed.

(** ** msgpack *)
Theorem mp_int_roundtrip z : (- 2 ^ 63 <= z < 2 ^ 63)%Z -> mp_decode_int (mp_encode_int z) = Some z.
Proof.
  intro Hz. unfold mp_encode_int.
  change (mp_decode_int (211%N :: be_encode 8 (z mod 2 ^ 64)%Z)) with (mp_sint 8 (be_encode 8 (z mod 2 ^ 64)%Z)).
  unfold mp_sint.
  pose proof (take_all (be_encode 8 (z mod 2 ^ 64)%Z)) as Ht. rewrite be_encode_length in Ht.
  change (N.of_nat 8) with 8%N in Ht. rewrite Ht.
  rewrite be_roundtrip by (apply Z.mod_pos_bound; lia).
  change (256 ^ Z.of_nat 8)%Z with (2 ^ 64)%Z. rewrite Z.mod_mod by lia.
  unfold wrap_signed. change (8 * Z.of_N 8 - 1)%Z with 63%Z. change (8 * Z.of_N 8)%Z with 64%Z.
  f_equal. destruct (z mod 2 ^ 64 <? 2 ^ 63)%Z eqn:H; lia.
Qed.

Lemma mp_encode_int_bytes z : is_bytes (mp_encode_int z).
Proof. unfold mp_encode_int. constructor; [lia | apply be_encode_bytes]. Qed.

Lemma be1 l : (0 <= l < 256)%Z -> be_encode 1 l = [Z.to_N l].
Proof. intro H. cbn [be_encode app]. f_equal. f_equal. lia. Qed.

Theorem mp_str_roundtrip s : (Z.of_nat (length s) < 2 ^ 32)%Z -> mp_decode_str (mp_encode_str s) = Some s.
Proof.
  intro Hl. unfold mp_encode_str. set (l := Z.of_nat (length s)) in *.
  assert (Hl0 : (0 <= l)%Z) by lia.
  assert (Htake : take (Z.to_N l) s = Some s).
  { unfold l. rewrite <- nat_N_Z, N2Z.id. apply take_all. }
  destruct (l <? 32)%Z eqn:H32.
  - (* fixstr *)
    cbn [app]. unfold mp_decode_str.
    replace (Z.to_N (160 + l) =? 192)%N with false by lia.
    replace ((160 <=? Z.to_N (160 + l)) && (Z.to_N (160 + l) <=? 191))%N with true by lia.
    replace (Z.to_N (160 + l) - 160)%N with (Z.to_N l) by lia. exact Htake.
  - destruct (l <? 256)%Z eqn:H256; [|destruct (l <? 65536)%Z eqn:H64k].
    + (* str8 *)
      change (mp_decode_str ((217%N :: be_encode 1 l) ++ s)) with (mp_str_len 1 (be_encode 1 l ++ s)).
      unfold mp_str_len.
      pose proof (take_app (be_encode 1 l) s) as Ht. rewrite be_encode_length in Ht. change (N.of_nat 1) with 1%N in Ht.
      rewrite Ht. rewrite be_roundtrip by lia. change (256 ^ Z.of_nat 1)%Z with 256%Z.
      rewrite Z.mod_small by lia.
      change (N.to_nat 1) with (length (be_encode 1 l)) at 1.
      rewrite skipn_app, skipn_all, Nat.sub_diag. simpl. exact Htake.
    + (* str16 *)
      change (mp_decode_str ((218%N :: be_encode 2 l) ++ s)) with (mp_str_len 2 (be_encode 2 l ++ s)).
      unfold mp_str_len.
      pose proof (take_app (be_encode 2 l) s) as Ht. rewrite be_encode_length in Ht. change (N.of_nat 2) with 2%N in Ht.
      rewrite Ht. rewrite be_roundtrip by lia. change (256 ^ Z.of_nat 2)%Z with 65536%Z.
      rewrite Z.mod_small by lia.
      replace (N.to_nat 2) with (length (be_encode 2 l)) by (rewrite be_encode_length; reflexivity).
      rewrite skipn_app, skipn_all, Nat.sub_diag. simpl. exact Htake.
    + (* str32 *)
      change (mp_decode_str ((219%N :: be_encode 4 l) ++ s)) with (mp_str_len 4 (be_encode 4 l ++ s)).
      unfold mp_str_len.
      pose proof (take_app (be_encode 4 l) s) as Ht. rewrite be_encode_length in Ht. change (N.of_nat 4) with 4%N in Ht.
      rewrite Ht. rewrite be_roundtrip by lia. change (256 ^ Z.of_nat 4)%Z with (2 ^ 32)%Z.
      rewrite Z.mod_small by lia.
      replace (N.to_nat 4) with (length (be_encode 4 l)) by (rewrite be_encode_length; reflexivity).
      rewrite skipn_app, skipn_all, Nat.sub_diag. simpl. exact Htake.
Qed.

Lemma mp_encode_str_bytes s : is_bytes s -> is_bytes (mp_encode_str s).
Proof.
  intro H. unfold mp_encode_str. apply Forall_app. split; [|exact H].
  destruct (_ <? 32)%Z eqn:H32; [constructor; [lia | constructor]|].
  destruct (_ <? 256)%Z; [|destruct (_ <? 65536)%Z]; (constructor; [lia | apply be_encode_bytes]).
Qed.

(** ** stream readers on what Marshal writes, followed by anything *)
Lemma mp_payload_app (s r : bytes) : mp_payload (N.of_nat (length s)) (s ++ r) = Some (s, r).
Proof.
  unfold mp_payload. rewrite app_length.
  replace (N.of_nat (length s + length r) <? N.of_nat (length s))%N with false by lia.
  rewrite Nat2N.id. rewrite firstn_app, firstn_all, Nat.sub_diag, skipn_app, skipn_all, Nat.sub_diag.
  simpl. rewrite app_nil_r. reflexivity.
Qed.

Lemma mp_len_field_app k l (r : bytes) : (0 <= l < 256 ^ Z.of_nat k)%Z ->
  mp_len_field (N.of_nat k) (be_encode k l ++ r) = Some (Z.to_N l, r).
Proof.
  intro Hl. unfold mp_len_field.
  pose proof (take_app (be_encode k l) r) as Ht. rewrite be_encode_length in Ht. rewrite Ht.
  rewrite be_roundtrip by lia. rewrite Z.mod_small by lia.
  rewrite Nat2N.id. replace k with (length (be_encode k l)) at 1 by apply be_encode_length.
  rewrite skipn_app, skipn_all, Nat.sub_diag. reflexivity.
Qed.

Lemma mp_read_int_enc z (r : bytes) : (- 2 ^ 63 <= z < 2 ^ 63)%Z ->
  mp_read_int (mp_encode_int z ++ r) = Some (z, r).
Proof.
  intro Hz. unfold mp_encode_int. rewrite <- app_comm_cons.
  change (mp_read_int (211%N :: be_encode 8 (z mod 2 ^ 64)%Z ++ r)) with (mp_read_sint 8 (be_encode 8 (z mod 2 ^ 64)%Z ++ r)).
  unfold mp_read_sint.
  pose proof (take_app (be_encode 8 (z mod 2 ^ 64)%Z) r) as Ht. rewrite be_encode_length in Ht.
  change (N.of_nat 8) with 8%N in Ht. rewrite Ht.
  rewrite be_roundtrip by (apply Z.mod_pos_bound; lia).
  change (256 ^ Z.of_nat 8)%Z with (2 ^ 64)%Z. rewrite Z.mod_mod by lia.
  replace (N.to_nat 8) with (length (be_encode 8 (z mod 2 ^ 64)%Z)) by (rewrite be_encode_length; reflexivity).
  rewrite skipn_app, skipn_all, Nat.sub_diag. simpl skipn.
  unfold wrap_signed. change (8 * Z.of_N 8 - 1)%Z with 63%Z. change (8 * Z.of_N 8)%Z with 64%Z.
  f_equal. f_equal. destruct (z mod 2 ^ 64 <? 2 ^ 63)%Z eqn:H; lia.
Qed.

Lemma mp_read_str_enc s (r : bytes) : (Z.of_nat (length s) < 2 ^ 32)%Z ->
  mp_read_str (mp_encode_str s ++ r) = Some (s, r).
Proof.
  intro Hl. unfold mp_encode_str. set (l := Z.of_nat (length s)) in *.
  assert (Hl0 : (0 <= l)%Z) by lia.
  assert (Hn : Z.to_N l = N.of_nat (length s)) by (unfold l; lia).
  destruct (l <? 32)%Z eqn:H32.
  - cbn [app]. unfold mp_read_str.
    replace (Z.to_N (160 + l) =? 192)%N with false by lia.
    replace ((160 <=? Z.to_N (160 + l)) && (Z.to_N (160 + l) <=? 191))%N with true by lia.
    replace (Z.to_N (160 + l) - 160)%N with (N.of_nat (length s)) by lia. apply mp_payload_app.
  - destruct (l <? 256)%Z eqn:H256; [|destruct (l <? 65536)%Z eqn:H64k]; rewrite <- app_assoc, <- app_comm_cons.
    + change (mp_read_str (217%N :: be_encode 1 l ++ s ++ r)) with (mp_len_payload 1 0 (be_encode 1 l ++ s ++ r)).
      unfold mp_len_payload. change 1%N with (N.of_nat 1).
      rewrite mp_len_field_app by (change (256 ^ Z.of_nat 1)%Z with 256%Z; lia).
      rewrite N.add_0_r, Hn. apply mp_payload_app.
    + change (mp_read_str (218%N :: be_encode 2 l ++ s ++ r)) with (mp_len_payload 2 0 (be_encode 2 l ++ s ++ r)).
      unfold mp_len_payload. change 2%N with (N.of_nat 2).
      rewrite mp_len_field_app by (change (256 ^ Z.of_nat 2)%Z with 65536%Z; lia).
      rewrite N.add_0_r, Hn. apply mp_payload_app.
    + change (mp_read_str (219%N :: be_encode 4 l ++ s ++ r)) with (mp_len_payload 4 0 (be_encode 4 l ++ s ++ r)).
      unfold mp_len_payload. change 4%N with (N.of_nat 4).
      rewrite mp_len_field_app by (change (256 ^ Z.of_nat 4)%Z with (2 ^ 32)%Z; lia).
      rewrite N.add_0_r, Hn. apply mp_payload_app.
Qed.

(** the struct: Unmarshal (Marshal (TimeBasedCursor{n, i})) = {n, i}, for any fuel >= 2 *)
Theorem mp_time_roundtrip f n i : (- 2 ^ 63 <= n < 2 ^ 63)%Z -> (Z.of_nat (length i) < 2 ^ 32)%Z ->
  mp_decode_time (S (S f)) (mp_encode_time n i) = DOk (n, i).
Proof.
  intros Hn Hi. unfold mp_encode_time.
  change ([130; 164]%N ++ name_nano ++ mp_encode_int n ++ [162%N] ++ name_id ++ mp_encode_str i)
    with (130%N :: ([164]%N ++ name_nano) ++ mp_encode_int n ++ ([162%N] ++ name_id) ++ mp_encode_str i).
  change (mp_decode_time (S (S f)) (130%N :: ?x)) with (mp_struct_map (S (S f)) 2 x (0%Z, [])).
  cbn [mp_struct_map]. change (2 =? 0)%N with false. cbv iota.
  change ([164]%N ++ name_nano) with (mp_encode_str name_nano).
  rewrite (mp_read_str_enc name_nano _ ltac:(vm_compute; reflexivity)). cbv iota.
  change (bytes_eqb name_nano name_nano) with true. cbv iota.
  rewrite (mp_read_int_enc n _ Hn). cbv iota. change (2 - 1 =? 0)%N with false. cbv iota.
  change ([162]%N ++ name_id) with (mp_encode_str name_id).
  rewrite (mp_read_str_enc name_id _ ltac:(vm_compute; reflexivity)). cbv iota.
  change (bytes_eqb name_id name_nano) with false. change (bytes_eqb name_id name_id) with true. cbv iota.
  rewrite <- (app_nil_r (mp_encode_str i)). rewrite (mp_read_str_enc i [] Hi). cbv iota.
  destruct f; reflexivity.
Qed.

Lemma mp_encode_time_bytes n i : is_bytes i -> is_bytes (mp_encode_time n i).
Proof.
  intro H. unfold mp_encode_time, is_bytes, name_nano, name_id.
  assert (K : forall l : bytes, forallb (fun x => (x <? 256)%N) l = true -> Forall (fun x => (x < 256)%N) l).
  { intros l Hl. apply Forall_forall. intros x Hx. rewrite forallb_forall in Hl. specialize (Hl x Hx). lia. }
  apply Forall_app; split; [apply K; reflexivity|].
  apply Forall_app; split; [apply K; reflexivity|].
  apply Forall_app; split; [apply mp_encode_int_bytes|].
  apply Forall_app; split; [apply K; reflexivity|].
  apply Forall_app; split; [apply K; reflexivity|].
  apply mp_encode_str_bytes; exact H.
Qed.

Lemma b64_encode_length l : (length (b64_encode l) <= 2 * length l)%nat.
Proof.
  induction l as [| a | a b | a b c r IH] using list_ind3; cbn [b64_encode length]; lia.
Qed.

(** ** cursors *)
(** Deserialize(Serialize(c)) == c: every cursor the server emits is accepted back and denotes the
    same position *)
Theorem cursor_roundtrip c : cursor_ok c -> cursor_decode (kind_of c) (cursor_encode c) = Some c.
Proof.
  intros [H Hlen]. unfold cursor_decode, cursor_decode_f. rewrite Hlen.
  destruct c as [z|s|n i]; simpl in H; unfold cursor_encode in *.
  - rewrite (b64_roundtrip _ (mp_encode_int_bytes z)). cbn [kind_of]. rewrite (mp_int_roundtrip z H). reflexivity.
  - destruct H as [Hl Hb]. rewrite (b64_roundtrip _ (mp_encode_str_bytes s Hb)). cbn [kind_of].
    rewrite (mp_str_roundtrip s Hl). reflexivity.
  - destruct H as [Hn [Hl Hb]]. rewrite (b64_roundtrip _ (mp_encode_time_bytes n i Hb)). cbn [kind_of].
    destruct (length (b64_encode (mp_encode_time n i))) as [|[|f]] eqn:L.
    + exfalso. revert L. unfold mp_encode_time, name_nano. cbn [app b64_encode length]. discriminate.
    + exfalso. revert L. unfold mp_encode_time, name_nano. cbn [app b64_encode length]. discriminate.
    + rewrite (mp_time_roundtrip f n i Hn Hl). reflexivity.
Qed.

(** SerializeCursor succeeds on an encodable cursor, and what it returns is accepted back *)
Theorem cursor_roundtrip_f c : cursor_ok c ->
  exists s, cursor_encode_f c = Some s /\ cursor_decode (kind_of c) s = Some c.
Proof.
  intro H. exists (cursor_encode c). split; [|apply cursor_roundtrip; exact H].
  unfold cursor_encode_f. destruct H as [_ Hlen]. rewrite Hlen. reflexivity.
Qed.

(** sufficient conditions for [cursor_ok]: every 64-bit int; strings / ids up to 32000 bytes *)
Lemma cursor_ok_int z : (- 2 ^ 63 <= z < 2 ^ 63)%Z -> cursor_ok (CInt z).
Proof.
  intro H. split; [exact H|]. unfold too_long, max_cursor_length, cursor_encode.
  pose proof (b64_encode_length (mp_encode_int z)) as L.
  assert (length (mp_encode_int z) = 9%nat) as L9 by (unfold mp_encode_int; cbn [length]; rewrite be_encode_length; reflexivity).
  lia.
Qed.

Lemma mp_encode_str_length s : (length (mp_encode_str s) <= 5 + length s)%nat.
Proof.
  unfold mp_encode_str. rewrite app_length.
  destruct (_ <? 32)%Z; [cbn [length]; lia|]. destruct (_ <? 256)%Z; [|destruct (_ <? 65536)%Z];
    cbn [length]; rewrite be_encode_length; lia.
Qed.

Lemma cursor_ok_str s : (N.of_nat (length s) <= 32000)%N -> is_bytes s -> cursor_ok (CStr s).
Proof.
  intros Hl Hb. split; [split; [lia | exact Hb]|]. unfold too_long, max_cursor_length, cursor_encode.
  pose proof (b64_encode_length (mp_encode_str s)). pose proof (mp_encode_str_length s). lia.
Qed.

Lemma cursor_ok_time n i : (- 2 ^ 63 <= n < 2 ^ 63)%Z -> (N.of_nat (length i) <= 32000)%N -> is_bytes i -> cursor_ok (CTime n i).
Proof.
  intros Hn Hl Hb. split; [split; [exact Hn | split; [lia | exact Hb]]|].
  unfold too_long, max_cursor_length, cursor_encode.
  pose proof (b64_encode_length (mp_encode_time n i)) as L.
  assert (length (mp_encode_time n i) <= 23 + length i)%nat.
  { unfold mp_encode_time, name_nano, name_id, mp_encode_int. repeat rewrite app_length. cbn [length].
    rewrite be_encode_length. pose proof (mp_encode_str_length i). lia. }
  lia.
Qed.

(** a serialised cursor is never the empty string (which would mean "no cursor") *)
Theorem cursor_encode_nonempty c : cursor_encode c <> [].
Proof.
  unfold cursor_encode. apply b64_encode_nonempty. destruct c as [z|s|n i].
  - unfold mp_encode_int. discriminate.
  - unfold mp_encode_str. destruct (_ <? 32)%Z; [discriminate|].
    destruct (_ <? 256)%Z; [discriminate|]. destruct (_ <? 65536)%Z; discriminate.
  - unfold mp_encode_time. discriminate.
Qed.

(** ** the cursor order of the harness is a strict total order *)
Lemma bytes_ltb_irrefl a : bytes_ltb a a = false.
Proof. induction a as [|x r IH]; simpl; [reflexivity|]. rewrite N.ltb_irrefl. exact IH. Qed.

Lemma bytes_ltb_trans a : forall b c, bytes_ltb a b = true -> bytes_ltb b c = true -> bytes_ltb a c = true.
Proof.
  induction a as [|x r IH]; intros [|y s] [|z t]; simpl; try congruence.
  intros H1 H2.
  destruct (x <? y)%N eqn:Hxy; [|destruct (y <? x)%N eqn:Hyx; [discriminate|]].
  - destruct (y <? z)%N eqn:Hyz; [|destruct (z <? y)%N eqn:Hzy; [discriminate|]].
    + replace (x <? z)%N with true by lia. reflexivity.
    + assert (y = z) by lia. subst z. rewrite Hxy. reflexivity.
  - assert (x = y) by lia. subst y.
    destruct (x <? z)%N eqn:Hxz; [reflexivity|]. destruct (z <? x)%N eqn:Hzx; [discriminate|].
    eapply IH; eassumption.
Qed.

Lemma bytes_ltb_total a : forall b, bytes_ltb a b = true \/ a = b \/ bytes_ltb b a = true.
Proof.
  induction a as [|x r IH]; intros [|y s]; simpl; auto.
  destruct (x <? y)%N eqn:Hxy; [auto|]. destruct (y <? x)%N eqn:Hyx; [auto|].
  assert (x = y) by lia. subst y. destruct (IH s) as [H|[H|H]]; auto. subst s. auto.
Qed.

Theorem cursor_ltb_irrefl a : cursor_ltb a a = false.
Proof.
  destruct a; simpl; [apply Z.ltb_irrefl | apply bytes_ltb_irrefl|].
  rewrite Z.ltb_irrefl, Z.eqb_refl, bytes_ltb_irrefl. reflexivity.
Qed.

Theorem cursor_ltb_trans a b c : cursor_ltb a b = true -> cursor_ltb b c = true -> cursor_ltb a c = true.
Proof.
  destruct a as [x|x|x i], b as [y|y|y j], c as [z|z|z k]; simpl; try congruence; try (intros; lia).
  - apply bytes_ltb_trans.
  - intros H1 H2.
    destruct (x <? y)%Z eqn:Hxy; destruct (y <? z)%Z eqn:Hyz; simpl in *.
    + replace (x <? z)%Z with true by lia. reflexivity.
    + destruct (y =? z)%Z eqn:E; [|discriminate]. replace (x <? z)%Z with true by lia. reflexivity.
    + destruct (x =? y)%Z eqn:E; [|discriminate]. replace (x <? z)%Z with true by lia. reflexivity.
    + destruct (x =? y)%Z eqn:E1; [|discriminate]. destruct (y =? z)%Z eqn:E2; [|discriminate].
      replace (x <? z)%Z with false by lia. replace (x =? z)%Z with true by lia. simpl in *.
      eapply bytes_ltb_trans; eassumption.
Qed.

Theorem cursor_ltb_total a b : cursor_ltb a b = true \/ a = b \/ cursor_ltb b a = true.
Proof.
  destruct a as [x|x|x i], b as [y|y|y j]; simpl; auto.
  - destruct (Z.lt_trichotomy x y) as [H|[H|H]]; [left; lia | right; left; congruence | right; right; lia].
  - destruct (bytes_ltb_total x y) as [H|[H|H]]; auto. subst. auto.
  - destruct (Z.lt_trichotomy x y) as [H|[H|H]].
    + left. replace (x <? y)%Z with true by lia. reflexivity.
    + subst y. rewrite Z.ltb_irrefl, Z.eqb_refl. simpl.
      destruct (bytes_ltb_total i j) as [H|[H|H]]; auto. subst. auto.
    + right. right. replace (y <? x)%Z with true by lia. reflexivity.
Qed.
