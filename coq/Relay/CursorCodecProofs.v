(** * Relay/CursorCodecProofs.v — the cursor codec round-trips; the harness's cursor order is a
    strict total order. *)
From Coq Require Import List NArith ZArith Bool Lia ZifyBool ZifyN ZifyNat.
From ApiFu Require Import Base.Sexp Relay.CursorCodec.
Import ListNotations.

Ltac Zify.zify_post_hook ::= Z.div_mod_to_equations.

(** ** base64url *)
Lemma forallb_N_below (p : N -> bool) (n : nat) :
  forallb p (map N.of_nat (seq 0 n)) = true -> forall s, (s < N.of_nat n)%N -> p s = true.
Proof.
  intros H s Hs. rewrite forallb_forall in H. apply H. apply in_map_iff. exists (N.to_nat s).
  split; [lia|]. apply in_seq. lia.
Qed.

Lemma b64_val_char s : (s < 64)%N -> b64_val (b64_char s) = Some s.
Proof.
  intro Hs.
  pose proof (forallb_N_below (fun s => match b64_val (b64_char s) with Some x => N.eqb x s | None => false end) 64) as H.
  specialize (H ltac:(vm_compute; reflexivity) s Hs). cbv beta in H. destruct (b64_val (b64_char s)); [|discriminate]. apply N.eqb_eq in H. congruence.
Qed.

Lemma b64_char_not_newline s : (s < 64)%N -> is_newline (b64_char s) = false.
Proof.
  intro Hs.
  pose proof (forallb_N_below (fun s => negb (is_newline (b64_char s))) 64) as H.
  specialize (H ltac:(vm_compute; reflexivity) s Hs). cbv beta in H. apply negb_true_iff in H. exact H.
Qed.

Fixpoint sextets_of (l : bytes) : list N :=
  match l with
  | [] => []
  | [a] => [a / 4; (a mod 4) * 16]
  | [a; b] => [a / 4; (a mod 4) * 16 + b / 16; (b mod 16) * 4]
  | a :: b :: c :: rest =>
      a / 4 :: (a mod 4) * 16 + b / 16 :: (b mod 16) * 4 + c / 64 :: c mod 64 :: sextets_of rest
  end%N.

Lemma list_ind3 (A : Type) (P : list A -> Prop) :
  P [] -> (forall a, P [a]) -> (forall a b, P [a; b]) ->
  (forall a b c r, P r -> P (a :: b :: c :: r)) -> forall l, P l.
Proof.
  intros H0 H1 H2 H3. fix IH 1.
  intros [|a [|b [|c r]]]; [exact H0 | exact (H1 a) | exact (H2 a b) | exact (H3 a b c r (IH r))].
Qed.

Definition is_bytes (l : bytes) : Prop := Forall (fun x => (x < 256)%N) l.

Lemma b64_encode_sextets l : b64_encode l = map b64_char (sextets_of l).
Proof.
  induction l as [| a | a b | a b c r IH] using list_ind3; try reflexivity.
  cbn [b64_encode sextets_of map]. rewrite IH. reflexivity.
Qed.

Lemma sextets_lt l : is_bytes l -> Forall (fun s => (s < 64)%N) (sextets_of l).
Proof.
  unfold is_bytes. induction l as [| a | a b | a b c r IH] using list_ind3; intro H; cbn [sextets_of].
  - constructor.
  - inversion H; subst. repeat constructor; lia.
  - inversion H as [|? ? Ha H']; subst. inversion H'; subst. repeat constructor; lia.
  - inversion H as [|? ? Ha H']; subst. inversion H' as [|? ? Hb H'']; subst. inversion H'' as [|? ? Hc H''']; subst.
    repeat (constructor; [lia|]). apply IH. exact H'''.
Qed.

Lemma sextets_back l : is_bytes l -> sextets_to_bytes (sextets_of l) = Some l.
Proof.
  unfold is_bytes. induction l as [| a | a b | a b c r IH] using list_ind3; intro H.
  - reflexivity.
  - inversion H; subst. cbn [sextets_of sextets_to_bytes]. f_equal. f_equal. lia.
  - inversion H as [|? ? Ha H']; subst. inversion H'; subst. cbn [sextets_of sextets_to_bytes].
    f_equal. f_equal; [lia|]. f_equal. lia.
  - inversion H as [|? ? Ha H']; subst. inversion H' as [|? ? Hb H'']; subst. inversion H'' as [|? ? Hc H''']; subst.
    cbn [sextets_of sextets_to_bytes]. rewrite (IH H''').
    f_equal. f_equal; [lia|]. f_equal; [lia|]. f_equal. lia.
Qed.

Lemma map_opt_b64 l : Forall (fun s => (s < 64)%N) l -> map_opt b64_val (map b64_char l) = Some l.
Proof.
  induction 1 as [|s r Hs Hr IH]; simpl; [reflexivity|]. rewrite (b64_val_char s Hs), IH. reflexivity.
Qed.

Lemma filter_no_newline l : Forall (fun s => (s < 64)%N) l ->
  filter (fun c => negb (is_newline c)) (map b64_char l) = map b64_char l.
Proof.
  induction 1 as [|s r Hs Hr IH]; simpl; [reflexivity|]. rewrite (b64_char_not_newline s Hs). simpl. rewrite IH. reflexivity.
Qed.

Theorem b64_roundtrip l : is_bytes l -> b64_decode (b64_encode l) = Some l.
Proof.
  intro H. unfold b64_decode. rewrite b64_encode_sextets.
  rewrite (filter_no_newline _ (sextets_lt l H)), (map_opt_b64 _ (sextets_lt l H)). apply sextets_back. exact H.
Qed.

Lemma b64_encode_nonempty l : l <> [] -> b64_encode l <> [].
Proof. destruct l as [|a [|b [|c r]]]; simpl; congruence. Qed.

(** ** big-endian numbers *)
Lemma be_decode_app a b : be_decode (a ++ b) = fold_left (fun acc x => (acc * 256 + Z.of_N x)%Z) b (be_decode a).
Proof. unfold be_decode. apply fold_left_app. Qed.

Lemma be_encode_length k n : length (be_encode k n) = k.
Proof. revert n. induction k as [|k IH]; intro n; simpl; [reflexivity|]. rewrite app_length, IH. simpl. lia. Qed.

Lemma be_encode_bytes k n : is_bytes (be_encode k n).
Proof.
  revert n. induction k as [|k IH]; intro n; simpl; [constructor|].
  apply Forall_app. split; [apply IH|]. constructor; [lia | constructor].
Qed.

Lemma be_roundtrip k n : (0 <= n)%Z -> be_decode (be_encode k n) = (n mod 256 ^ Z.of_nat k)%Z.
Proof.
  revert n. induction k as [|k IH]; intros n Hn.
  - simpl. rewrite Z.mod_1_r. reflexivity.
  - cbn [be_encode]. rewrite be_decode_app. cbn [fold_left].
    rewrite IH by (apply Z.div_pos; lia).
    replace (Z.of_nat (S k)) with (1 + Z.of_nat k)%Z by lia.
    rewrite Z.pow_add_r by lia. change (256 ^ 1)%Z with 256%Z.
    rewrite (Z.rem_mul_r n 256 (256 ^ Z.of_nat k)) by lia.
    rewrite Z2N.id by (apply Z.mod_pos_bound; lia). lia.
Qed.

Lemma take_all (l : bytes) : take (N.of_nat (length l)) l = Some l.
Proof.
  unfold take. rewrite N.ltb_irrefl. rewrite Nat2N.id. rewrite firstn_all. reflexivity.
Qed.

Lemma take_app (a b : bytes) : take (N.of_nat (length a)) (a ++ b) = Some a.
Proof.
  unfold take. rewrite app_length.
  replace (N.of_nat (length a + length b) <? N.of_nat (length a))%N with false by lia.
  rewrite Nat2N.id. rewrite firstn_app, firstn_all, Nat.sub_diag. simpl. rewrite app_nil_r. reflexivity.
Qed.

(** ** msgpack *)
Theorem mp_int_roundtrip z : (- 2 ^ 63 <= z < 2 ^ 63)%Z -> mp_decode_int (mp_encode_int z) = Some z.
Proof.
  intro Hz. unfold mp_encode_int.
  change (mp_decode_int (211%N :: be_encode 8 (z mod 2 ^ 64)%Z)) with (mp_sint 8 (be_encode 8 (z mod 2 ^ 64)%Z)).
  unfold mp_sint.
  pose proof (take_all (be_encode 8 (z mod 2 ^ 64)%Z)) as Ht. rewrite be_encode_length in Ht.
  change (N.of_nat 8) with 8%N in Ht. rewrite Ht.
  rewrite be_roundtrip by (apply Z.mod_pos_bound; lia).
  change (256 ^ Z.of_nat 8)%Z with (2 ^ 64)%Z. rewrite Z.mod_mod by lia.
  unfold wrap_signed. change (8 * Z.of_N 8 - 1)%Z with 63%Z. change (8 * Z.of_N 8)%Z with 64%Z.
  f_equal. destruct (z mod 2 ^ 64 <? 2 ^ 63)%Z eqn:H; lia.
Qed.

Lemma mp_encode_int_bytes z : is_bytes (mp_encode_int z).
Proof. unfold mp_encode_int. constructor; [lia | apply be_encode_bytes]. Qed.

Lemma be1 l : (0 <= l < 256)%Z -> be_encode 1 l = [Z.to_N l].
Proof. intro H. cbn [be_encode app]. f_equal. f_equal. lia. Qed.

Theorem mp_str_roundtrip s : (Z.of_nat (length s) < 2 ^ 32)%Z -> mp_decode_str (mp_encode_str s) = Some s.
Proof.
  intro Hl. unfold mp_encode_str. set (l := Z.of_nat (length s)) in *.
  assert (Hl0 : (0 <= l)%Z) by lia.
  assert (Htake : take (Z.to_N l) s = Some s).
  { unfold l. rewrite <- nat_N_Z, N2Z.id. apply take_all. }
  destruct (l <? 32)%Z eqn:H32.
  - (* fixstr *)
    cbn [app]. unfold mp_decode_str.
    replace (Z.to_N (160 + l) =? 192)%N with false by lia.
    replace ((160 <=? Z.to_N (160 + l)) && (Z.to_N (160 + l) <=? 191))%N with true by lia.
    replace (Z.to_N (160 + l) - 160)%N with (Z.to_N l) by lia. exact Htake.
  - destruct (l <? 256)%Z eqn:H256; [|destruct (l <? 65536)%Z eqn:H64k].
    + (* str8 *)
      change (mp_decode_str ((217%N :: be_encode 1 l) ++ s)) with (mp_str_len 1 (be_encode 1 l ++ s)).
      unfold mp_str_len.
      pose proof (take_app (be_encode 1 l) s) as Ht. rewrite be_encode_length in Ht. change (N.of_nat 1) with 1%N in Ht.
      rewrite Ht. rewrite be_roundtrip by lia. change (256 ^ Z.of_nat 1)%Z with 256%Z.
      rewrite Z.mod_small by lia.
      change (N.to_nat 1) with (length (be_encode 1 l)) at 1.
      rewrite skipn_app, skipn_all, Nat.sub_diag. simpl. exact Htake.
    + (* str16 *)
      change (mp_decode_str ((218%N :: be_encode 2 l) ++ s)) with (mp_str_len 2 (be_encode 2 l ++ s)).
      unfold mp_str_len.
      pose proof (take_app (be_encode 2 l) s) as Ht. rewrite be_encode_length in Ht. change (N.of_nat 2) with 2%N in Ht.
      rewrite Ht. rewrite be_roundtrip by lia. change (256 ^ Z.of_nat 2)%Z with 65536%Z.
      rewrite Z.mod_small by lia.
      replace (N.to_nat 2) with (length (be_encode 2 l)) by (rewrite be_encode_length; reflexivity).
      rewrite skipn_app, skipn_all, Nat.sub_diag. simpl. exact Htake.
    + (* str32 *)
      change (mp_decode_str ((219%N :: be_encode 4 l) ++ s)) with (mp_str_len 4 (be_encode 4 l ++ s)).
      unfold mp_str_len.
      pose proof (take_app (be_encode 4 l) s) as Ht. rewrite be_encode_length in Ht. change (N.of_nat 4) with 4%N in Ht.
      rewrite Ht. rewrite be_roundtrip by lia. change (256 ^ Z.of_nat 4)%Z with (2 ^ 32)%Z.
      rewrite Z.mod_small by lia.
      replace (N.to_nat 4) with (length (be_encode 4 l)) by (rewrite be_encode_length; reflexivity).
      rewrite skipn_app, skipn_all, Nat.sub_diag. simpl. exact Htake.
Qed.

Lemma mp_encode_str_bytes s : is_bytes s -> is_bytes (mp_encode_str s).
Proof.
  intro H. unfold mp_encode_str. apply Forall_app. split; [|exact H].
  destruct (_ <? 32)%Z eqn:H32; [constructor; [lia | constructor]|].
  destruct (_ <? 256)%Z; [|destruct (_ <? 65536)%Z]; (constructor; [lia | apply be_encode_bytes]).
Qed.

(** ** cursors *)
(** Deserialize(Serialize(c)) == c: every cursor the server emits is accepted back and denotes the
    same position *)
Theorem cursor_roundtrip c : cursor_ok c -> cursor_decode (kind_of c) (cursor_encode c) = Some c.
Proof.
  destruct c as [z|s]; simpl; intro H; unfold cursor_decode, cursor_encode.
  - rewrite (b64_roundtrip _ (mp_encode_int_bytes z)). cbn [kind_of]. rewrite (mp_int_roundtrip z H). reflexivity.
  - destruct H as [Hl Hb]. rewrite (b64_roundtrip _ (mp_encode_str_bytes s Hb)). cbn [kind_of].
    rewrite (mp_str_roundtrip s Hl). reflexivity.
Qed.

(** a serialised cursor is never the empty string (which would mean "no cursor") *)
Theorem cursor_encode_nonempty c : cursor_encode c <> [].
Proof.
  unfold cursor_encode. apply b64_encode_nonempty. destruct c as [z|s].
  - unfold mp_encode_int. discriminate.
  - unfold mp_encode_str. destruct (_ <? 32)%Z; [discriminate|].
    destruct (_ <? 256)%Z; [discriminate|]. destruct (_ <? 65536)%Z; discriminate.
Qed.

(** ** the cursor order of the harness is a strict total order *)
Lemma bytes_ltb_irrefl a : bytes_ltb a a = false.
Proof. induction a as [|x r IH]; simpl; [reflexivity|]. rewrite N.ltb_irrefl. exact IH. Qed.

Lemma bytes_ltb_trans a : forall b c, bytes_ltb a b = true -> bytes_ltb b c = true -> bytes_ltb a c = true.
Proof.
  induction a as [|x r IH]; intros [|y s] [|z t]; simpl; try congruence.
  intros H1 H2.
  destruct (x <? y)%N eqn:Hxy; [|destruct (y <? x)%N eqn:Hyx; [discriminate|]].
  - destruct (y <? z)%N eqn:Hyz; [|destruct (z <? y)%N eqn:Hzy; [discriminate|]].
    + replace (x <? z)%N with true by lia. reflexivity.
    + assert (y = z) by lia. subst z. rewrite Hxy. reflexivity.
  - assert (x = y) by lia. subst y.
    destruct (x <? z)%N eqn:Hxz; [reflexivity|]. destruct (z <? x)%N eqn:Hzx; [discriminate|].
    eapply IH; eassumption.
Qed.

Lemma bytes_ltb_total a : forall b, bytes_ltb a b = true \/ a = b \/ bytes_ltb b a = true.
Proof.
  induction a as [|x r IH]; intros [|y s]; simpl; auto.
  destruct (x <? y)%N eqn:Hxy; [auto|]. destruct (y <? x)%N eqn:Hyx; [auto|].
  assert (x = y) by lia. subst y. destruct (IH s) as [H|[H|H]]; auto. subst s. auto.
Qed.

Theorem cursor_ltb_irrefl a : cursor_ltb a a = false.
Proof. destruct a; simpl; [apply Z.ltb_irrefl | apply bytes_ltb_irrefl]. Qed.

Theorem cursor_ltb_trans a b c : cursor_ltb a b = true -> cursor_ltb b c = true -> cursor_ltb a c = true.
Proof.
  destruct a, b, c; simpl; try congruence; try (intros; lia). apply bytes_ltb_trans.
Qed.

Theorem cursor_ltb_total a b : cursor_ltb a b = true \/ a = b \/ cursor_ltb b a = true.
Proof.
  destruct a as [x|x], b as [y|y]; simpl; auto.
  - destruct (Z.lt_trichotomy x y) as [H|[H|H]]; [left; lia | right; left; congruence | right; right; lia].
  - destruct (bytes_ltb_total x y) as [H|[H|H]]; auto. subst. auto.
Qed.
