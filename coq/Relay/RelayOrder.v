(** * Relay/RelayOrder.v — list lemmas used by the C09 proofs: strictly ordered lists, their
    uniqueness among permutations, prefixes of ordered sub-collections, filters. *)
From Coq Require Import List Arith Bool Lia Sorting.Sorted Sorting.Permutation.
Import ListNotations.

Section Generic.
  Variable A : Type.

  Lemma filter_ext_in_local (p q : A -> bool) (l : list A) :
    (forall x, In x l -> p x = q x) -> filter p l = filter q l.
  Proof.
    induction l as [|x l IH]; intro H; simpl; [reflexivity|].
    rewrite (H x (or_introl eq_refl)). rewrite IH; [reflexivity|].
    intros y Hy. apply H. right. exact Hy.
  Qed.

  Lemma filter_all_true (p : A -> bool) (l : list A) :
    (forall x, In x l -> p x = true) -> filter p l = l.
  Proof.
    induction l as [|x l IH]; intro H; simpl; [reflexivity|].
    rewrite (H x (or_introl eq_refl)). f_equal. apply IH. intros y Hy. apply H. right. exact Hy.
  Qed.

  Lemma filter_all_false (p : A -> bool) (l : list A) :
    (forall x, In x l -> p x = false) -> filter p l = [].
  Proof.
    induction l as [|x l IH]; intro H; simpl; [reflexivity|].
    rewrite (H x (or_introl eq_refl)). apply IH. intros y Hy. apply H. right. exact Hy.
  Qed.

  Lemma filter_filter_implied (p q : A -> bool) (l : list A) :
    (forall x, In x l -> p x = true -> q x = true) -> filter p (filter q l) = filter p l.
  Proof.
    induction l as [|x l IH]; intro H; simpl; [reflexivity|].
    assert (IH' : filter p (filter q l) = filter p l).
    { apply IH. intros y Hy. apply H. right. exact Hy. }
    destruct (q x) eqn:Hq; simpl.
    - rewrite IH'. reflexivity.
    - destruct (p x) eqn:Hp.
      + rewrite (H x (or_introl eq_refl) Hp) in Hq. discriminate.
      + exact IH'.
  Qed.

  Lemma Permutation_filter_local (p : A -> bool) (l l' : list A) :
    Permutation l l' -> Permutation (filter p l) (filter p l').
  Proof.
    intro H. induction H as [| x l l' H IH | x y l | l l' l'' H1 IH1 H2 IH2]; simpl.
    - constructor.
    - destruct (p x); [constructor|]; exact IH.
    - destruct (p x), (p y); try apply Permutation_refl. apply perm_swap.
    - eapply Permutation_trans; eassumption.
  Qed.

  Lemma existsb_Permutation (p : A -> bool) (l l' : list A) :
    Permutation l l' -> existsb p l = existsb p l'.
  Proof.
    intro H. destruct (existsb p l) eqn:H1; symmetry.
    - apply existsb_exists in H1 as [x [Hx Hp]]. apply existsb_exists. exists x. split; [|exact Hp].
      eapply Permutation_in; eassumption.
    - destruct (existsb p l') eqn:H2; [|reflexivity].
      apply existsb_exists in H2 as [x [Hx Hp]].
      assert (Hc : existsb p l = true).
      { apply existsb_exists. exists x. split; [|exact Hp]. eapply Permutation_in; [apply Permutation_sym|]; eassumption. }
      congruence.
  Qed.

  Lemma existsb_incl (p : A -> bool) (l l' : list A) :
    incl l l' -> existsb p l = true -> existsb p l' = true.
  Proof.
    intros Hi H. apply existsb_exists in H as [x [Hx Hp]]. apply existsb_exists. exists x. split; [apply Hi|]; assumption.
  Qed.

  Lemma existsb_impl (p q : A -> bool) (l : list A) :
    (forall x, In x l -> p x = true -> q x = true) -> existsb p l = true -> existsb q l = true.
  Proof.
    intros Hi H. apply existsb_exists in H as [x [Hx Hp]]. apply existsb_exists. exists x. split; [|apply Hi]; assumption.
  Qed.

  Lemma skipn_incl (n : nat) (l : list A) : incl (skipn n l) l.
  Proof.
    intros x Hx. rewrite <- (firstn_skipn n l). apply in_or_app. right. exact Hx.
  Qed.

  Lemma firstn_incl (n : nat) (l : list A) : incl (firstn n l) l.
  Proof.
    intros x Hx. rewrite <- (firstn_skipn n l). apply in_or_app. left. exact Hx.
  Qed.

  Lemma lastn_skipn (n : nat) (l : list A) :
    rev (firstn n (rev l)) = skipn (length l - n) l.
  Proof. rewrite firstn_rev. apply rev_involutive. Qed.

  (** ** strictly ordered lists *)
  Variable R : A -> A -> Prop.
  Hypothesis R_asym : forall x y, R x y -> R y x -> False.

  Lemma R_irrefl x : ~ R x x.
  Proof. intro H. exact (R_asym x x H H). Qed.

  Lemma SSorted_app_inv (l1 l2 : list A) :
    StronglySorted R (l1 ++ l2) ->
    StronglySorted R l1 /\ StronglySorted R l2 /\ (forall x y, In x l1 -> In y l2 -> R x y).
  Proof.
    induction l1 as [|a l1 IH]; simpl; intro H.
    - split; [constructor|]. split; [exact H|]. intros x y [].
    - apply StronglySorted_inv in H as [Hs Hf]. destruct (IH Hs) as [H1 [H2 H3]].
      rewrite Forall_forall in Hf. split; [|split].
      + constructor; [exact H1|]. apply Forall_forall. intros x Hx. apply Hf. apply in_or_app. left. exact Hx.
      + exact H2.
      + intros x y [Hx|Hx] Hy; [subst x; apply Hf; apply in_or_app; right; exact Hy | apply H3; assumption].
  Qed.

  Lemma SSorted_firstn (n : nat) (l : list A) : StronglySorted R l -> StronglySorted R (firstn n l).
  Proof. intro H. rewrite <- (firstn_skipn n l) in H. apply SSorted_app_inv in H. tauto. Qed.

  Lemma SSorted_skipn (n : nat) (l : list A) : StronglySorted R l -> StronglySorted R (skipn n l).
  Proof. intro H. rewrite <- (firstn_skipn n l) in H. apply SSorted_app_inv in H. tauto. Qed.

  Lemma SSorted_filter (p : A -> bool) (l : list A) : StronglySorted R l -> StronglySorted R (filter p l).
  Proof.
    induction 1 as [|a l Hs IH Hf]; simpl; [constructor|].
    destruct (p a); [|exact IH]. constructor; [exact IH|].
    rewrite Forall_forall in *. intros x Hx. apply Hf. apply filter_In in Hx. tauto.
  Qed.

  Lemma SSorted_NoDup (l : list A) : StronglySorted R l -> NoDup l.
  Proof.
    induction 1 as [|a l Hs IH Hf]; constructor; [|exact IH].
    intro Hin. rewrite Forall_forall in Hf. exact (R_irrefl a (Hf a Hin)).
  Qed.

  (** a strictly ordered list is determined by its elements *)
  Lemma SSorted_perm_unique (l1 : list A) : forall l2,
    StronglySorted R l1 -> StronglySorted R l2 -> Permutation l1 l2 -> l1 = l2.
  Proof.
    induction l1 as [|x r1 IH]; intros l2 H1 H2 HP.
    - apply Permutation_nil in HP. congruence.
    - destruct l2 as [|y r2]; [apply Permutation_sym, Permutation_nil in HP; discriminate|].
      apply StronglySorted_inv in H1 as [Hs1 Hf1]. apply StronglySorted_inv in H2 as [Hs2 Hf2].
      rewrite Forall_forall in Hf1, Hf2.
      assert (Hxy : x = y).
      { assert (Hx : In x (y :: r2)) by (eapply Permutation_in; [exact HP | left; reflexivity]).
        assert (Hy : In y (x :: r1)) by (eapply Permutation_in; [apply Permutation_sym; exact HP | left; reflexivity]).
        destruct Hx as [Hx|Hx]; [congruence|]. destruct Hy as [Hy|Hy]; [congruence|].
        exfalso. exact (R_asym x y (Hf1 y Hy) (Hf2 x Hx)). }
      subst y. f_equal. apply IH; try assumption. eapply Permutation_cons_inv. exact HP.
  Qed.

  (** if an ordered list [b] only has elements of the ordered list [a] and contains the first [k]
      elements of [a], these are also its own first [k] elements *)
  Lemma SSorted_prefix_shared (k : nat) : forall a b,
    StronglySorted R a -> StronglySorted R b -> incl b a -> incl (firstn k a) b ->
    firstn k b = firstn k a.
  Proof.
    induction k as [|k IH]; intros a b Ha Hb Hba Hab; [reflexivity|].
    destruct a as [|x a']; simpl.
    - destruct b as [|y b']; [reflexivity|]. exfalso. exact (Hba y (or_introl eq_refl)).
    - simpl in Hab. destruct b as [|y b']; [exfalso; exact (Hab x (or_introl eq_refl))|].
      apply StronglySorted_inv in Ha as [Hsa Hfa]. apply StronglySorted_inv in Hb as [Hsb Hfb].
      rewrite Forall_forall in Hfa, Hfb.
      assert (Hxy : x = y).
      { destruct (Hab x (or_introl eq_refl)) as [Hx|Hx]; [congruence|].
        destruct (Hba y (or_introl eq_refl)) as [Hy|Hy]; [congruence|].
        exfalso. exact (R_asym x y (Hfa y Hy) (Hfb x Hx)). }
      subst y. simpl. f_equal. apply IH; try assumption.
      + intros z Hz. destruct (Hba z (or_intror Hz)) as [Hzx|Hzx]; [|exact Hzx].
        subst z. exfalso. exact (R_irrefl x (Hfb x Hz)).
      + intros z Hz. destruct (Hab z (or_intror Hz)) as [Hzx|Hzx]; [|exact Hzx].
        subst z. exfalso. apply (R_irrefl x). apply Hfa. eapply firstn_incl. exact Hz.
  Qed.
End Generic.

Lemma SSorted_rev (A : Type) (R : A -> A -> Prop) (l : list A) :
  StronglySorted R l -> StronglySorted (fun x y => R y x) (rev l).
Proof.
  induction 1 as [|a l Hs IH Hf]; simpl; [constructor|].
  assert (G : forall l1 : list A, StronglySorted (fun x y => R y x) l1 -> Forall (fun y => R a y) l1 ->
              StronglySorted (fun x y => R y x) (l1 ++ [a])).
  { induction l1 as [|b l1 IH1]; simpl; intros H1 H2.
    - constructor; constructor.
    - apply StronglySorted_inv in H1 as [H1a H1b]. inversion H2; subst.
      constructor; [apply IH1; assumption|].
      apply Forall_app. split; [exact H1b|]. constructor; [assumption|constructor]. }
  apply G; [exact IH|]. apply Forall_rev. exact Hf.
Qed.

(** the symmetric statement for suffixes *)
Lemma SSorted_suffix_shared_rev (A : Type) (R : A -> A -> Prop) (R_asym : forall x y, R x y -> R y x -> False)
      (k : nat) (a b : list A) :
  StronglySorted R a -> StronglySorted R b -> incl b a -> incl (rev (firstn k (rev a))) b ->
  firstn k (rev b) = firstn k (rev a).
Proof.
  intros Ha Hb Hba Hab.
  apply (SSorted_prefix_shared A (fun x y => R y x)).
  - intros x y H1 H2. exact (R_asym y x H1 H2).
  - apply SSorted_rev. exact Ha.
  - apply SSorted_rev. exact Hb.
  - intros x Hx. rewrite <- in_rev. apply Hba. rewrite in_rev. exact Hx.
  - intros x Hx. rewrite <- in_rev. apply Hab. rewrite <- in_rev. exact Hx.
Qed.

Lemma SSorted_suffix_shared (A : Type) (R : A -> A -> Prop) (R_asym : forall x y, R x y -> R y x -> False)
      (k : nat) (a b : list A) :
  StronglySorted R a -> StronglySorted R b -> incl b a -> incl (rev (firstn k (rev a))) b ->
  rev (firstn k (rev b)) = rev (firstn k (rev a)).
Proof. intros. f_equal. eapply SSorted_suffix_shared_rev; eassumption. Qed.
