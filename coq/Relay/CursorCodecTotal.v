(** * Relay/CursorCodecTotal.v — DeserializeCursor (the transcription) terminates within a stated
    fuel on EVERY byte string and never builds a value larger than its input.

    - [mp_skip_fuel], [mp_struct_map_fuel], [mp_decode_time_fuel], [cursor_decode_never_out_of_fuel]:
      with fuel >= the number of input bytes the outcome is a value or an error, never
      [SkOutOfFuel] / [DOutOfFuel] — although map32 / array32 headers may claim 2^32-1 elements and
      Skip recurses: every loop iteration and every Skip call consumes at least one input byte;
    - [cursor_decode_fuel_irrelevant]: more fuel than that does not change the answer;
    - [cursor_decode_bounded]: the string inside a decoded cursor is no longer than the cursor
      string (a str32 / bin32 header claiming 4 GiB is an error unless the bytes are there);
    - [b64_decode_length]: the msgpack document is no longer than the cursor string, hence at most
      MaxCursorLength = 65536 bytes, which also bounds the number of Skip calls and the nesting
      depth Go's recursive Skip can reach ([cursor_decode_input_bounded]). *)
From Coq Require Import List NArith ZArith Bool Lia ZifyBool ZifyN ZifyNat.
From ApiFu Require Import Base.Sexp Relay.CursorCodec.
Import ListNotations.

(** ** readers never return more than there is *)
Lemma take_len n l b : take n l = Some b -> length b = N.to_nat n /\ (N.to_nat n <= length l)%nat.
Proof.
  unfold take. destruct (N.of_nat (length l) <? n)%N eqn:H; [discriminate|].
  intro E. inversion E; subst. rewrite firstn_length. lia.
Qed.

Lemma mp_payload_len n rest p r : mp_payload n rest = Some (p, r) ->
  (length p + length r = length rest)%nat.
Proof.
  unfold mp_payload. destruct (N.of_nat (length rest) <? n)%N eqn:H; [discriminate|].
  intro E. inversion E; subst. rewrite firstn_length, skipn_length. lia.
Qed.

Lemma mp_len_field_len k rest n r : mp_len_field k rest = Some (n, r) -> (length r <= length rest)%nat.
Proof.
  unfold mp_len_field. destruct (take k rest) as [lb|] eqn:T; [|discriminate].
  intro E. inversion E; subst. rewrite skipn_length. lia.
Qed.

Lemma mp_len_payload_len k x rest p r : mp_len_payload k x rest = Some (p, r) ->
  (length p + length r <= length rest)%nat.
Proof.
  unfold mp_len_payload. destruct (mp_len_field k rest) as [[n r0]|] eqn:F; [|discriminate].
  intro P. apply mp_payload_len in P. apply mp_len_field_len in F. lia.
Qed.

Lemma mp_drop_len n rest k r : mp_drop n rest = Some (k, r) -> (length r <= length rest)%nat.
Proof.
  unfold mp_drop. destruct (mp_payload n rest) as [[p r0]|] eqn:P; [|discriminate].
  intro E. inversion E; subst. apply mp_payload_len in P. lia.
Qed.

Lemma mp_len_drop_len a x rest k r : mp_len_drop a x rest = Some (k, r) -> (length r <= length rest)%nat.
Proof.
  unfold mp_len_drop. destruct (mp_len_payload a x rest) as [[p r0]|] eqn:P; [|discriminate].
  intro E. inversion E; subst. apply mp_len_payload_len in P. lia.
Qed.

Lemma mp_children_len a m rest k r : mp_children a m rest = Some (k, r) -> (length r <= length rest)%nat.
Proof.
  unfold mp_children. destruct (mp_len_field a rest) as [[n r0]|] eqn:F; [|discriminate].
  intro E. inversion E; subst. apply mp_len_field_len in F. exact F.
Qed.

(** Skip consumes the header of one value and never reads past the input, for every first byte *)
Lemma mp_header_len c rest k r : mp_header c rest = Some (k, r) -> (length r <= length rest)%nat.
Proof.
  unfold mp_header.
  repeat match goal with |- context [if ?b then _ else _] => destruct b end;
    intro H;
    first [ discriminate H
          | inversion H; subst; apply Nat.le_refl
          | exact (mp_drop_len _ _ _ _ H)
          | exact (mp_len_drop_len _ _ _ _ _ H)
          | exact (mp_children_len _ _ _ _ _ H) ].
Qed.

Theorem mp_skip_fuel : forall fuel todo b, (length b <= fuel)%nat -> mp_skip fuel todo b <> SkOutOfFuel.
Proof.
  induction fuel as [|f IH]; intros todo b Hb; cbn [mp_skip].
  - destruct (todo =? 0)%N; [discriminate|]. destruct b as [|c rest]; [discriminate|]. simpl in Hb. lia.
  - destruct (todo =? 0)%N; [discriminate|]. destruct b as [|c rest]; [discriminate|].
    destruct (mp_header c rest) as [[k r]|] eqn:H; [|discriminate].
    apply IH. apply mp_header_len in H. simpl in Hb. lia.
Qed.

Lemma mp_skip_len : forall fuel todo b r, mp_skip fuel todo b = SkOk r -> (length r <= length b)%nat.
Proof.
  induction fuel as [|f IH]; intros todo b r; cbn [mp_skip].
  - destruct (todo =? 0)%N; [intro E; inversion E; subst; lia|].
    destruct b as [|c rest]; [discriminate|]. destruct (mp_header c rest) as [[k r0]|]; discriminate.
  - destruct (todo =? 0)%N; [intro E; inversion E; subst; lia|].
    destruct b as [|c rest]; [discriminate|].
    destruct (mp_header c rest) as [[k r0]|] eqn:H; [|discriminate].
    intro E. apply IH in E. apply mp_header_len in H. simpl. lia.
Qed.

(** more fuel than needed changes nothing *)
Lemma mp_skip_more : forall fuel todo b, (length b <= fuel)%nat ->
  forall fuel', (fuel <= fuel')%nat -> mp_skip fuel' todo b = mp_skip fuel todo b.
Proof.
  induction fuel as [|f IH]; intros todo b Hb fuel' Hf.
  - destruct b; [|simpl in Hb; lia]. destruct fuel'; cbn [mp_skip]; destruct (todo =? 0)%N; reflexivity.
  - destruct fuel' as [|f']; [lia|]. cbn [mp_skip].
    destruct (todo =? 0)%N; [reflexivity|]. destruct b as [|c rest]; [reflexivity|].
    destruct (mp_header c rest) as [[k r]|] eqn:H; [|reflexivity].
    apply IH; [|lia]. apply mp_header_len in H. simpl in Hb. lia.
Qed.

Lemma mp_skip_S f k c rest :
  mp_skip (S f) k (c :: rest) =
  if (k =? 0)%N then SkOk (c :: rest)
  else match mp_header c rest with None => SkErr | Some (ch, r) => mp_skip f (k - 1 + ch) r end.
Proof. reflexivity. Qed.

Lemma mp_skip_nil f k : mp_skip f k [] = if (k =? 0)%N then SkOk [] else SkErr.
Proof. destruct f; reflexivity. Qed.

Lemma mp_skip_0 f b : mp_skip f 0 b = SkOk b.
Proof. destruct f; reflexivity. Qed.

(** skipping m + n values = skipping m, then n *)
Lemma mp_skip_split : forall f m n b, (length b <= f)%nat ->
  mp_skip f (m + n) b = match mp_skip f m b with SkOk r1 => mp_skip f n r1 | e => e end.
Proof.
  induction f as [|f IH]; intros m n b Hb;
    (destruct (m =? 0)%N eqn:Hm;
     [apply N.eqb_eq in Hm; subst m; rewrite N.add_0_l, mp_skip_0; reflexivity|]).
  - destruct b; [|simpl in Hb; lia]. rewrite !mp_skip_nil, Hm.
    replace (m + n =? 0)%N with false by lia. reflexivity.
  - destruct b as [|c rest].
    + rewrite !mp_skip_nil, Hm. replace (m + n =? 0)%N with false by lia. reflexivity.
    + rewrite !mp_skip_S. rewrite Hm. replace (m + n =? 0)%N with false by lia.
      destruct (mp_header c rest) as [[ch r]|] eqn:H; [|reflexivity].
      pose proof (mp_header_len _ _ _ _ H) as Hl. simpl in Hb.
      replace (m + n - 1 + ch)%N with ((m - 1 + ch) + n)%N by lia.
      rewrite (IH (m - 1 + ch)%N n r ltac:(lia)).
      destruct (mp_skip f (m - 1 + ch) r) as [r1| |] eqn:K; try reflexivity.
      apply mp_skip_len in K. symmetry. apply mp_skip_more; lia.
Qed.

Definition dk_result (d : dskres) : skres :=
  match d with DkOk r _ => SkOk r | DkErr => SkErr | DkOutOfFuel => SkOutOfFuel end.

(** the recursive Skip and the counting Skip are the same function of the input *)
Theorem skip_depth_agrees : forall f k b, (length b <= f)%nat -> dk_result (skip_depth f k b) = mp_skip f k b.
Proof.
  induction f as [|f IH]; intros k b Hb.
  - destruct b; [|simpl in Hb; lia]. cbn [skip_depth mp_skip]. destruct (k =? 0)%N; reflexivity.
  - destruct b as [|c rest]; [cbn [skip_depth mp_skip]; destruct (k =? 0)%N; reflexivity|].
    rewrite mp_skip_S. cbn [skip_depth]. destruct (k =? 0)%N eqn:Hk; [reflexivity|].
    destruct (mp_header c rest) as [[ch r]|] eqn:H; [|reflexivity].
    pose proof (mp_header_len _ _ _ _ H) as Hl. simpl in Hb.
    replace (k - 1 + ch)%N with (ch + (k - 1))%N by lia.
    rewrite (mp_skip_split f ch (k - 1) r ltac:(lia)).
    rewrite <- (IH ch r ltac:(lia)).
    destruct (skip_depth f ch r) as [r1 d1| |] eqn:K1; cbn [dk_result]; try reflexivity.
    assert (length r1 <= length r)%nat.
    { pose proof (IH ch r ltac:(lia)) as E. rewrite K1 in E. cbn [dk_result] in E. symmetry in E.
      apply mp_skip_len in E. exact E. }
    rewrite <- (IH (k - 1)%N r1 ltac:(lia)).
    destruct (skip_depth f (k - 1) r1) as [r2 d2| |]; reflexivity.
Qed.

(** Go's Skip frames are never stacked deeper than the number of bytes consumed *)
Theorem skip_depth_bounded : forall f k b r d, skip_depth f k b = DkOk r d -> (length r + d <= length b)%nat.
Proof.
  induction f as [|f IH]; intros k b r d; cbn [skip_depth].
  - destruct (k =? 0)%N; [intro E; inversion E; subst; lia|].
    destruct b as [|c rest]; [discriminate|]. destruct (mp_header c rest) as [[ch r0]|]; discriminate.
  - destruct (k =? 0)%N; [intro E; inversion E; subst; lia|].
    destruct b as [|c rest]; [discriminate|].
    destruct (mp_header c rest) as [[ch r0]|] eqn:H; [|discriminate].
    pose proof (mp_header_len _ _ _ _ H) as Hl.
    destruct (skip_depth f ch r0) as [r1 d1| |] eqn:K1; try discriminate.
    destruct (skip_depth f (k - 1) r1) as [r2 d2| |] eqn:K2; try discriminate.
    apply IH in K1. apply IH in K2. intro E. injection E as <- <-. cbn [length].
    destruct d2; lia.
Qed.

Lemma mp_read_uint_len n rest z r : mp_read_uint n rest = Some (z, r) -> (length r <= length rest)%nat.
Proof.
  unfold mp_read_uint. destruct (take n rest); [|discriminate]. intro E. inversion E; subst.
  rewrite skipn_length. lia.
Qed.
Lemma mp_read_sint_len n rest z r : mp_read_sint n rest = Some (z, r) -> (length r <= length rest)%nat.
Proof.
  unfold mp_read_sint. destruct (take n rest); [|discriminate]. intro E. inversion E; subst.
  rewrite skipn_length. lia.
Qed.

Lemma mp_read_int_len b z r : mp_read_int b = Some (z, r) -> (length r < length b)%nat.
Proof.
  unfold mp_read_int. destruct b as [|c rest]; [discriminate|].
  repeat match goal with |- context [if ?b then _ else _] => destruct b end;
    intro H; simpl;
    first [ discriminate H
          | inversion H; subst; lia
          | apply mp_read_uint_len in H; lia
          | apply mp_read_sint_len in H; lia ].
Qed.

Lemma mp_read_str_len b s r : mp_read_str b = Some (s, r) -> (length s + length r < length b)%nat.
Proof.
  unfold mp_read_str. destruct b as [|c rest]; [discriminate|].
  repeat match goal with |- context [if ?b then _ else _] => destruct b end;
    intro H; simpl;
    first [ discriminate H
          | inversion H; subst; simpl; lia
          | apply mp_payload_len in H; lia
          | apply mp_len_payload_len in H; lia ].
Qed.

(** ** the struct decoder *)
Theorem mp_struct_map_fuel : forall fuel n b acc, (length b <= fuel)%nat ->
  mp_struct_map fuel n b acc <> DOutOfFuel.
Proof.
  induction fuel as [|f IH]; intros n b acc Hb; cbn [mp_struct_map].
  - destruct (n =? 0)%N; [discriminate|].
    destruct (mp_read_str b) as [[name r]|] eqn:R; [|discriminate].
    apply mp_read_str_len in R. lia.
  - destruct (n =? 0)%N; [discriminate|].
    destruct (mp_read_str b) as [[name r]|] eqn:R; [|discriminate].
    apply mp_read_str_len in R.
    destruct (bytes_eqb name name_nano).
    { destruct (mp_read_int r) as [[z r']|] eqn:I; [|discriminate].
      apply IH. apply mp_read_int_len in I. lia. }
    destruct (bytes_eqb name name_id).
    { destruct (mp_read_str r) as [[s r']|] eqn:I; [|discriminate].
      apply IH. apply mp_read_str_len in I. lia. }
    destruct (mp_skip f 1 r) as [r'| |] eqn:K; [|discriminate|].
    + apply IH. apply mp_skip_len in K. lia.
    + exfalso. revert K. apply mp_skip_fuel. lia.
Qed.

Lemma mp_struct_map_bound : forall fuel n b acc z i m,
  mp_struct_map fuel n b acc = DOk (z, i) ->
  (length (snd acc) <= m)%nat -> (length b <= m)%nat -> (length i <= m)%nat.
Proof.
  induction fuel as [|f IH]; intros n b acc z i m; cbn [mp_struct_map].
  - destruct (n =? 0)%N; [intro E; inversion E; subst; simpl; lia|].
    destruct (mp_read_str b) as [[name r]|]; discriminate.
  - destruct (n =? 0)%N; [intro E; inversion E; subst; simpl; lia|].
    destruct (mp_read_str b) as [[name r]|] eqn:R; [|discriminate].
    apply mp_read_str_len in R.
    destruct (bytes_eqb name name_nano).
    { destruct (mp_read_int r) as [[z' r']|] eqn:I; [|discriminate].
      apply mp_read_int_len in I. intros E Ha Hb. eapply IH; [exact E| simpl; lia | lia]. }
    destruct (bytes_eqb name name_id).
    { destruct (mp_read_str r) as [[s r']|] eqn:I; [|discriminate].
      apply mp_read_str_len in I. intros E Ha Hb. eapply IH; [exact E| simpl; lia | lia]. }
    destruct (mp_skip f 1 r) as [r'| |] eqn:K; [|discriminate|discriminate].
    apply mp_skip_len in K. intros E Ha Hb. eapply IH; [exact E| lia | lia].
Qed.

Lemma mp_struct_map_more : forall fuel n b acc, (length b <= fuel)%nat ->
  forall fuel', (fuel <= fuel')%nat -> mp_struct_map fuel' n b acc = mp_struct_map fuel n b acc.
Proof.
  induction fuel as [|f IH]; intros n b acc Hb fuel' Hf.
  - destruct b; [|simpl in Hb; lia]. destruct fuel'; cbn [mp_struct_map mp_read_str]; destruct (n =? 0)%N; reflexivity.
  - destruct fuel' as [|f']; [lia|]. cbn [mp_struct_map].
    destruct (n =? 0)%N; [reflexivity|].
    destruct (mp_read_str b) as [[name r]|] eqn:R; [|reflexivity].
    apply mp_read_str_len in R.
    destruct (bytes_eqb name name_nano).
    { destruct (mp_read_int r) as [[z r']|] eqn:I; [|reflexivity].
      apply mp_read_int_len in I. apply IH; lia. }
    destruct (bytes_eqb name name_id).
    { destruct (mp_read_str r) as [[s r']|] eqn:I; [|reflexivity].
      apply mp_read_str_len in I. apply IH; lia. }
    rewrite (mp_skip_more f 1 r ltac:(lia) f' ltac:(lia)).
    destruct (mp_skip f 1 r) as [r'| |] eqn:K; [|reflexivity|reflexivity].
    apply mp_skip_len in K. apply IH; lia.
Qed.

Theorem mp_struct_arr_fuel fuel n b : (length b <= fuel)%nat -> mp_struct_arr fuel n b <> DOutOfFuel.
Proof.
  intro Hb. unfold mp_struct_arr.
  destruct (n =? 0)%N; [discriminate|].
  destruct (mp_read_int b) as [[z r]|] eqn:I; [|discriminate].
  destruct (n =? 1)%N; [discriminate|].
  destruct (mp_read_str r) as [[s r']|] eqn:R; [|discriminate].
  apply mp_read_int_len in I. apply mp_read_str_len in R.
  destruct (mp_skip fuel (n - 2) r') eqn:K; try discriminate.
  exfalso. revert K. apply mp_skip_fuel. lia.
Qed.

Lemma mp_struct_arr_bound fuel n b z i : mp_struct_arr fuel n b = DOk (z, i) -> (length i <= length b)%nat.
Proof.
  unfold mp_struct_arr.
  destruct (n =? 0)%N; [intro E; inversion E; subst; simpl; lia|].
  destruct (mp_read_int b) as [[z' r]|] eqn:I; [|discriminate].
  destruct (n =? 1)%N; [intro E; inversion E; subst; simpl; lia|].
  destruct (mp_read_str r) as [[s r']|] eqn:R; [|discriminate].
  apply mp_read_int_len in I. apply mp_read_str_len in R.
  destruct (mp_skip fuel (n - 2) r'); try discriminate.
  intro E. inversion E; subst. lia.
Qed.

Lemma mp_struct_arr_more fuel n b : (length b <= fuel)%nat ->
  forall fuel', (fuel <= fuel')%nat -> mp_struct_arr fuel' n b = mp_struct_arr fuel n b.
Proof.
  intros Hb fuel' Hf. unfold mp_struct_arr.
  destruct (n =? 0)%N; [reflexivity|].
  destruct (mp_read_int b) as [[z r]|] eqn:I; [|reflexivity].
  destruct (n =? 1)%N; [reflexivity|].
  destruct (mp_read_str r) as [[s r']|] eqn:R; [|reflexivity].
  apply mp_read_int_len in I. apply mp_read_str_len in R.
  rewrite (mp_skip_more fuel (n - 2) r' ltac:(lia) fuel' Hf). reflexivity.
Qed.

Ltac time_cases H :=
  unfold mp_decode_time;
  match goal with |- context [match ?b with [] => _ | _ :: _ => _ end] => destruct b as [|c rest] end;
  [ try discriminate; try reflexivity
  | repeat match goal with
           | |- context [if ?x then _ else _] => destruct x
           | |- context [match mp_len_field ?k ?r with _ => _ end] =>
               let F := fresh "F" in destruct (mp_len_field k r) as [[? ?]|] eqn:F;
               [apply mp_len_field_len in F|]
           end ].

Theorem mp_decode_time_fuel fuel b : (length b <= fuel)%nat -> mp_decode_time fuel b <> DOutOfFuel.
Proof.
  intro Hb. time_cases Hb; try discriminate; simpl in Hb;
    first [ apply mp_struct_map_fuel; lia | apply mp_struct_arr_fuel; lia ].
Qed.

Lemma mp_decode_time_bound fuel b z i : mp_decode_time fuel b = DOk (z, i) -> (length i <= length b)%nat.
Proof.
  time_cases b; try discriminate; intro E; simpl;
    first [ inversion E; subst; simpl; lia
          | apply (mp_struct_map_bound _ _ _ _ _ _ (length rest)) in E; simpl; lia
          | apply mp_struct_arr_bound in E; lia ].
Qed.

Lemma mp_decode_time_more fuel b : (length b <= fuel)%nat ->
  forall fuel', (fuel <= fuel')%nat -> mp_decode_time fuel' b = mp_decode_time fuel b.
Proof.
  intros Hb fuel' Hf. time_cases b; try reflexivity; simpl in Hb;
    first [ apply mp_struct_map_more; lia | apply mp_struct_arr_more; lia ].
Qed.

(** ** strings *)
Lemma mp_str_len_len n rest s : mp_str_len n rest = Some s -> (length s <= length rest)%nat.
Proof.
  unfold mp_str_len. destruct (take n rest) as [lb|]; [|discriminate].
  intro T. apply take_len in T. rewrite skipn_length in T. lia.
Qed.

Lemma mp_decode_str_len b s : mp_decode_str b = Some s -> (length s <= length b)%nat.
Proof.
  unfold mp_decode_str. destruct b as [|c rest]; [discriminate|].
  repeat match goal with |- context [if ?b then _ else _] => destruct b end;
    intro H; simpl;
    first [ discriminate H
          | inversion H; subst; simpl; lia
          | apply take_len in H; lia
          | apply mp_str_len_len in H; lia ].
Qed.

(** ** base64: the document is no longer than the string *)
Lemma list_ind4 (A : Type) (P : list A -> Prop) :
  P [] -> (forall a, P [a]) -> (forall a b, P [a; b]) -> (forall a b c, P [a; b; c]) ->
  (forall a b c d r, P r -> P (a :: b :: c :: d :: r)) -> forall l, P l.
Proof.
  intros H0 H1 H2 H3 H4. fix IH 1.
  intros [|a [|b [|c [|d r]]]];
    [exact H0 | exact (H1 a) | exact (H2 a b) | exact (H3 a b c) | exact (H4 a b c d r (IH r))].
Qed.

Lemma sextets_to_bytes_length s : forall d, sextets_to_bytes s = Some d -> (length d <= length s)%nat.
Proof.
  induction s as [| a | a b | a b c | a b c e r IH] using list_ind4; intros d H.
  - inversion H; subst; simpl; lia.
  - discriminate.
  - inversion H; subst; simpl; lia.
  - inversion H; subst; simpl; lia.
  - cbn [sextets_to_bytes] in H. destruct (sextets_to_bytes r) as [d'|]; [|discriminate].
    inversion H; subst. specialize (IH d' eq_refl). simpl. lia.
Qed.

Lemma map_opt_length {A B} (f : A -> option B) : forall l l', map_opt f l = Some l' -> length l' = length l.
Proof.
  induction l as [|x r IH]; intros l' H; simpl in H.
  - inversion H; reflexivity.
  - destruct (f x); [|discriminate]. destruct (map_opt f r) as [r'|]; [|discriminate].
    inversion H; subst. simpl. f_equal. apply IH. reflexivity.
Qed.

Lemma filter_len_le {A} (f : A -> bool) l : (length (filter f l) <= length l)%nat.
Proof. induction l as [|x r IH]; simpl; [lia|]. destruct (f x); simpl; lia. Qed.

Theorem b64_decode_length s b : b64_decode s = Some b -> (length b <= length s)%nat.
Proof.
  unfold b64_decode.
  destruct (map_opt b64_val (filter (fun c => negb (is_newline c)) s)) as [sx|] eqn:M; [|discriminate].
  intro H. apply sextets_to_bytes_length in H. apply map_opt_length in M.
  pose proof (filter_len_le (fun c => negb (is_newline c)) s). lia.
Qed.

(** ** DeserializeCursor *)
Definition cursor_size (c : cursor) : nat :=
  match c with CInt _ => 0%nat | CStr s => length s | CTime _ i => length i end.

(** terminates: for every cursor type and EVERY byte string, fuel = its length (or more) yields a
    value or an error *)
Theorem cursor_decode_never_out_of_fuel fuel k s : (length s <= fuel)%nat ->
  cursor_decode_f fuel k s <> DOutOfFuel.
Proof.
  intro Hf. unfold cursor_decode_f. destruct (too_long s); [discriminate|].
  destruct (b64_decode s) as [b|] eqn:B; [|discriminate]. apply b64_decode_length in B.
  destruct k.
  - destruct (mp_decode_int b); discriminate.
  - destruct (mp_decode_str b); discriminate.
  - destruct (mp_decode_time fuel b) as [[n i]| |] eqn:T; try discriminate.
    exfalso. revert T. apply mp_decode_time_fuel. lia.
Qed.

Theorem cursor_decode_fuel_irrelevant fuel k s : (length s <= fuel)%nat ->
  cursor_decode_f fuel k s = cursor_decode_f (length s) k s.
Proof.
  intro Hf. unfold cursor_decode_f. destruct (too_long s); [reflexivity|].
  destruct (b64_decode s) as [b|] eqn:B; [|reflexivity]. apply b64_decode_length in B.
  destruct k; try reflexivity.
  rewrite (mp_decode_time_more (length s) b B fuel Hf). reflexivity.
Qed.

(** the decoded value is no larger than the cursor string *)
Theorem cursor_decode_bounded fuel k s c : cursor_decode_f fuel k s = DOk c -> (cursor_size c <= length s)%nat.
Proof.
  unfold cursor_decode_f. destruct (too_long s); [discriminate|].
  destruct (b64_decode s) as [b|] eqn:B; [|discriminate]. apply b64_decode_length in B.
  destruct k.
  - destruct (mp_decode_int b); [|discriminate]. intro E; inversion E; subst; simpl; lia.
  - destruct (mp_decode_str b) as [x|] eqn:D; [|discriminate]. apply mp_decode_str_len in D.
    intro E; inversion E; subst; simpl; lia.
  - destruct (mp_decode_time fuel b) as [[n i]| |] eqn:T; try discriminate.
    apply mp_decode_time_bound in T. intro E; inversion E; subst; simpl; lia.
Qed.

(** whatever is handed to the msgpack decoder has at most MaxCursorLength bytes: this bounds the
    number of Skip calls and the depth Go's recursive Skip can reach *)
Theorem cursor_decode_input_bounded fuel k s c : cursor_decode_f fuel k s = DOk c ->
  exists b, b64_decode s = Some b /\ (N.of_nat (length b) <= max_cursor_length)%N.
Proof.
  unfold cursor_decode_f, too_long. destruct (max_cursor_length <? N.of_nat (length s))%N eqn:L; [discriminate|].
  destruct (b64_decode s) as [b|] eqn:B; [|discriminate]. intros _. exists b. split; [reflexivity|].
  apply b64_decode_length in B. lia.
Qed.

(** [cursor_decode] is [cursor_decode_f] with the stated fuel; the [None] it returns is an error,
    never an exhausted fuel *)
Theorem cursor_decode_total k s :
  (exists c, cursor_decode_f (length s) k s = DOk c /\ cursor_decode k s = Some c) \/
  (cursor_decode_f (length s) k s = DErr /\ cursor_decode k s = None).
Proof.
  unfold cursor_decode.
  pose proof (cursor_decode_never_out_of_fuel (length s) k s (Nat.le_refl _)) as H.
  destruct (cursor_decode_f (length s) k s) as [c| |]; [left; exists c; auto | right; auto | congruence].
Qed.
