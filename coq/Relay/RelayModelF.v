(** * Relay/RelayModelF.v — the connection field with (a) a SerializeCursor that can fail and
    (b) ConnectionConfig.Direction.  This is the model the correspondence check runs.

    RelayModel.v transcribes the resolver for a SerializeCursor that always succeeds ([encode : C ->
    bytes]); all stage-A theorems are about that model.  The real function fails when msgpack
    cannot encode the cursor value or when the result exceeds MaxCursorLength (pagination.go:95-
    112), and the code has three places that look at the error:

      pagination.go:393-399  the edge's [cursor] field: errors.Wrap(err, "error serializing cursor")
                             — a field error under a non-null field: the connection becomes null
      pagination.go:645-655  completeConnection: only [if len(edges) > 0], first the start cursor,
                             then the end cursor; an error is the connection field's error (also
                             when neither pageInfo nor a cursor is selected)
      (the lazy zero-edge path serialises nothing: its page is empty)

    [complete_now_f] / [complete_connection_f] / [resolve_f] are RelayModel's functions with
    [encode_f : C -> option bytes]; RelaySerFailProofs.v proves they coincide with RelayModel's
    whenever every edge the application hands over has an encodable cursor, and that a failure is
    an error ([ESerialize]), never a panic.

    Direction (pagination.go:327-340): a forward-only connection defines only [first: Int!] and
    [after], a backward-only one only [last: Int!] and [before]; anything else is rejected by
    validation before the resolver runs ([EValidation]); the resolver is the same.
    No proofs in this file. *)
From Coq Require Import List NArith ZArith Bool.
From ApiFu Require Import Base.Sexp Relay.RelayModel.
Import ListNotations.
Open Scope Z_scope.

(** an argument as the client wrote it *)
Inductive warg (A : Type) := WAbsent | WNull | WVal (a : A).
Arguments WAbsent {A}. Arguments WNull {A}. Arguments WVal {A} a.

Definition warg_value {A} (w : warg A) : option A := match w with WVal a => Some a | _ => None end.
Definition warg_given {A} (w : warg A) : bool := match w with WAbsent => false | _ => true end.

Record wargs := { w_first : warg Z; w_last : warg Z; w_after : warg bytes; w_before : warg bytes }.

Inductive direction := Bidirectional | ForwardOnly | BackwardOnly.

(** validation of the field's arguments against ConnectionFieldDefinition(config.Direction):
    [None] = a validation error (undefined argument, required argument missing or null);
    [Some ar] = ctx.Arguments as the resolver sees them *)
Definition accept_args (d : direction) (w : wargs) : option args :=
  match d with
  | Bidirectional =>
      Some {| a_first := warg_value (w_first w); a_last := warg_value (w_last w);
              a_after := warg_value (w_after w); a_before := warg_value (w_before w) |}
  | ForwardOnly =>
      if warg_given (w_last w) || warg_given (w_before w) then None
      else match w_first w with
           | WVal n => Some {| a_first := Some n; a_last := None; a_after := warg_value (w_after w); a_before := None |}
           | _ => None
           end
  | BackwardOnly =>
      if warg_given (w_first w) || warg_given (w_after w) then None
      else match w_last w with
           | WVal n => Some {| a_first := None; a_last := Some n; a_after := None; a_before := warg_value (w_before w) |}
           | _ => None
           end
  end.

(** TimeBasedConnection's ResolveEdges (pagination.go:766-817), given the EdgeGetter's answers to
    its range queries in query order (which queries: C16): an error of the getter is returned at
    once; slices are appended to [edges] as they come (nil = empty); promises are collected and, if
    there is at least one, joined (api.go join: values in order, the first failed promise in order
    is the error) by a continuation that appends their slices to the SAME [edges]. *)
Section TimeConn.
  Variable E : Type.

  Fixpoint join_edges (proms : list (result (list E))) (acc : list E) : result (list E) :=
    match proms with
    | [] => Ok acc
    | Err e :: _ => Err e
    | Ok l :: r => join_edges r (acc ++ l)
    end.

  Fixpoint time_collect (answers : list (result (later (list E)))) (edges : list E) (proms : list (result (list E)))
    : result (later (list E)) :=
    match answers with
    | [] => match proms with
            | [] => Ok (Sync edges)
            | _ :: _ => Ok (Promise (join_edges proms edges))
            end
    | Err e :: _ => Err e
    | Ok (Sync l) :: r => time_collect r (edges ++ l) proms
    | Ok (Promise p) :: r => time_collect r edges (proms ++ [p])
    end.

  Definition time_resolve_edges (answers : list (result (later (list E)))) : result (later (list E)) :=
    time_collect answers [] [].
End TimeConn.

(** defaultConnectionCost (pagination.go:226-235): the connection's resolver costs 1 and hands
    maxCount = [last] if it is an int, else [first], else 0 to the [edges] field, whose cost function
    (pagination.go:436-441) multiplies its sub-selection by it; cursor, pageInfo and its fields cost 0 *)
Definition max_edge_count (ar : args) : Z :=
  match a_last ar with
  | Some l => l
  | None => match a_first ar with Some f => f | None => 0 end
  end.

Section ModelF.
  Variables C E : Type.
  Variable ltb : C -> C -> bool.
  Variable cur : E -> C.
  Variable encode_f : C -> option bytes.   (* SerializeCursor: None = an error *)
  Variable decode : bytes -> option C.

  (** completeConnection on a slice *)
  Definition complete_now_f (a : app C E) (ar : args) (before after : option C) (l : list E) : result (conn C E) :=
    let total :=
      match app_total a with
      | Some t => result_map Sync t
      | None => Ok (Sync (len l))
      end in
    match edges_to_return C E ltb cur l after before (a_first ar) (a_last ar) with
    | Panic => Err EPanicked
    | Ret (edges, pi) =>
        (* if len(edges) > 0 { StartCursor, err = SerializeCursor(..); EndCursor, err = SerializeCursor(..) } *)
        match (match edges, pi_start pi, pi_end pi with
               | _ :: _, Some s, Some e =>
                   match encode_f s with
                   | None => None
                   | Some s' => match encode_f e with None => None | Some e' => Some (s', e') end
                   end
               | _, _, _ => Some ([], [])
               end) with
        | None => Err ESerialize
        | Some (st, en) =>
            Ok {| cn_edges := edges;
                  cn_page_info := Ok (Sync {| sp_prev := pi_prev pi; sp_next := pi_next pi; sp_start := st; sp_end := en |});
                  cn_total := total;
                  cn_page_info_calls := [] |}
        end
    end.

  Definition complete_connection_f (a : app C E) (ar : args) (before after : option C) (es : later (list E))
    : result (later (conn C E)) :=
    match es with
    | Promise p => Ok (Promise (chain p (complete_now_f a ar before after)))
    | Sync l => result_map Sync (complete_now_f a ar before after l)
    end.

  (** the resolver (RelayModel.resolve with [complete_connection_f]) *)
  Definition resolve_f (a : app C E) (ar : args) : result (later (conn C E)) * list (call C) :=
    match check_counts ar with
    | Some e => (Err e, [])
    | None =>
    match decode_arg C decode (a_after ar) EInvalidAfter with
    | Err e => (Err e, [])
    | Ok after =>
    match decode_arg C decode (a_before ar) EInvalidBefore with
    | Err e => (Err e, [])
    | Ok before =>
    match (match a_first ar with
           | Some first => Ret (first + 1)
           | None => match a_last ar with Some last => Ret (- (last + 1)) | None => Panic end
           end) with
    | Panic => (Err EPanicked, [])
    | Ret limit =>
        let do_resolve (_ : unit) : result (later (list E)) * list (call C) :=
          if app_has_all a then (app_all a, [])
          else (app_edges a after before limit,
                [{| k_after := after; k_before := before; k_limit := limit |}]) in
        if (limit =? 1) || (limit =? -1) then
          (Ok (Sync {|
             cn_edges := [];
             cn_total :=
               match app_total a with
               | Some t => result_map Sync t
               | None =>
                   if app_has_all a then
                     match app_all a with
                     | Err e => Err e
                     | Ok (Promise p) => Ok (Promise (chain p (fun l => Ok (len l))))
                     | Ok (Sync l) => Ok (Sync (len l))
                     end
                   else Err ETotalUnsupported
               end;
             cn_page_info :=
               match fst (do_resolve tt) with
               | Err e => Err e
               | Ok es =>
                   match complete_connection_f a ar before after es with
                   | Err e => Err e
                   | Ok (Promise p) => Ok (Promise (chain p (fun c => await (cn_page_info c))))
                   | Ok (Sync c) => cn_page_info c
                   end
               end;
             cn_page_info_calls := snd (do_resolve tt) |}), [])
        else
          match fst (do_resolve tt) with
          | Err e => (Err e, snd (do_resolve tt))
          | Ok es => (complete_connection_f a ar before after es, snd (do_resolve tt))
          end
    end end end end.

  (** what a client observes when it selects [edges { cursor node }] (or not), pageInfo,
      totalCount: the edges come with their serialised cursors; one cursor that cannot be
      serialised is a field error below non-null fields all the way up to the connection *)
  Inductive response_f :=
  | FError (e : err)
  | FData (edges : list (bytes * E)) (page_info : result spage) (total : result Z).

  Fixpoint ser_edges (l : list E) : option (list (bytes * E)) :=
    match l with
    | [] => Some []
    | e :: r =>
        match encode_f (cur e), ser_edges r with
        | Some s, Some r' => Some ((s, e) :: r')
        | _, _ => None
        end
    end.

  Definition observe_f (sel_cursors : bool) (r : result (later (conn C E))) : response_f :=
    match await r with
    | Err e => FError e
    | Ok c =>
        if sel_cursors then
          match ser_edges (cn_edges c) with
          | Some es => FData es (await (cn_page_info c)) (await (cn_total c))
          | None => FError ESerialize
          end
        else FData (map (fun e => ([], e)) (cn_edges c)) (await (cn_page_info c)) (await (cn_total c))
    end.

  Definition serve_f (sel_cursors : bool) (a : app C E) (ar : args) : response_f :=
    observe_f sel_cursors (fst (resolve_f a ar)).

  (** the field of a connection with the given Direction *)
  Definition serve_dir (d : direction) (sel_cursors : bool) (a : app C E) (w : wargs) : response_f :=
    match accept_args d w with
    | None => FError EValidation
    | Some ar => serve_f sel_cursors a ar
    end.
End ModelF.

Arguments FError {E}. Arguments FData {E}.
