(** * Relay/RelayPromiseCompose.v — the promises of a connection field, composed with the executor
    model of C02 (Fut/) and the idle-handler model of C15 (Idle/).

    RelayModel treats a graphql.ResolvePromise as "will deliver a value or an error" ([later]) and
    says what the client observes with [await]; goroutines, the IdleHandler and the order in which
    promises are fulfilled are not part of it.  What it therefore needs from the rest of the
    system is: *a resolver that answers through a promise yields, under every schedule, the
    response it would yield answering directly*.  That is C02's theorem about the executor
    ([C02_async_schedule_independent]: plans that are equal after erasing which resolvers are
    asynchronous run to completion with the same data under any two fair idle handlers) and C15's
    about api-fu's handler ([C15_response_eq_sync_composed]: its recorded rounds are such a
    schedule).  Here the shapes are fitted together:

    [plan_of_result key r]  the C02 plan (one root field) of a connection field whose resolver
                            returned [r]: the field is asynchronous iff [r] is a promise, and so
                            are [pageInfo] / [totalCount] on the lazy zero-edge path;
    [plan_erases_to_observation]: erasing the asynchrony tags leaves a plan that is a function of
                            what RelayModel says the client observes ([observe]);
    [connection_promise_composes]: hence two applications that hand over the same edges, one
                            directly and one through promises, lead the executor model to the same
                            data under ANY two fair idle handlers, and both responses conform. *)
From Coq Require Import List NArith ZArith Bool.
From ApiFu Require Import Base.Sexp Relay.CursorCodec Relay.RelayModel Relay.RelaySpec Relay.RelayProofs.
From ApiFu Require Import Fut.Plan Fut.Future Fut.ExecAsync Fut.FutSpec Fut.AsyncRun Fut.FutProofs.
Import ListNotations.

Section Compose.
  Variables C E : Type.
  Variable ltb : C -> C -> bool.
  Variable cur : E -> C.
  Variable encode : C -> bytes.
  Variable decode : bytes -> option C.
  Variable node : E -> Z.                    (* the edge's [node] field (any leaf) *)
  Variables k_edges k_page_info k_total k_cursor k_node k_prev k_next k_start k_end : bytes.  (* response keys *)

  (** a string as a leaf value (injective) *)
  Definition leaf_bytes (b : bytes) : vplan := VLeaf (be_decode (1%N :: b)).
  Definition leaf_bool (b : bool) : vplan := VLeaf (if b then 1%Z else 0%Z).

  (** a non-null field below the connection whose resolver returned [r] *)
  Definition later_plan {A} (r : RelayModel.result (later A)) (f : A -> vplan) : fplan :=
    match r with
    | RelayModel.Err _ => FP None true None
    | RelayModel.Ok (Sync a) => FP None true (Some (f a))
    | RelayModel.Ok (Promise (RelayModel.Ok a)) => FP (Some 1%N) true (Some (f a))
    | RelayModel.Ok (Promise (RelayModel.Err _)) => FP (Some 1%N) true None
    end.

  Definition edge_plan (e : E) : vplan :=
    VObj [(k_cursor, FP None true (Some (leaf_bytes (encode (cur e))))); (k_node, FP None false (Some (VLeaf (node e))))].
  Definition spage_plan (sp : spage) : vplan :=
    VObj [(k_prev, FP None true (Some (leaf_bool (sp_prev sp)))); (k_next, FP None true (Some (leaf_bool (sp_next sp))));
          (k_start, FP None true (Some (leaf_bytes (sp_start sp)))); (k_end, FP None true (Some (leaf_bytes (sp_end sp))))].
  Definition conn_plan (c : conn C E) : vplan :=
    VObj [(k_edges, FP None true (Some (VList true (map edge_plan (cn_edges c)))));
          (k_page_info, later_plan (cn_page_info c) spage_plan);
          (k_total, later_plan (cn_total c) VLeaf)].

  (** the connection field (nullable) whose resolver returned [r] *)
  Definition plan_of_result (r : RelayModel.result (later (conn C E))) : fplan :=
    match r with
    | RelayModel.Err _ => FP None false None
    | RelayModel.Ok (Sync c) => FP None false (Some (conn_plan c))
    | RelayModel.Ok (Promise (RelayModel.Ok c)) => FP (Some 0%N) false (Some (conn_plan c))
    | RelayModel.Ok (Promise (RelayModel.Err _)) => FP (Some 0%N) false None
    end.

  (** the same plan built from what the client observes, everything synchronous *)
  Definition await_plan {A} (r : RelayModel.result A) (f : A -> vplan) : fplan :=
    match r with RelayModel.Ok a => FP None true (Some (f a)) | RelayModel.Err _ => FP None true None end.
  Definition plan_of_observation (o : response E) : fplan :=
    match o with
    | RError _ => FP None false None
    | RData edges pi tot =>
        FP None false (Some (VObj [(k_edges, FP None true (Some (VList true (map edge_plan edges))));
                                   (k_page_info, await_plan pi spage_plan);
                                   (k_total, await_plan tot VLeaf)]))
    end.

  Lemma strip_edge_plans l : map strip_v (map edge_plan l) = map edge_plan l.
  Proof. induction l as [|e r IH]; [reflexivity|]. cbn [map]. rewrite IH. reflexivity. Qed.

  Lemma later_plan_strip_spage (r : RelayModel.result (later spage)) :
    strip_f (later_plan r spage_plan) = await_plan (await r) spage_plan.
  Proof. destruct r as [[sp|[sp|e]]|e]; reflexivity. Qed.
  Lemma later_plan_strip_total (r : RelayModel.result (later Z)) :
    strip_f (later_plan r VLeaf) = await_plan (await r) VLeaf.
  Proof. destruct r as [[z|[z|e]]|e]; reflexivity. Qed.

  (** erasing which resolvers are asynchronous leaves exactly the observation *)
  Theorem plan_erases_to_observation r :
    strip_f (plan_of_result r) = plan_of_observation (observe C E r).
  Proof.
    assert (K : forall c, strip_v (conn_plan c) =
              VObj [(k_edges, FP None true (Some (VList true (map edge_plan (cn_edges c)))));
                    (k_page_info, await_plan (await (cn_page_info c)) spage_plan);
                    (k_total, await_plan (await (cn_total c)) VLeaf)]).
    { intro c. unfold conn_plan. cbn [strip_v map fst snd].
      rewrite later_plan_strip_spage, later_plan_strip_total.
      cbn [strip_f strip_v]. rewrite strip_edge_plans. reflexivity. }
    destruct r as [[c|[c|e]]|e]; unfold observe; cbn [plan_of_result await strip_f plan_of_observation];
      try rewrite K; reflexivity.
  Qed.

  (** two resolver results the client cannot tell apart give plans with the same outcomes *)
  Corollary same_observation_same_outcomes key r1 r2 :
    observe C E r1 = observe C E r2 ->
    same_outcomes [(key, plan_of_result r1)] [(key, plan_of_result r2)].
  Proof.
    intro H. unfold same_outcomes, strip. cbn [map fst snd].
    rewrite (plan_erases_to_observation r1), (plan_erases_to_observation r2), H. reflexivity.
  Qed.

  (** the composition: one request ([ar]) to a connection whose application hands the edges over
      directly ([a1]) and one whose application uses promises ([a2]); whatever the two idle
      handlers do (as long as each round fulfils something: [fair], which C15 proves of api-fu's
      handler), the executor model finishes both with the same data, and both responses conform
      to the plan (no duplicated, no missing error). *)
  Theorem connection_promise_composes (a1 a2 : app C E) ar key md sigma1 sigma2 fuel1 fuel2 jfuel :
    app_has_all a1 = app_has_all a2 -> app_total a1 = app_total a2 ->
    (exists l, delivers E (app_all a1) l /\ delivers E (app_all a2) l) ->
    (forall af bf limit, exists l, delivers E (app_edges a1 af bf limit) l /\ delivers E (app_edges a2 af bf limit) l) ->
    let root1 := [(key, plan_of_result (fst (resolve C E ltb cur encode decode a1 ar)))] in
    let root2 := [(key, plan_of_result (fst (resolve C E ltb cur encode decode a2 ar)))] in
    fair sigma1 -> fair sigma2 ->
    (count_async root1 <= fuel1)%nat -> (count_async root2 <= fuel2)%nat -> (resp_depth root1 < jfuel)%nat ->
    exists r1 r2,
      run fixed_flags sigma1 md fuel1 jfuel root1 = Done r1 /\
      run fixed_flags sigma2 md fuel2 jfuel root2 = Done r2 /\
      r_data r1 = r_data r2 /\
      conforms root1 (r_data r1) (r_errors r1) /\
      conforms root1 (r_data r2) (r_errors r2).
  Proof.
    intros Hh Ht Hall Hwin root1 root2.
    apply schedule_independent.
    apply same_observation_same_outcomes.
    exact (promise_equiv C E ltb cur encode decode a1 a2 ar Hh Ht Hall Hwin).
  Qed.
End Compose.
