(** * Relay/RelayProofs.v — pagination.EdgesToReturn (model) refines the Relay algorithms (spec).

    Hypotheses of the section: [ltb] is a strict total order on cursors (irreflexive, transitive,
    trichotomous).  The edge list handed to the code is any list [edges]; "the connection" is any
    strictly increasing permutation [S] of it ([connection_of edges S]; its existence says that
    the cursors are distinct). *)
From Coq Require Import List Arith ZArith Bool Lia ZifyBool Sorting.Sorted Sorting.Permutation.
From ApiFu Require Import Base.Sexp Relay.RelayOrder Relay.RelayModel Relay.RelaySpec.
Import ListNotations.
Open Scope Z_scope.

Section Proofs.
  Variables C E : Type.
  Variable ltb : C -> C -> bool.
  Variable cur : E -> C.

  Hypothesis ltb_irrefl : forall a, ltb a a = false.
  Hypothesis ltb_trans : forall a b c, ltb a b = true -> ltb b c = true -> ltb a c = true.
  Hypothesis ltb_total : forall a b, ltb a b = true \/ a = b \/ ltb b a = true.

  Notation lt_e := (fun x y : E => ltb (cur x) (cur y) = true).
  Notation ordered := (ordered C E ltb cur).
  Notation connection_of := (connection_of C E ltb cur).
  Notation in_range := (in_range C ltb).
  Notation range := (position_apply_cursors C E ltb cur).

  (** ** the order *)
  Lemma ltb_asym a b : ltb a b = true -> ltb b a = true -> False.
  Proof. intros H1 H2. pose proof (ltb_trans _ _ _ H1 H2) as H. rewrite ltb_irrefl in H. discriminate. Qed.

  Lemma lt_e_asym : forall x y : E, lt_e x y -> lt_e y x -> False.
  Proof. intros x y. apply ltb_asym. Qed.

  Lemma ceqb_eq a b : ceqb C ltb a b = true <-> a = b.
  Proof.
    unfold ceqb. split.
    - intro H. apply andb_true_iff in H as [H1 H2]. apply negb_true_iff in H1, H2.
      destruct (ltb_total a b) as [H|[H|H]]; congruence.
    - intros ->. rewrite ltb_irrefl. reflexivity.
  Qed.

  (** a < b, not (c < b)  ->  a < c *)
  Lemma lt_le_trans a b c : ltb a b = true -> ltb c b = false -> ltb a c = true.
  Proof.
    intros H1 H2. destruct (ltb_total a c) as [H|[H|H]]; [exact H | subst c; congruence |].
    rewrite (ltb_trans _ _ _ H H1) in H2. discriminate.
  Qed.

  (** not (b < a), b < c  ->  a < c *)
  Lemma le_lt_trans a b c : ltb b a = false -> ltb b c = true -> ltb a c = true.
  Proof.
    intros H1 H2. destruct (ltb_total a c) as [H|[H|H]]; [exact H | subst c; congruence |].
    rewrite (ltb_trans _ _ _ H2 H) in H1. discriminate.
  Qed.

  Lemma le_trans a b c : ltb b a = false -> ltb c b = false -> ltb c a = false.
  Proof.
    intros H1 H2. destruct (ltb c a) eqn:H; [|reflexivity].
    destruct (ltb_total a b) as [Hab|[Hab|Hab]]; [| subst b; congruence | congruence].
    rewrite (ltb_trans _ _ _ H Hab) in H2. discriminate.
  Qed.

  (** ** connections *)
  Lemma ordered_NoDup_cur S : ordered S -> NoDup (map cur S).
  Proof.
    induction 1 as [|a l Hs IH Hf]; simpl; constructor; [|exact IH].
    intro Hin. apply in_map_iff in Hin as [x [Hx Hin]]. rewrite Forall_forall in Hf.
    pose proof (Hf x Hin) as H. simpl in H. rewrite Hx, ltb_irrefl in H. discriminate.
  Qed.

  Lemma connection_NoDup_cur edges S : connection_of edges S -> NoDup (map cur edges).
  Proof.
    intros [HP Ho]. eapply Permutation_NoDup; [apply Permutation_map; exact HP|]. apply ordered_NoDup_cur. exact Ho.
  Qed.

  Lemma connection_In edges S : connection_of edges S -> forall e, In e S <-> In e edges.
  Proof.
    intros [HP _] e. split; intro H; [eapply Permutation_in | eapply Permutation_in; [apply Permutation_sym|]]; eassumption.
  Qed.

  Lemma connection_length edges S : connection_of edges S -> length S = length edges.
  Proof. intros [HP _]. apply Permutation_length. exact HP. Qed.

  (** ** sort.Slice: insertion sort yields the connection *)
  Notation insert := (insert C E ltb cur).
  Notation isort := (isort C E ltb cur).
  Notation le_e := (fun x y : E => ltb (cur y) (cur x) = false).

  Lemma insert_perm x l : Permutation (insert x l) (x :: l).
  Proof.
    induction l as [|y r IH]; simpl; [apply Permutation_refl|].
    destruct (ltb (cur y) (cur x)); [|apply Permutation_refl].
    eapply Permutation_trans; [apply perm_skip; exact IH | apply perm_swap].
  Qed.

  Lemma isort_perm l : Permutation (isort l) l.
  Proof.
    induction l as [|x r IH]; simpl; [constructor|].
    eapply Permutation_trans; [apply insert_perm | apply perm_skip; exact IH].
  Qed.

  Lemma insert_le_sorted x l : StronglySorted le_e l -> StronglySorted le_e (insert x l).
  Proof.
    induction 1 as [|y r Hs IH Hf]; simpl; [constructor; constructor|].
    destruct (ltb (cur y) (cur x)) eqn:Hyx.
    - constructor; [exact IH|]. rewrite Forall_forall in *. intros z Hz.
      apply (Permutation_in _ (insert_perm x r)) in Hz. destruct Hz as [Hz|Hz].
      + subst z. destruct (ltb (cur x) (cur y)) eqn:Hxy; [|reflexivity]. exfalso. eapply ltb_asym; eassumption.
      + apply Hf. exact Hz.
    - constructor; [constructor; assumption|]. constructor; [exact Hyx|].
      rewrite Forall_forall in *. intros z Hz. eapply le_trans; [exact Hyx | apply Hf; exact Hz].
  Qed.

  Lemma isort_le_sorted l : StronglySorted le_e (isort l).
  Proof. induction l as [|x r IH]; simpl; [constructor | apply insert_le_sorted; exact IH]. Qed.

  Lemma le_sorted_ordered l : StronglySorted le_e l -> NoDup (map cur l) -> ordered l.
  Proof.
    induction 1 as [|a l Hs IH Hf]; simpl; intro Hnd; [constructor|].
    inversion Hnd as [|? ? Hni Hnd']; subst. constructor; [apply IH; exact Hnd'|].
    rewrite Forall_forall in *. intros x Hx. pose proof (Hf x Hx) as Hle. simpl in Hle.
    destruct (ltb_total (cur a) (cur x)) as [H|[H|H]]; [exact H | | congruence].
    exfalso. apply Hni. rewrite H. apply in_map. exact Hx.
  Qed.

  Lemma isort_ordered l : NoDup (map cur l) -> ordered (isort l).
  Proof.
    intro H. apply le_sorted_ordered; [apply isort_le_sorted|].
    eapply Permutation_NoDup; [apply Permutation_map, Permutation_sym, isort_perm | exact H].
  Qed.

  (** sorting a filtered edge list = filtering the connection *)
  Lemma isort_filter edges S p : connection_of edges S -> isort (filter p edges) = filter p S.
  Proof.
    intros HC. pose proof HC as [HP Ho].
    apply (SSorted_perm_unique E lt_e lt_e_asym).
    - apply isort_ordered. pose proof (connection_NoDup_cur _ _ HC) as Hnd.
      clear - Hnd. induction edges as [|x r IH]; simpl; [constructor|].
      inversion Hnd as [|? ? Hni Hnd']; subst. destruct (p x); [|apply IH; exact Hnd'].
      simpl. constructor; [|apply IH; exact Hnd'].
      intro Hin. apply Hni. apply in_map_iff in Hin as [y [Hy Hin]]. apply in_map_iff. exists y.
      split; [exact Hy|]. apply filter_In in Hin. tauto.
    - apply SSorted_filter. exact Ho.
    - eapply Permutation_trans; [apply isort_perm|]. apply Permutation_filter_local. apply Permutation_sym. exact HP.
  Qed.

  (** ** ApplyCursorsToEdges *)
  Definition at_or_after_before (before : option C) (e : E) : bool :=
    match before with Some b => negb (ltb (cur e) b) | None => false end.
  Definition at_or_before_after (after : option C) (e : E) : bool :=
    match after with Some a => negb (ltb a (cur e)) | None => false end.

  Lemma apply_loop_spec edges after before :
    apply_loop C E ltb cur edges after before =
    (filter (fun e => in_range after before (cur e)) edges,
     existsb (fun e => negb (at_or_after_before before e) && at_or_before_after after e) edges,
     existsb (at_or_after_before before) edges).
  Proof.
    induction edges as [|e r IH]; simpl; [reflexivity|]. rewrite IH. clear IH.
    unfold RelaySpec.in_range, at_or_after_before, at_or_before_after.
    destruct before as [b|], after as [a|]; simpl;
      repeat match goal with |- context [ltb ?x ?y] => destruct (ltb x y) eqn:? end; simpl;
      rewrite ?orb_true_r; reflexivity.
  Qed.

  Lemma apply_cursors_to_edges_spec edges after before :
    apply_cursors_to_edges C E ltb cur edges after before =
    (filter (fun e => in_range after before (cur e)) edges,
     existsb (fun e => negb (at_or_after_before before e) && at_or_before_after after e) edges,
     existsb (at_or_after_before before) edges).
  Proof.
    unfold apply_cursors_to_edges. destruct after as [a|], before as [b|]; try apply apply_loop_spec.
    unfold RelaySpec.in_range, at_or_after_before, at_or_before_after. simpl.
    rewrite filter_all_true by reflexivity.
    f_equal; [f_equal|]; symmetry; (induction edges as [|e r IH]; simpl; [reflexivity | exact IH]).
  Qed.

  (** ** the Relay text on the connection: removing "before and including afterEdge" is keeping the
      edges after the position *)
  Lemma remove_through_spec a S : ordered S ->
    remove_through C E ltb cur a S =
    if existsb (fun e => ceqb C ltb (cur e) a) S then Some (filter (fun e => ltb a (cur e)) S) else None.
  Proof.
    induction 1 as [|e r Hs IH Hf]; simpl; [reflexivity|].
    destruct (ceqb C ltb (cur e) a) eqn:He; simpl.
    - apply ceqb_eq in He. subst a. rewrite ltb_irrefl. f_equal. symmetry. apply filter_all_true.
      rewrite Forall_forall in Hf. exact Hf.
    - rewrite IH. destruct (existsb (fun e0 => ceqb C ltb (cur e0) a) r) eqn:Hex; [|reflexivity].
      apply existsb_exists in Hex as [x [Hx Hxa]]. apply ceqb_eq in Hxa. subst a.
      rewrite Forall_forall in Hf. pose proof (Hf x Hx) as Hlt. simpl in Hlt.
      destruct (ltb (cur x) (cur e)) eqn:Hxe; [exfalso; eapply ltb_asym; eassumption | reflexivity].
  Qed.

  Lemma keep_until_spec b S : ordered S ->
    keep_until C E ltb cur b S =
    if existsb (fun e => ceqb C ltb (cur e) b) S then Some (filter (fun e => ltb (cur e) b) S) else None.
  Proof.
    induction 1 as [|e r Hs IH Hf]; simpl; [reflexivity|].
    destruct (ceqb C ltb (cur e) b) eqn:He; simpl.
    - apply ceqb_eq in He. subst b. rewrite ltb_irrefl. f_equal. symmetry. apply filter_all_false.
      rewrite Forall_forall in Hf. intros x Hx. pose proof (Hf x Hx) as Hlt. simpl in Hlt.
      destruct (ltb (cur x) (cur e)) eqn:Hxe; [exfalso; eapply ltb_asym; eassumption | reflexivity].
    - rewrite IH. destruct (existsb (fun e0 => ceqb C ltb (cur e0) b) r) eqn:Hex; [|reflexivity].
      apply existsb_exists in Hex as [x [Hx Hxb]]. apply ceqb_eq in Hxb. subst b.
      rewrite Forall_forall in Hf. rewrite (Hf x Hx). reflexivity.
  Qed.

  Definition is_cursor_of (S : list E) (c : option C) : Prop :=
    match c with Some a => exists e, In e S /\ cur e = a | None => True end.

  (** the literal Relay algorithm and the position reading agree when the cursors are cursors of
      edges and after < before *)
  Theorem relay_literal_agrees S after before :
    ordered S -> is_cursor_of S after -> is_cursor_of S before ->
    (forall a b, after = Some a -> before = Some b -> ltb a b = true) ->
    relay_apply_cursors C E ltb cur S before after = range S before after.
  Proof.
    intros Ho Ha Hb Hab. unfold relay_apply_cursors, position_apply_cursors, RelaySpec.in_range.
    assert (Hmem : forall c, is_cursor_of S (Some c) -> existsb (fun e => ceqb C ltb (cur e) c) S = true).
    { intros c [e [He Hc]]. apply existsb_exists. exists e. split; [exact He|]. apply ceqb_eq. exact Hc. }
    destruct after as [a|], before as [b|]; simpl.
    - rewrite (remove_through_spec a S Ho), (Hmem a Ha).
      rewrite keep_until_spec by (apply SSorted_filter; exact Ho).
      assert (Hex : existsb (fun e => ceqb C ltb (cur e) b) (filter (fun e => ltb a (cur e)) S) = true).
      { destruct Hb as [e [He Hc]]. apply existsb_exists. exists e. split; [|apply ceqb_eq; exact Hc].
        apply filter_In. split; [exact He|]. rewrite Hc. apply Hab; reflexivity. }
      rewrite Hex. clear. induction S as [|e r IH]; simpl; [reflexivity|].
      destruct (ltb a (cur e)); simpl; [destruct (ltb (cur e) b)|]; rewrite IH; reflexivity.
    - rewrite (remove_through_spec a S Ho), (Hmem a Ha).
      apply filter_ext_in_local. intros x _. rewrite andb_true_r. reflexivity.
    - rewrite (keep_until_spec b S Ho), (Hmem b Hb). reflexivity.
    - symmetry. apply filter_all_true. reflexivity.
  Qed.

  (** ** EdgesToReturn *)
  Notation edges_to_return := (edges_to_return C E ltb cur).
  Notation spec_edges := (spec_edges C E ltb cur).

  (** the flags ApplyCursorsToEdges computes, over the connection *)
  Definition had_prev S after before : bool :=
    existsb (fun e => negb (at_or_after_before before e) && at_or_before_after after e) S.
  Definition had_next S before : bool := existsb (at_or_after_before before) S.

  (** EdgesToReturn in closed form: slices of the range of the connection *)
  Lemma edges_to_return_closed edges S after before first last :
    connection_of edges S ->
    edges_to_return edges after before first last =
    let R := range S before after in
    match cut_first E R first (had_next S before) with
    | Panic => Panic
    | Ret (e1, next) =>
        match cut_last E e1 last (had_prev S after before) with
        | Panic => Panic
        | Ret (e2, prev) =>
            Ret (e2, {| pi_prev := prev; pi_next := next;
                        pi_start := option_map cur (hd_error e2); pi_end := option_map cur (last_error e2) |})
        end
    end.
  Proof.
    intro HC. unfold RelayModel.edges_to_return. rewrite apply_cursors_to_edges_spec.
    rewrite (isort_filter edges S _ HC). unfold had_next, had_prev.
    destruct HC as [HP _].
    rewrite (existsb_Permutation E (at_or_after_before before) S edges HP).
    rewrite (existsb_Permutation E (fun e => negb (at_or_after_before before e) && at_or_before_after after e) S edges HP).
    reflexivity.
  Qed.

  Lemma keep_last_skipn (l : list E) n : 0 <= n -> len l >? n = true ->
    keep_last E n l = skipn (length l - Z.to_nat n) l.
  Proof.
    intros Hn Hl. unfold keep_last. unfold len in Hl. rewrite Hl. apply lastn_skipn.
  Qed.

  (** returned edges = the specification's, for every combination of arguments; the Go panic on a
      negative count is the specification's "throw an error" *)
  Theorem edges_eq edges S after before first last :
    connection_of edges S ->
    match edges_to_return edges after before first last with
    | Ret (page, _) => spec_edges S before after first last = Some page
    | Panic => spec_edges S before after first last = None
    end.
  Proof.
    intro HC. rewrite (edges_to_return_closed _ _ _ _ _ _ HC). cbv zeta.
    unfold RelaySpec.spec_edges, slice_edges. set (R := range S before after).
    unfold cut_first, cut_last, keep_first. fold (len R).
    destruct first as [n|].
    - destruct (n <? 0) eqn:Hn0.
      + assert (Hgt : len R >? n = true) by (unfold len; lia). rewrite Hgt. reflexivity.
      + destruct (len R >? n) eqn:Hgt.
        * destruct last as [m|]; [|reflexivity].
          destruct (m <? 0) eqn:Hm0.
          -- assert (Hgt2 : len (firstn (Z.to_nat n) R) >? m = true) by (unfold len; lia). rewrite Hgt2. reflexivity.
          -- destruct (len (firstn (Z.to_nat n) R) >? m) eqn:Hgt2.
             ++ rewrite keep_last_skipn by lia. reflexivity.
             ++ unfold keep_last. unfold len in Hgt2. rewrite Hgt2. reflexivity.
        * destruct last as [m|]; [|reflexivity].
          destruct (m <? 0) eqn:Hm0.
          -- assert (Hgt2 : len R >? m = true) by (unfold len; lia). rewrite Hgt2. reflexivity.
          -- destruct (len R >? m) eqn:Hgt2.
             ++ rewrite keep_last_skipn by lia. reflexivity.
             ++ unfold keep_last. unfold len in Hgt2. rewrite Hgt2. reflexivity.
    - destruct last as [m|]; [|reflexivity].
      destruct (m <? 0) eqn:Hm0.
      + assert (Hgt2 : len R >? m = true) by (unfold len; lia). rewrite Hgt2. reflexivity.
      + destruct (len R >? m) eqn:Hgt2.
        * rewrite keep_last_skipn by lia. reflexivity.
        * unfold keep_last. unfold len in Hgt2. rewrite Hgt2. reflexivity.
  Qed.

  (** ** shape of a returned page *)
  Notation keep_first := (keep_first E).
  Notation keep_last := (keep_last E).

  Definition sliced (R : list E) (first last : option Z) : list E :=
    let e1 := match first with Some n => keep_first n R | None => R end in
    match last with Some m => keep_last m e1 | None => e1 end.

  Lemma ret_inv edges S after before first last page pi :
    connection_of edges S ->
    edges_to_return edges after before first last = Ret (page, pi) ->
    (forall n, first = Some n -> 0 <= n) /\ (forall m, last = Some m -> 0 <= m) /\
    page = sliced (range S before after) first last.
  Proof.
    intros HC HR. pose proof (edges_eq edges S after before first last HC) as H. rewrite HR in H.
    unfold RelaySpec.spec_edges, slice_edges, sliced in *.
    destruct first as [n|], last as [m|];
      repeat match type of H with context [?x <? 0] => destruct (x <? 0) eqn:? end;
      try discriminate; inversion H; subst;
      (split; [intros ? Hq; inversion Hq; subst; lia | split; [intros ? Hq; inversion Hq; subst; lia | reflexivity]]).
  Qed.

  Lemma keep_first_incl n (l : list E) : incl (keep_first n l) l.
  Proof. unfold RelaySpec.keep_first. destruct (_ >? _); [apply firstn_incl | apply incl_refl]. Qed.

  Lemma keep_last_incl n (l : list E) : incl (keep_last n l) l.
  Proof.
    unfold RelaySpec.keep_last. destruct (_ >? _); [|apply incl_refl].
    rewrite lastn_skipn. apply skipn_incl.
  Qed.

  Lemma keep_first_ordered n l : ordered l -> ordered (keep_first n l).
  Proof. unfold RelaySpec.keep_first. intro H. destruct (_ >? _); [apply SSorted_firstn|]; exact H. Qed.

  Lemma keep_last_ordered n l : ordered l -> ordered (keep_last n l).
  Proof.
    unfold RelaySpec.keep_last. intro H. destruct (_ >? _); [|exact H].
    rewrite lastn_skipn. apply SSorted_skipn. exact H.
  Qed.

  Lemma range_ordered S after before : ordered S -> ordered (range S before after).
  Proof. apply SSorted_filter. Qed.

  Lemma range_In S after before e :
    In e (range S before after) <-> In e S /\ in_range after before (cur e) = true.
  Proof. apply filter_In. Qed.

  Lemma sliced_incl R first last : incl (sliced R first last) R.
  Proof.
    unfold sliced. destruct first as [n|], last as [m|]; try apply incl_refl;
      try (eapply incl_tran; [apply keep_last_incl|]); try apply keep_first_incl; apply incl_refl.
  Qed.

  (** in cursor order *)
  Theorem page_sorted edges S after before first last page pi :
    connection_of edges S ->
    edges_to_return edges after before first last = Ret (page, pi) -> ordered page.
  Proof.
    intros HC HR. destruct (ret_inv _ _ _ _ _ _ _ _ HC HR) as [_ [_ ->]].
    pose proof (range_ordered S after before (proj2 HC)) as Ho. unfold sliced.
    destruct first as [n|], last as [m|]; auto using keep_first_ordered, keep_last_ordered.
  Qed.

  (** startCursor / endCursor = cursor of the first / last returned edge *)
  Theorem page_cursors edges after before first last page pi :
    edges_to_return edges after before first last = Ret (page, pi) ->
    pi_start pi = option_map cur (hd_error page) /\ pi_end pi = option_map cur (last_error page).
  Proof.
    unfold RelayModel.edges_to_return.
    destruct (apply_cursors_to_edges C E ltb cur edges after before) as [[f hp] hn].
    destruct (cut_first E _ first hn) as [[e1 next]|]; [|discriminate].
    destruct (cut_last E e1 last hp) as [[e2 prev]|]; [|discriminate].
    intro H. inversion H; subst. simpl. split; reflexivity.
  Qed.

  (** ** page-info flags *)
  Notation has_next_required := (has_next_required C E ltb cur).
  Notation has_next_allowed := (has_next_allowed C E ltb cur).
  Notation has_prev_required := (has_prev_required C E ltb cur).
  Notation has_prev_allowed := (has_prev_allowed C E ltb cur).

  Lemma flags_closed edges S after before first last page pi :
    connection_of edges S ->
    edges_to_return edges after before first last = Ret (page, pi) ->
    let R := range S before after in
    pi_next pi = match first with Some n => count_gt E R n | None => had_next S before end /\
    pi_prev pi = match last with
                 | Some m => count_gt E (match first with Some n => keep_first n R | None => R end) m
                 | None => had_prev S after before
                 end.
  Proof.
    intros HC HR. pose proof HR as HR'. rewrite (edges_to_return_closed _ _ _ _ _ _ HC) in HR'. cbv zeta in *.
    set (R := range S before after) in *.
    unfold cut_first, cut_last, count_gt, RelaySpec.keep_first in *. fold (len R) in *.
    destruct first as [n|].
    - destruct (len R >? n) eqn:Hgt.
      + destruct (n <? 0); [discriminate|].
        destruct last as [m|].
        * fold (len (firstn (Z.to_nat n) R)). destruct (len (firstn (Z.to_nat n) R) >? m); [destruct (m <? 0); [discriminate|]|];
            inversion HR'; subst; simpl; split; reflexivity.
        * inversion HR'; subst; simpl; split; reflexivity.
      + destruct last as [m|].
        * fold (len R). destruct (len R >? m); [destruct (m <? 0); [discriminate|]|];
            inversion HR'; subst; simpl; split; reflexivity.
        * inversion HR'; subst; simpl; split; reflexivity.
    - destruct last as [m|].
      + fold (len R). destruct (len R >? m); [destruct (m <? 0); [discriminate|]|];
          inversion HR'; subst; simpl; split; reflexivity.
      + inversion HR'; subst; simpl; split; reflexivity.
  Qed.

  Lemma had_next_allowed S before : had_next S before =
    match before with Some b => existsb (fun e => negb (ltb (cur e) b)) S | None => false end.
  Proof.
    unfold had_next, at_or_after_before. destruct before as [b|]; [reflexivity|].
    induction S as [|e r IH]; simpl; [reflexivity | exact IH].
  Qed.

  (** hasNextPage is true whenever the specification requires it ... *)
  Theorem has_next_required_holds edges S after before first last page pi :
    connection_of edges S ->
    edges_to_return edges after before first last = Ret (page, pi) ->
    has_next_required S before after first = true -> pi_next pi = true.
  Proof.
    intros HC HR. destruct (flags_closed _ _ _ _ _ _ _ _ HC HR) as [Hn _]. rewrite Hn.
    unfold RelaySpec.has_next_required. destruct first; [auto | discriminate].
  Qed.

  (** ... and only when the specification allows it *)
  Theorem has_next_allowed_holds edges S after before first last page pi :
    connection_of edges S ->
    edges_to_return edges after before first last = Ret (page, pi) ->
    pi_next pi = true -> has_next_allowed S before after first = true.
  Proof.
    intros HC HR. destruct (flags_closed _ _ _ _ _ _ _ _ HC HR) as [Hn _]. rewrite Hn.
    unfold RelaySpec.has_next_allowed. destruct first; [auto|]. rewrite had_next_allowed. auto.
  Qed.

  Theorem has_prev_required_holds edges S after before first last page pi :
    connection_of edges S ->
    edges_to_return edges after before first last = Ret (page, pi) ->
    both_given first last = false ->
    has_prev_required S before after last = true -> pi_prev pi = true.
  Proof.
    intros HC HR Hb. destruct (flags_closed _ _ _ _ _ _ _ _ HC HR) as [_ Hp]. rewrite Hp.
    unfold RelaySpec.has_prev_required. destruct last; [|discriminate].
    destruct first; [discriminate|]. auto.
  Qed.

  Theorem has_prev_allowed_holds edges S after before first last page pi :
    connection_of edges S ->
    edges_to_return edges after before first last = Ret (page, pi) ->
    pi_prev pi = true -> has_prev_allowed S before after last = true.
  Proof.
    intros HC HR. destruct (flags_closed _ _ _ _ _ _ _ _ HC HR) as [_ Hp]. rewrite Hp.
    unfold RelaySpec.has_prev_allowed. destruct last as [m|].
    - destruct first as [n|]; [|auto]. unfold count_gt. intro H.
      pose proof (firstn_le_length (Z.to_nat n) (range S before after)) as Hl.
      unfold RelaySpec.keep_first in H. destruct (_ >? n) eqn:Hgt; [|exact H].
      rewrite firstn_length in H. lia.
    - unfold had_prev, at_or_before_after. destruct after as [a|].
      + apply existsb_impl. intros x _ H. apply andb_true_iff in H. tauto.
      + intro H. apply existsb_exists in H as [x [_ H]]. rewrite andb_false_r in H. discriminate.
  Qed.

  (** never true when no further edge exists in that direction *)
  Theorem has_next_sound edges S after before first last page pi :
    connection_of edges S ->
    edges_to_return edges after before first last = Ret (page, pi) ->
    pi_next pi = true -> edge_beyond_end C E ltb cur edges page.
  Proof.
    intros HC HR Hnext. destruct (flags_closed _ _ _ _ _ _ _ _ HC HR) as [Hn _]. rewrite Hn in Hnext. clear Hn.
    destruct (ret_inv _ _ _ _ _ _ _ _ HC HR) as [Hf [_ Hpage]].
    pose proof (range_ordered S after before (proj2 HC)) as Ho.
    set (R := range S before after) in *.
    destruct first as [n|].
    - (* more than n edges in range: the (n+1)-th is beyond the page *)
      pose proof (Hf n eq_refl) as Hn0. unfold count_gt in Hnext.
      assert (Hsub : incl page (firstn (Z.to_nat n) R)).
      { subst page. unfold sliced, RelaySpec.keep_first. rewrite Hnext.
        destruct last; [apply keep_last_incl | apply incl_refl]. }
      pose proof (firstn_skipn (Z.to_nat n) R) as Hsplit.
      destruct (skipn (Z.to_nat n) R) as [|e t] eqn:Hsk.
      { exfalso. pose proof (skipn_length (Z.to_nat n) R) as Hl. rewrite Hsk in Hl. simpl in Hl. lia. }
      rewrite <- Hsplit in Ho. apply (SSorted_app_inv E lt_e) in Ho as [_ [_ Hlt]].
      assert (HeR : In e R). { rewrite <- Hsplit. apply in_or_app. right. left. reflexivity. }
      exists e. split; [|split].
      + apply (connection_In _ _ HC). apply range_In in HeR. tauto.
      + intro Hin. pose proof (Hlt e e (Hsub e Hin) (or_introl eq_refl)) as Hc. simpl in Hc.
        rewrite ltb_irrefl in Hc. discriminate.
      + intros p Hp. apply (Hlt p e (Hsub p Hp) (or_introl eq_refl)).
    - (* an edge at or after [before] *)
      rewrite had_next_allowed in Hnext. destruct before as [b|]; [|discriminate].
      apply existsb_exists in Hnext as [e [HeS Heb]]. apply negb_true_iff in Heb.
      assert (Hsub : incl page R) by (subst page; apply sliced_incl).
      assert (HRb : forall p, In p R -> ltb (cur p) b = true).
      { intros p Hp. apply range_In in Hp as [_ Hp]. unfold RelaySpec.in_range in Hp. apply andb_true_iff in Hp. tauto. }
      exists e. split; [|split].
      + apply (connection_In _ _ HC). exact HeS.
      + intro Hin. rewrite (HRb e (Hsub e Hin)) in Heb. discriminate.
      + intros p Hp. eapply lt_le_trans; [apply HRb, Hsub, Hp | exact Heb].
  Qed.

  Theorem has_prev_sound edges S after before first last page pi :
    connection_of edges S ->
    edges_to_return edges after before first last = Ret (page, pi) ->
    pi_prev pi = true -> edge_before_start C E ltb cur edges page.
  Proof.
    intros HC HR Hprev. destruct (flags_closed _ _ _ _ _ _ _ _ HC HR) as [_ Hp]. rewrite Hp in Hprev. clear Hp.
    destruct (ret_inv _ _ _ _ _ _ _ _ HC HR) as [_ [Hl Hpage]].
    pose proof (range_ordered S after before (proj2 HC)) as Ho.
    set (R := range S before after) in *.
    destruct last as [m|].
    - (* more than m edges before the cut: the first of them is before the page *)
      pose proof (Hl m eq_refl) as Hm0.
      set (e1 := match first with Some n => keep_first n R | None => R end) in *.
      assert (Ho1 : ordered e1) by (subst e1; destruct first; [apply keep_first_ordered|]; exact Ho).
      assert (Hsub1 : incl e1 R) by (subst e1; destruct first; [apply keep_first_incl | apply incl_refl]).
      unfold count_gt in Hprev.
      assert (Hpg : page = skipn (length e1 - Z.to_nat m) e1).
      { subst page. unfold sliced. fold e1. apply keep_last_skipn; [exact Hm0 | exact Hprev]. }
      destruct e1 as [|e t] eqn:He1; [simpl in Hprev; lia|].
      assert (Hk : (length (e :: t) - Z.to_nat m = Datatypes.S (length t - Z.to_nat m))%nat) by (simpl length in *; lia).
      rewrite Hk in Hpg. simpl in Hpg.
      apply StronglySorted_inv in Ho1 as [_ Hlt]. rewrite Forall_forall in Hlt.
      assert (Hsub : incl page t) by (rewrite Hpg; apply skipn_incl).
      exists e. split; [|split].
      + apply (connection_In _ _ HC). pose proof (Hsub1 e (or_introl eq_refl)) as HeR. apply range_In in HeR. tauto.
      + intro Hin. pose proof (Hlt e (Hsub e Hin)) as Hc. simpl in Hc. rewrite ltb_irrefl in Hc. discriminate.
      + intros p Hpp. apply (Hlt p (Hsub p Hpp)).
    - (* an edge at or before [after] *)
      unfold had_prev in Hprev. apply existsb_exists in Hprev as [e [HeS Hea]].
      apply andb_true_iff in Hea as [_ Hea]. unfold at_or_before_after in Hea.
      destruct after as [a|]; [|discriminate]. apply negb_true_iff in Hea.
      assert (Hsub : incl page R) by (subst page; apply sliced_incl).
      assert (HRa : forall p, In p R -> ltb a (cur p) = true).
      { intros p Hp. apply range_In in Hp as [_ Hp]. unfold RelaySpec.in_range in Hp. apply andb_true_iff in Hp. tauto. }
      exists e. split; [|split].
      + apply (connection_In _ _ HC). exact HeS.
      + intro Hin. rewrite (HRa e (Hsub e Hin)) in Hea. discriminate.
      + intros p Hpp. eapply le_lt_trans; [exact Hea | apply HRa, Hsub, Hpp].
  Qed.
End Proofs.
