(** * Relay/RelayProofs.v — pagination.EdgesToReturn (model) refines the Relay algorithms (spec).

    Hypotheses of the section: [ltb] is a strict total order on cursors (irreflexive, transitive,
    trichotomous).  The edge list handed to the code is any list [edges]; "the connection" is any
    strictly increasing permutation [S] of it ([connection_of edges S]; its existence says that
    the cursors are distinct). *)
From Coq Require Import List Arith ZArith Bool Lia ZifyBool Sorting.Sorted Sorting.Permutation.
From ApiFu Require Import Base.Sexp Relay.RelayOrder Relay.RelayModel Relay.RelaySpec.
Import ListNotations.
Open Scope Z_scope.

Section Proofs.
  Variables C E : Type.
  Variable ltb : C -> C -> bool.
  Variable cur : E -> C.

  Hypothesis ltb_irrefl : forall a, ltb a a = false.
  Hypothesis ltb_trans : forall a b c, ltb a b = true -> ltb b c = true -> ltb a c = true.
  Hypothesis ltb_total : forall a b, ltb a b = true \/ a = b \/ ltb b a = true.

  Notation lt_e := (fun x y : E => ltb (cur x) (cur y) = true).
  Notation ordered := (ordered C E ltb cur).
  Notation connection_of := (connection_of C E ltb cur).
  Notation in_range := (in_range C ltb).
  Notation range := (position_apply_cursors C E ltb cur).

  (** ** the order *)
  Lemma ltb_asym a b : ltb a b = true -> ltb b a = true -> False.
  Proof. intros H1 H2. pose proof (ltb_trans _ _ _ H1 H2) as H. rewrite ltb_irrefl in H. discriminate. Qed.

  Lemma lt_e_asym : forall x y : E, lt_e x y -> lt_e y x -> False.
  Proof. intros x y. apply ltb_asym. Qed.

  Lemma ceqb_eq a b : ceqb C ltb a b = true <-> a = b.
  Proof.
    unfold ceqb. split.
    - intro H. apply andb_true_iff in H as [H1 H2]. apply negb_true_iff in H1, H2.
      destruct (ltb_total a b) as [H|[H|H]]; congruence.
    - intros ->. rewrite ltb_irrefl. reflexivity.
  Qed.

  (** a < b, not (c < b)  ->  a < c *)
  Lemma lt_le_trans a b c : ltb a b = true -> ltb c b = false -> ltb a c = true.
  Proof.
    intros H1 H2. destruct (ltb_total a c) as [H|[H|H]]; [exact H | subst c; congruence |].
    rewrite (ltb_trans _ _ _ H H1) in H2. discriminate.
  Qed.

  (** not (b < a), b < c  ->  a < c *)
  Lemma le_lt_trans a b c : ltb b a = false -> ltb b c = true -> ltb a c = true.
  Proof.
    intros H1 H2. destruct (ltb_total a c) as [H|[H|H]]; [exact H | subst c; congruence |].
    rewrite (ltb_trans _ _ _ H2 H) in H1. discriminate.
  Qed.

  Lemma le_trans a b c : ltb b a = false -> ltb c b = false -> ltb c a = false.
  Proof.
    intros H1 H2. destruct (ltb c a) eqn:H; [|reflexivity].
    destruct (ltb_total a b) as [Hab|[Hab|Hab]]; [| subst b; congruence | congruence].
    rewrite (ltb_trans _ _ _ H Hab) in H2. discriminate.
  Qed.

  (** ** connections *)
  Lemma ordered_NoDup_cur S : ordered S -> NoDup (map cur S).
  Proof.
    induction 1 as [|a l Hs IH Hf]; simpl; constructor; [|exact IH].
    intro Hin. apply in_map_iff in Hin as [x [Hx Hin]]. rewrite Forall_forall in Hf.
    pose proof (Hf x Hin) as H. simpl in H. rewrite Hx, ltb_irrefl in H. discriminate.
  Qed.

  Lemma connection_NoDup_cur edges S : connection_of edges S -> NoDup (map cur edges).
  Proof.
    intros [HP Ho]. eapply Permutation_NoDup; [apply Permutation_map; exact HP|]. apply ordered_NoDup_cur. exact Ho.
  Qed.

  Lemma connection_In edges S : connection_of edges S -> forall e, In e S <-> In e edges.
  Proof.
    intros [HP _] e. split; intro H; [eapply Permutation_in | eapply Permutation_in; [apply Permutation_sym|]]; eassumption.
  Qed.

  Lemma connection_length edges S : connection_of edges S -> length S = length edges.
  Proof. intros [HP _]. apply Permutation_length. exact HP. Qed.

  (** ** sort.Slice: insertion sort yields the connection *)
  Notation insert := (insert C E ltb cur).
  Notation isort := (isort C E ltb cur).
  Notation le_e := (fun x y : E => ltb (cur y) (cur x) = false).

  Lemma insert_perm x l : Permutation (insert x l) (x :: l).
  Proof.
    induction l as [|y r IH]; simpl; [apply Permutation_refl|].
    destruct (ltb (cur y) (cur x)); [|apply Permutation_refl].
    eapply Permutation_trans; [apply perm_skip; exact IH | apply perm_swap].
  Qed.

  Lemma isort_perm l : Permutation (isort l) l.
  Proof.
    induction l as [|x r IH]; simpl; [constructor|].
    eapply Permutation_trans; [apply insert_perm | apply perm_skip; exact IH].
  Qed.

  Lemma insert_le_sorted x l : StronglySorted le_e l -> StronglySorted le_e (insert x l).
  Proof.
    induction 1 as [|y r Hs IH Hf]; simpl; [constructor; constructor|].
    destruct (ltb (cur y) (cur x)) eqn:Hyx.
    - constructor; [exact IH|]. rewrite Forall_forall in *. intros z Hz.
      apply (Permutation_in _ (insert_perm x r)) in Hz. destruct Hz as [Hz|Hz].
      + subst z. destruct (ltb (cur x) (cur y)) eqn:Hxy; [|reflexivity]. exfalso. eapply ltb_asym; eassumption.
      + apply Hf. exact Hz.
    - constructor; [constructor; assumption|]. constructor; [exact Hyx|].
      rewrite Forall_forall in *. intros z Hz. eapply le_trans; [exact Hyx | apply Hf; exact Hz].
  Qed.

  Lemma isort_le_sorted l : StronglySorted le_e (isort l).
  Proof. induction l as [|x r IH]; simpl; [constructor | apply insert_le_sorted; exact IH]. Qed.

  Lemma le_sorted_ordered l : StronglySorted le_e l -> NoDup (map cur l) -> ordered l.
  Proof.
    induction 1 as [|a l Hs IH Hf]; simpl; intro Hnd; [constructor|].
    inversion Hnd as [|? ? Hni Hnd']; subst. constructor; [apply IH; exact Hnd'|].
    rewrite Forall_forall in *. intros x Hx. pose proof (Hf x Hx) as Hle. simpl in Hle.
    destruct (ltb_total (cur a) (cur x)) as [H|[H|H]]; [exact H | | congruence].
    exfalso. apply Hni. rewrite H. apply in_map. exact Hx.
  Qed.

  Lemma isort_ordered l : NoDup (map cur l) -> ordered (isort l).
  Proof.
    intro H. apply le_sorted_ordered; [apply isort_le_sorted|].
    eapply Permutation_NoDup; [apply Permutation_map, Permutation_sym, isort_perm | exact H].
  Qed.

  (** sorting a filtered edge list = filtering the connection *)
  Lemma isort_filter edges S p : connection_of edges S -> isort (filter p edges) = filter p S.
  Proof.
    intros HC. pose proof HC as [HP Ho].
    apply (SSorted_perm_unique E lt_e lt_e_asym).
    - apply isort_ordered. pose proof (connection_NoDup_cur _ _ HC) as Hnd.
      clear - Hnd. induction edges as [|x r IH]; simpl; [constructor|].
      inversion Hnd as [|? ? Hni Hnd']; subst. destruct (p x); [|apply IH; exact Hnd'].
      simpl. constructor; [|apply IH; exact Hnd'].
      intro Hin. apply Hni. apply in_map_iff in Hin as [y [Hy Hin]]. apply in_map_iff. exists y.
      split; [exact Hy|]. apply filter_In in Hin. tauto.
    - apply SSorted_filter. exact Ho.
    - eapply Permutation_trans; [apply isort_perm|]. apply Permutation_filter_local. apply Permutation_sym. exact HP.
  Qed.

  (** ** ApplyCursorsToEdges *)
  Definition at_or_after_before (before : option C) (e : E) : bool :=
    match before with Some b => negb (ltb (cur e) b) | None => false end.
  Definition at_or_before_after (after : option C) (e : E) : bool :=
    match after with Some a => negb (ltb a (cur e)) | None => false end.

  Lemma apply_loop_spec edges after before :
    apply_loop C E ltb cur edges after before =
    (filter (fun e => in_range after before (cur e)) edges,
     existsb (fun e => negb (at_or_after_before before e) && at_or_before_after after e) edges,
     existsb (at_or_after_before before) edges).
  Proof.
    induction edges as [|e r IH]; simpl; [reflexivity|]. rewrite IH. clear IH.
    unfold RelaySpec.in_range, at_or_after_before, at_or_before_after.
    destruct before as [b|], after as [a|]; simpl;
      repeat match goal with |- context [ltb ?x ?y] => destruct (ltb x y) eqn:? end; simpl;
      rewrite ?orb_true_r; reflexivity.
  Qed.

  Lemma apply_cursors_to_edges_spec edges after before :
    apply_cursors_to_edges C E ltb cur edges after before =
    (filter (fun e => in_range after before (cur e)) edges,
     existsb (fun e => negb (at_or_after_before before e) && at_or_before_after after e) edges,
     existsb (at_or_after_before before) edges).
  Proof.
    unfold apply_cursors_to_edges. destruct after as [a|], before as [b|]; try apply apply_loop_spec.
    unfold RelaySpec.in_range, at_or_after_before, at_or_before_after. simpl.
    rewrite filter_all_true by reflexivity.
    f_equal; [f_equal|]; symmetry; (induction edges as [|e r IH]; simpl; [reflexivity | exact IH]).
  Qed.

  (** ** the Relay text on the connection: removing "before and including afterEdge" is keeping the
      edges after the position *)
  Lemma remove_through_spec a S : ordered S ->
    remove_through C E ltb cur a S =
    if existsb (fun e => ceqb C ltb (cur e) a) S then Some (filter (fun e => ltb a (cur e)) S) else None.
  Proof.
    induction 1 as [|e r Hs IH Hf]; simpl; [reflexivity|].
    destruct (ceqb C ltb (cur e) a) eqn:He; simpl.
    - apply ceqb_eq in He. subst a. rewrite ltb_irrefl. f_equal. symmetry. apply filter_all_true.
      rewrite Forall_forall in Hf. exact Hf.
    - rewrite IH. destruct (existsb (fun e0 => ceqb C ltb (cur e0) a) r) eqn:Hex; [|reflexivity].
      apply existsb_exists in Hex as [x [Hx Hxa]]. apply ceqb_eq in Hxa. subst a.
      rewrite Forall_forall in Hf. pose proof (Hf x Hx) as Hlt. simpl in Hlt.
      destruct (ltb (cur x) (cur e)) eqn:Hxe; [exfalso; eapply ltb_asym; eassumption | reflexivity].
  Qed.

  Lemma keep_until_spec b S : ordered S ->
    keep_until C E ltb cur b S =
    if existsb (fun e => ceqb C ltb (cur e) b) S then Some (filter (fun e => ltb (cur e) b) S) else None.
  Proof.
    induction 1 as [|e r Hs IH Hf]; simpl; [reflexivity|].
    destruct (ceqb C ltb (cur e) b) eqn:He; simpl.
    - apply ceqb_eq in He. subst b. rewrite ltb_irrefl. f_equal. symmetry. apply filter_all_false.
      rewrite Forall_forall in Hf. intros x Hx. pose proof (Hf x Hx) as Hlt. simpl in Hlt.
      destruct (ltb (cur x) (cur e)) eqn:Hxe; [exfalso; eapply ltb_asym; eassumption | reflexivity].
    - rewrite IH. destruct (existsb (fun e0 => ceqb C ltb (cur e0) b) r) eqn:Hex; [|reflexivity].
      apply existsb_exists in Hex as [x [Hx Hxb]]. apply ceqb_eq in Hxb. subst b.
      rewrite Forall_forall in Hf. rewrite (Hf x Hx). reflexivity.
  Qed.

  Definition is_cursor_of (S : list E) (c : option C) : Prop :=
    match c with Some a => exists e, In e S /\ cur e = a | None => True end.

  (** the literal Relay algorithm and the position reading agree when the cursors are cursors of
      edges and after < before *)
  Theorem relay_literal_agrees S after before :
    ordered S -> is_cursor_of S after -> is_cursor_of S before ->
    (forall a b, after = Some a -> before = Some b -> ltb a b = true) ->
    relay_apply_cursors C E ltb cur S before after = range S before after.
  Proof.
    intros Ho Ha Hb Hab. unfold relay_apply_cursors, position_apply_cursors, RelaySpec.in_range.
    assert (Hmem : forall c, is_cursor_of S (Some c) -> existsb (fun e => ceqb C ltb (cur e) c) S = true).
    { intros c [e [He Hc]]. apply existsb_exists. exists e. split; [exact He|]. apply ceqb_eq. exact Hc. }
    destruct after as [a|], before as [b|]; simpl.
    - rewrite (remove_through_spec a S Ho), (Hmem a Ha).
      rewrite keep_until_spec by (apply SSorted_filter; exact Ho).
      assert (Hex : existsb (fun e => ceqb C ltb (cur e) b) (filter (fun e => ltb a (cur e)) S) = true).
      { destruct Hb as [e [He Hc]]. apply existsb_exists. exists e. split; [|apply ceqb_eq; exact Hc].
        apply filter_In. split; [exact He|]. rewrite Hc. apply Hab; reflexivity. }
      rewrite Hex. clear. induction S as [|e r IH]; simpl; [reflexivity|].
      destruct (ltb a (cur e)); simpl; [destruct (ltb (cur e) b)|]; rewrite IH; reflexivity.
    - rewrite (remove_through_spec a S Ho), (Hmem a Ha).
      apply filter_ext_in_local. intros x _. rewrite andb_true_r. reflexivity.
    - rewrite (keep_until_spec b S Ho), (Hmem b Hb). reflexivity.
    - symmetry. apply filter_all_true. reflexivity.
  Qed.

  (** ** EdgesToReturn *)
  Notation edges_to_return := (edges_to_return C E ltb cur).
  Notation spec_edges := (spec_edges C E ltb cur).

  (** the flags ApplyCursorsToEdges computes, over the connection *)
  Definition had_prev S after before : bool :=
    existsb (fun e => negb (at_or_after_before before e) && at_or_before_after after e) S.
  Definition had_next S before : bool := existsb (at_or_after_before before) S.

  (** EdgesToReturn in closed form: slices of the range of the connection *)
  Lemma edges_to_return_closed edges S after before first last :
    connection_of edges S ->
    edges_to_return edges after before first last =
    let R := range S before after in
    match cut_first E R first (had_next S before) with
    | Panic => Panic
    | Ret (e1, next) =>
        match cut_last E e1 last (had_prev S after before) with
        | Panic => Panic
        | Ret (e2, prev) =>
            Ret (e2, {| pi_prev := prev; pi_next := next;
                        pi_start := option_map cur (hd_error e2); pi_end := option_map cur (last_error e2) |})
        end
    end.
  Proof.
    intro HC. unfold RelayModel.edges_to_return. rewrite apply_cursors_to_edges_spec.
    rewrite (isort_filter edges S _ HC). unfold had_next, had_prev.
    destruct HC as [HP _].
    rewrite (existsb_Permutation E (at_or_after_before before) S edges HP).
    rewrite (existsb_Permutation E (fun e => negb (at_or_after_before before e) && at_or_before_after after e) S edges HP).
    reflexivity.
  Qed.

  Lemma keep_last_skipn (l : list E) n : 0 <= n -> len l >? n = true ->
    keep_last E n l = skipn (length l - Z.to_nat n) l.
  Proof.
    intros Hn Hl. unfold keep_last. unfold len in Hl. rewrite Hl. apply lastn_skipn.
  Qed.

  (** returned edges = the specification's, for every combination of arguments; the Go panic on a
      negative count is the specification's "throw an error" *)
  Theorem edges_eq edges S after before first last :
    connection_of edges S ->
    match edges_to_return edges after before first last with
    | Ret (page, _) => spec_edges S before after first last = Some page
    | Panic => spec_edges S before after first last = None
    end.
  Proof.
    intro HC. rewrite (edges_to_return_closed _ _ _ _ _ _ HC). cbv zeta.
    unfold RelaySpec.spec_edges, slice_edges. set (R := range S before after).
    unfold cut_first, cut_last, keep_first. fold (len R).
    destruct first as [n|].
    - destruct (n <? 0) eqn:Hn0.
      + assert (Hgt : len R >? n = true) by (unfold len; lia). rewrite Hgt. reflexivity.
      + destruct (len R >? n) eqn:Hgt.
        * destruct last as [m|]; [|reflexivity].
          destruct (m <? 0) eqn:Hm0.
          -- assert (Hgt2 : len (firstn (Z.to_nat n) R) >? m = true) by (unfold len; lia). rewrite Hgt2. reflexivity.
          -- destruct (len (firstn (Z.to_nat n) R) >? m) eqn:Hgt2.
             ++ rewrite keep_last_skipn by lia. reflexivity.
             ++ unfold keep_last. unfold len in Hgt2. rewrite Hgt2. reflexivity.
        * destruct last as [m|]; [|reflexivity].
          destruct (m <? 0) eqn:Hm0.
          -- assert (Hgt2 : len R >? m = true) by (unfold len; lia). rewrite Hgt2. reflexivity.
          -- destruct (len R >? m) eqn:Hgt2.
             ++ rewrite keep_last_skipn by lia. reflexivity.
             ++ unfold keep_last. unfold len in Hgt2. rewrite Hgt2. reflexivity.
    - destruct last as [m|]; [|reflexivity].
      destruct (m <? 0) eqn:Hm0.
      + assert (Hgt2 : len R >? m = true) by (unfold len; lia). rewrite Hgt2. reflexivity.
      + destruct (len R >? m) eqn:Hgt2.
        * rewrite keep_last_skipn by lia. reflexivity.
        * unfold keep_last. unfold len in Hgt2. rewrite Hgt2. reflexivity.
  Qed.

  (** ** shape of a returned page *)
  Notation keep_first := (keep_first E).
  Notation keep_last := (keep_last E).

  Definition sliced (R : list E) (first last : option Z) : list E :=
    let e1 := match first with Some n => keep_first n R | None => R end in
    match last with Some m => keep_last m e1 | None => e1 end.

  Lemma ret_inv edges S after before first last page pi :
    connection_of edges S ->
    edges_to_return edges after before first last = Ret (page, pi) ->
    (forall n, first = Some n -> 0 <= n) /\ (forall m, last = Some m -> 0 <= m) /\
    page = sliced (range S before after) first last.
  Proof.
    intros HC HR. pose proof (edges_eq edges S after before first last HC) as H. rewrite HR in H.
    unfold RelaySpec.spec_edges, slice_edges, sliced in *.
    destruct first as [n|], last as [m|];
      repeat match type of H with context [?x <? 0] => destruct (x <? 0) eqn:? end;
      try discriminate; inversion H; subst;
      (split; [intros ? Hq; inversion Hq; subst; lia | split; [intros ? Hq; inversion Hq; subst; lia | reflexivity]]).
  Qed.

  Lemma keep_first_incl n (l : list E) : incl (keep_first n l) l.
  Proof. unfold RelaySpec.keep_first. destruct (_ >? _); [apply firstn_incl | apply incl_refl]. Qed.

  Lemma keep_last_incl n (l : list E) : incl (keep_last n l) l.
  Proof.
    unfold RelaySpec.keep_last. destruct (_ >? _); [|apply incl_refl].
    rewrite lastn_skipn. apply skipn_incl.
  Qed.

  Lemma keep_first_ordered n l : ordered l -> ordered (keep_first n l).
  Proof. unfold RelaySpec.keep_first. intro H. destruct (_ >? _); [apply SSorted_firstn|]; exact H. Qed.

  Lemma keep_last_ordered n l : ordered l -> ordered (keep_last n l).
  Proof.
    unfold RelaySpec.keep_last. intro H. destruct (_ >? _); [|exact H].
    rewrite lastn_skipn. apply SSorted_skipn. exact H.
  Qed.

  Lemma range_ordered S after before : ordered S -> ordered (range S before after).
  Proof. apply SSorted_filter. Qed.

  Lemma range_In S after before e :
    In e (range S before after) <-> In e S /\ in_range after before (cur e) = true.
  Proof. apply filter_In. Qed.

  Lemma sliced_incl R first last : incl (sliced R first last) R.
  Proof.
    unfold sliced. destruct first as [n|], last as [m|]; try apply incl_refl;
      try (eapply incl_tran; [apply keep_last_incl|]); try apply keep_first_incl; apply incl_refl.
  Qed.

  (** in cursor order *)
  Theorem page_sorted edges S after before first last page pi :
    connection_of edges S ->
    edges_to_return edges after before first last = Ret (page, pi) -> ordered page.
  Proof.
    intros HC HR. destruct (ret_inv _ _ _ _ _ _ _ _ HC HR) as [_ [_ ->]].
    pose proof (range_ordered S after before (proj2 HC)) as Ho. unfold sliced.
    destruct first as [n|], last as [m|]; auto using keep_first_ordered, keep_last_ordered.
  Qed.

  (** startCursor / endCursor = cursor of the first / last returned edge *)
  Theorem page_cursors edges after before first last page pi :
    edges_to_return edges after before first last = Ret (page, pi) ->
    pi_start pi = option_map cur (hd_error page) /\ pi_end pi = option_map cur (last_error page).
  Proof.
    unfold RelayModel.edges_to_return.
    destruct (apply_cursors_to_edges C E ltb cur edges after before) as [[f hp] hn].
    destruct (cut_first E _ first hn) as [[e1 next]|]; [|discriminate].
    destruct (cut_last E e1 last hp) as [[e2 prev]|]; [|discriminate].
    intro H. inversion H; subst. simpl. split; reflexivity.
  Qed.

  (** ** page-info flags *)
  Notation has_next_required := (has_next_required C E ltb cur).
  Notation has_next_allowed := (has_next_allowed C E ltb cur).
  Notation has_prev_required := (has_prev_required C E ltb cur).
  Notation has_prev_allowed := (has_prev_allowed C E ltb cur).

  Lemma flags_closed edges S after before first last page pi :
    connection_of edges S ->
    edges_to_return edges after before first last = Ret (page, pi) ->
    let R := range S before after in
    pi_next pi = match first with Some n => count_gt E R n | None => had_next S before end /\
    pi_prev pi = match last with
                 | Some m => count_gt E (match first with Some n => keep_first n R | None => R end) m
                 | None => had_prev S after before
                 end.
  Proof.
    intros HC HR. pose proof HR as HR'. rewrite (edges_to_return_closed _ _ _ _ _ _ HC) in HR'. cbv zeta in *.
    set (R := range S before after) in *.
    unfold cut_first, cut_last, count_gt, RelaySpec.keep_first in *. fold (len R) in *.
    destruct first as [n|].
    - destruct (len R >? n) eqn:Hgt.
      + destruct (n <? 0); [discriminate|].
        destruct last as [m|].
        * fold (len (firstn (Z.to_nat n) R)). destruct (len (firstn (Z.to_nat n) R) >? m); [destruct (m <? 0); [discriminate|]|];
            inversion HR'; subst; simpl; split; reflexivity.
        * inversion HR'; subst; simpl; split; reflexivity.
      + destruct last as [m|].
        * fold (len R). destruct (len R >? m); [destruct (m <? 0); [discriminate|]|];
            inversion HR'; subst; simpl; split; reflexivity.
        * inversion HR'; subst; simpl; split; reflexivity.
    - destruct last as [m|].
      + fold (len R). destruct (len R >? m); [destruct (m <? 0); [discriminate|]|];
          inversion HR'; subst; simpl; split; reflexivity.
      + inversion HR'; subst; simpl; split; reflexivity.
  Qed.

  Lemma had_next_allowed S before : had_next S before =
    match before with Some b => existsb (fun e => negb (ltb (cur e) b)) S | None => false end.
  Proof.
    unfold had_next, at_or_after_before. destruct before as [b|]; [reflexivity|].
    induction S as [|e r IH]; simpl; [reflexivity | exact IH].
  Qed.

  (** hasNextPage is true whenever the specification requires it ... *)
  Theorem has_next_required_holds edges S after before first last page pi :
    connection_of edges S ->
    edges_to_return edges after before first last = Ret (page, pi) ->
    has_next_required S before after first = true -> pi_next pi = true.
  Proof.
    intros HC HR. destruct (flags_closed _ _ _ _ _ _ _ _ HC HR) as [Hn _]. rewrite Hn.
    unfold RelaySpec.has_next_required. destruct first; [auto | discriminate].
  Qed.

  (** ... and only when the specification allows it *)
  Theorem has_next_allowed_holds edges S after before first last page pi :
    connection_of edges S ->
    edges_to_return edges after before first last = Ret (page, pi) ->
    pi_next pi = true -> has_next_allowed S before after first = true.
  Proof.
    intros HC HR. destruct (flags_closed _ _ _ _ _ _ _ _ HC HR) as [Hn _]. rewrite Hn.
    unfold RelaySpec.has_next_allowed. destruct first; [auto|]. rewrite had_next_allowed. auto.
  Qed.

  Theorem has_prev_required_holds edges S after before first last page pi :
    connection_of edges S ->
    edges_to_return edges after before first last = Ret (page, pi) ->
    both_given first last = false ->
    has_prev_required S before after last = true -> pi_prev pi = true.
  Proof.
    intros HC HR Hb. destruct (flags_closed _ _ _ _ _ _ _ _ HC HR) as [_ Hp]. rewrite Hp.
    unfold RelaySpec.has_prev_required. destruct last; [|discriminate].
    destruct first; [discriminate|]. auto.
  Qed.

  Theorem has_prev_allowed_holds edges S after before first last page pi :
    connection_of edges S ->
    edges_to_return edges after before first last = Ret (page, pi) ->
    pi_prev pi = true -> has_prev_allowed S before after last = true.
  Proof.
    intros HC HR. destruct (flags_closed _ _ _ _ _ _ _ _ HC HR) as [_ Hp]. rewrite Hp.
    unfold RelaySpec.has_prev_allowed. destruct last as [m|].
    - destruct first as [n|]; [|auto]. unfold count_gt. intro H.
      pose proof (firstn_le_length (Z.to_nat n) (range S before after)) as Hl.
      unfold RelaySpec.keep_first in H. destruct (_ >? n) eqn:Hgt; [|exact H].
      rewrite firstn_length in H. lia.
    - unfold had_prev, at_or_before_after. destruct after as [a|].
      + apply existsb_impl. intros x _ H. apply andb_true_iff in H. tauto.
      + intro H. apply existsb_exists in H as [x [_ H]]. rewrite andb_false_r in H. discriminate.
  Qed.

  (** never true when no further edge exists in that direction *)
  Theorem has_next_sound edges S after before first last page pi :
    connection_of edges S ->
    edges_to_return edges after before first last = Ret (page, pi) ->
    pi_next pi = true -> edge_beyond_end C E ltb cur edges page.
  Proof.
    intros HC HR Hnext. destruct (flags_closed _ _ _ _ _ _ _ _ HC HR) as [Hn _]. rewrite Hn in Hnext. clear Hn.
    destruct (ret_inv _ _ _ _ _ _ _ _ HC HR) as [Hf [_ Hpage]].
    pose proof (range_ordered S after before (proj2 HC)) as Ho.
    set (R := range S before after) in *.
    destruct first as [n|].
    - (* more than n edges in range: the (n+1)-th is beyond the page *)
      pose proof (Hf n eq_refl) as Hn0. unfold count_gt in Hnext.
      assert (Hsub : incl page (firstn (Z.to_nat n) R)).
      { subst page. unfold sliced, RelaySpec.keep_first. rewrite Hnext.
        destruct last; [apply keep_last_incl | apply incl_refl]. }
      pose proof (firstn_skipn (Z.to_nat n) R) as Hsplit.
      destruct (skipn (Z.to_nat n) R) as [|e t] eqn:Hsk.
      { exfalso. pose proof (skipn_length (Z.to_nat n) R) as Hl. rewrite Hsk in Hl. simpl in Hl. lia. }
      rewrite <- Hsplit in Ho. apply (SSorted_app_inv E lt_e) in Ho as [_ [_ Hlt]].
      assert (HeR : In e R). { rewrite <- Hsplit. apply in_or_app. right. left. reflexivity. }
      exists e. split; [|split].
      + apply (connection_In _ _ HC). apply range_In in HeR. tauto.
      + intro Hin. pose proof (Hlt e e (Hsub e Hin) (or_introl eq_refl)) as Hc. simpl in Hc.
        rewrite ltb_irrefl in Hc. discriminate.
      + intros p Hp. apply (Hlt p e (Hsub p Hp) (or_introl eq_refl)).
    - (* an edge at or after [before] *)
      rewrite had_next_allowed in Hnext. destruct before as [b|]; [|discriminate].
      apply existsb_exists in Hnext as [e [HeS Heb]]. apply negb_true_iff in Heb.
      assert (Hsub : incl page R) by (subst page; apply sliced_incl).
      assert (HRb : forall p, In p R -> ltb (cur p) b = true).
      { intros p Hp. apply range_In in Hp as [_ Hp]. unfold RelaySpec.in_range in Hp. apply andb_true_iff in Hp. tauto. }
      exists e. split; [|split].
      + apply (connection_In _ _ HC). exact HeS.
      + intro Hin. rewrite (HRb e (Hsub e Hin)) in Heb. discriminate.
      + intros p Hp. eapply lt_le_trans; [apply HRb, Hsub, Hp | exact Heb].
  Qed.

  Theorem has_prev_sound edges S after before first last page pi :
    connection_of edges S ->
    edges_to_return edges after before first last = Ret (page, pi) ->
    pi_prev pi = true -> edge_before_start C E ltb cur edges page.
  Proof.
    intros HC HR Hprev. destruct (flags_closed _ _ _ _ _ _ _ _ HC HR) as [_ Hp]. rewrite Hp in Hprev. clear Hp.
    destruct (ret_inv _ _ _ _ _ _ _ _ HC HR) as [_ [Hl Hpage]].
    pose proof (range_ordered S after before (proj2 HC)) as Ho.
    set (R := range S before after) in *.
    destruct last as [m|].
    - (* more than m edges before the cut: the first of them is before the page *)
      pose proof (Hl m eq_refl) as Hm0.
      set (e1 := match first with Some n => keep_first n R | None => R end) in *.
      assert (Ho1 : ordered e1) by (subst e1; destruct first; [apply keep_first_ordered|]; exact Ho).
      assert (Hsub1 : incl e1 R) by (subst e1; destruct first; [apply keep_first_incl | apply incl_refl]).
      unfold count_gt in Hprev.
      assert (Hpg : page = skipn (length e1 - Z.to_nat m) e1).
      { subst page. unfold sliced. fold e1. apply keep_last_skipn; [exact Hm0 | exact Hprev]. }
      destruct e1 as [|e t] eqn:He1; [simpl in Hprev; lia|].
      assert (Hk : (length (e :: t) - Z.to_nat m = Datatypes.S (length t - Z.to_nat m))%nat) by (simpl length in *; lia).
      rewrite Hk in Hpg. simpl in Hpg.
      apply StronglySorted_inv in Ho1 as [_ Hlt]. rewrite Forall_forall in Hlt.
      assert (Hsub : incl page t) by (rewrite Hpg; apply skipn_incl).
      exists e. split; [|split].
      + apply (connection_In _ _ HC). pose proof (Hsub1 e (or_introl eq_refl)) as HeR. apply range_In in HeR. tauto.
      + intro Hin. pose proof (Hlt e (Hsub e Hin)) as Hc. simpl in Hc. rewrite ltb_irrefl in Hc. discriminate.
      + intros p Hpp. apply (Hlt p (Hsub p Hpp)).
    - (* an edge at or before [after] *)
      unfold had_prev in Hprev. apply existsb_exists in Hprev as [e [HeS Hea]].
      apply andb_true_iff in Hea as [_ Hea]. unfold at_or_before_after in Hea.
      destruct after as [a|]; [|discriminate]. apply negb_true_iff in Hea.
      assert (Hsub : incl page R) by (subst page; apply sliced_incl).
      assert (HRa : forall p, In p R -> ltb a (cur p) = true).
      { intros p Hp. apply range_In in Hp as [_ Hp]. unfold RelaySpec.in_range in Hp. apply andb_true_iff in Hp. tauto. }
      exists e. split; [|split].
      + apply (connection_In _ _ HC). exact HeS.
      + intro Hin. rewrite (HRa e (Hsub e Hin)) in Hea. discriminate.
      + intros p Hpp. eapply le_lt_trans; [exact Hea | apply HRa, Hsub, Hpp].
  Qed.

  (** ** the limited window: what ResolveEdges(after, before, limit) must at least return *)
  Definition needed (S : list E) (after before : option C) (limit : Z) : list E :=
    let R := range S before after in
    if limit >? 0 then firstn (Z.to_nat limit) R else rev (firstn (Z.to_nat (- limit)) (rev R)).

  (** edges of the connection only, none twice, and at least the first [limit] (last [-limit])
      edges between the cursors — extra edges and any order are fine *)
  Definition window_ok (S : list E) (after before : option C) (limit : Z) (L : list E) : Prop :=
    NoDup (map cur L) /\ incl L S /\ incl (needed S after before limit) L.

  (** the smallest acceptable window is acceptable (so [window_ok] is satisfiable for every
      connection and every request) *)
  Lemma needed_window_ok S after before limit : ordered S ->
    window_ok S after before limit (needed S after before limit).
  Proof.
    intro Ho. pose proof (range_ordered S after before Ho) as HoR.
    assert (Hn : ordered (needed S after before limit) /\ incl (needed S after before limit) (range S before after)).
    { unfold needed. destruct (limit >? 0).
      - split; [apply SSorted_firstn; exact HoR | apply firstn_incl].
      - rewrite lastn_skipn. split; [apply SSorted_skipn; exact HoR | apply skipn_incl]. }
    destruct Hn as [Hon Hin]. split; [apply ordered_NoDup_cur; exact Hon|]. split; [|apply incl_refl].
    intros e He. apply Hin in He. apply range_In in He. tauto.
  Qed.

  Lemma cut_first_shared (R RL : list E) n h1 h2 :
    ordered R -> ordered RL -> incl RL R -> 0 <= n ->
    incl (firstn (Z.to_nat (n + 1)) R) RL ->
    cut_first E RL (Some n) h1 = cut_first E R (Some n) h2.
  Proof.
    intros HoR HoL Hsub Hn Hneed.
    pose proof (SSorted_prefix_shared E lt_e lt_e_asym _ _ _ HoR HoL Hsub Hneed) as Heq.
    assert (Hlen : length (firstn (Z.to_nat (n + 1)) RL) = length (firstn (Z.to_nat (n + 1)) R)) by (rewrite Heq; reflexivity).
    rewrite !firstn_length in Hlen.
    unfold cut_first, len. replace (n <? 0) with false by lia.
    destruct (Z.of_nat (length R) >? n) eqn:HgR.
    - replace (Z.of_nat (length RL) >? n) with true by lia.
      f_equal. f_equal.
      replace (Z.to_nat n) with (Nat.min (Z.to_nat n) (Z.to_nat (n + 1))) by lia.
      rewrite <- !firstn_firstn. rewrite Heq. reflexivity.
    - replace (Z.of_nat (length RL) >? n) with false by lia.
      f_equal. f_equal.
      rewrite <- (firstn_all2 (n:=Z.to_nat (n + 1)) RL) by lia.
      rewrite <- (firstn_all2 (n:=Z.to_nat (n + 1)) R) by lia. exact Heq.
  Qed.

  Lemma cut_last_shared (R RL : list E) m h1 h2 :
    ordered R -> ordered RL -> incl RL R -> 0 <= m ->
    incl (rev (firstn (Z.to_nat (m + 1)) (rev R))) RL ->
    cut_last E RL (Some m) h1 = cut_last E R (Some m) h2.
  Proof.
    intros HoR HoL Hsub Hm Hneed.
    pose proof (SSorted_suffix_shared_rev E lt_e lt_e_asym _ _ _ HoR HoL Hsub Hneed) as Heq.
    assert (Hlen : length (firstn (Z.to_nat (m + 1)) (rev RL)) = length (firstn (Z.to_nat (m + 1)) (rev R))) by (rewrite Heq; reflexivity).
    rewrite !firstn_length, !rev_length in Hlen.
    unfold cut_last, len. replace (m <? 0) with false by lia.
    destruct (Z.of_nat (length R) >? m) eqn:HgR.
    - replace (Z.of_nat (length RL) >? m) with true by lia.
      f_equal. f_equal.
      rewrite <- !lastn_skipn. f_equal.
      replace (Z.to_nat m) with (Nat.min (Z.to_nat m) (Z.to_nat (m + 1))) by lia.
      rewrite <- !firstn_firstn. rewrite Heq. reflexivity.
    - replace (Z.of_nat (length RL) >? m) with false by lia.
      f_equal. f_equal.
      rewrite <- (rev_involutive RL), <- (rev_involutive R). f_equal.
      rewrite <- (firstn_all2 (n:=Z.to_nat (m + 1)) (rev RL)) by (rewrite rev_length; lia).
      rewrite <- (firstn_all2 (n:=Z.to_nat (m + 1)) (rev R)) by (rewrite rev_length; lia). exact Heq.
  Qed.

  Lemma window_connection S L : ordered S -> NoDup (map cur L) -> connection_of L (isort L).
  Proof. intros _ Hnd. split; [apply isort_perm | apply isort_ordered; exact Hnd]. Qed.

  Lemma window_range_incl S L after before :
    incl L S -> incl (range (isort L) before after) (range S before after).
  Proof.
    intros Hsub e He. apply range_In in He as [He Hr]. apply range_In. split; [|exact Hr].
    apply Hsub. eapply Permutation_in; [apply isort_perm | exact He].
  Qed.

  Lemma needed_in_window_range S L after before limit :
    incl (needed S after before limit) L ->
    incl (needed S after before limit) (range (isort L) before after).
  Proof.
    intros Hneed e He. apply range_In. split.
    - eapply Permutation_in; [apply Permutation_sym, isort_perm | apply Hneed, He].
    - unfold needed in He. assert (HeR : In e (range S before after)).
      { destruct (limit >? 0); [eapply firstn_incl; exact He|].
        rewrite lastn_skipn in He. eapply skipn_incl; exact He. }
      apply range_In in HeR. tauto.
  Qed.

  (** EdgesToReturn on a window = EdgesToReturn on all edges, except that the flag opposite to the
      direction of travel is computed from the edges the window happens to contain *)
  Lemma edges_to_return_window_first edges S L after before n :
    connection_of edges S -> 0 <= n -> window_ok S after before (n + 1) L ->
    exists page pi pi',
      edges_to_return edges after before (Some n) None = Ret (page, pi) /\
      edges_to_return L after before (Some n) None = Ret (page, pi') /\
      pi_next pi' = pi_next pi /\ (pi_prev pi' = true -> pi_prev pi = true).
  Proof.
    intros HC Hn [Hnd [Hsub Hneed]]. pose proof (proj2 HC) as Ho.
    pose proof (window_connection S L Ho Hnd) as HCL.
    rewrite (edges_to_return_closed _ _ _ _ _ _ HC), (edges_to_return_closed _ _ _ _ _ _ HCL). cbv zeta.
    assert (Hneed' : incl (firstn (Z.to_nat (n + 1)) (range S before after)) (range (isort L) before after)).
    { pose proof (needed_in_window_range S L after before (n + 1) Hneed) as H.
      unfold needed in H. replace (n + 1 >? 0) with true in H by lia. exact H. }
    rewrite (cut_first_shared (range S before after) (range (isort L) before after) n
               (had_next (isort L) before) (had_next S before)
               (range_ordered S after before Ho) (range_ordered _ after before (proj2 HCL))
               (window_range_incl S L after before Hsub) Hn Hneed').
    destruct (cut_first E (range S before after) (Some n) (had_next S before)) as [[e1 next]|] eqn:Hc.
    2:{ exfalso. unfold cut_first in Hc. destruct (_ >? n); [|discriminate]. replace (n <? 0) with false in Hc by lia. discriminate. }
    simpl. do 3 eexists. split; [reflexivity|]. split; [reflexivity|]. simpl. split; [reflexivity|].
    unfold had_prev. apply existsb_incl. intros e He. apply Hsub.
    eapply Permutation_in; [apply isort_perm | exact He].
  Qed.

  Lemma edges_to_return_window_last edges S L after before m :
    connection_of edges S -> 0 <= m -> window_ok S after before (- (m + 1)) L ->
    exists page pi pi',
      edges_to_return edges after before None (Some m) = Ret (page, pi) /\
      edges_to_return L after before None (Some m) = Ret (page, pi') /\
      pi_prev pi' = pi_prev pi /\ (pi_next pi' = true -> pi_next pi = true).
  Proof.
    intros HC Hm [Hnd [Hsub Hneed]]. pose proof (proj2 HC) as Ho.
    pose proof (window_connection S L Ho Hnd) as HCL.
    rewrite (edges_to_return_closed _ _ _ _ _ _ HC), (edges_to_return_closed _ _ _ _ _ _ HCL). cbv zeta.
    assert (Hneed' : incl (rev (firstn (Z.to_nat (m + 1)) (rev (range S before after)))) (range (isort L) before after)).
    { pose proof (needed_in_window_range S L after before (- (m + 1)) Hneed) as H.
      unfold needed in H. replace (- (m + 1) >? 0) with false in H by lia.
      replace (- - (m + 1)) with (m + 1) in H by lia. exact H. }
    unfold cut_first at 1 2.
    rewrite (cut_last_shared (range S before after) (range (isort L) before after) m
               (had_prev (isort L) after before) (had_prev S after before)
               (range_ordered S after before Ho) (range_ordered _ after before (proj2 HCL))
               (window_range_incl S L after before Hsub) Hm Hneed').
    destruct (cut_last E (range S before after) (Some m) (had_prev S after before)) as [[e2 prev]|] eqn:Hc.
    2:{ exfalso. unfold cut_last in Hc. destruct (_ >? m); [|discriminate]. replace (m <? 0) with false in Hc by lia. discriminate. }
    simpl. do 3 eexists. split; [reflexivity|]. split; [reflexivity|]. simpl. split; [reflexivity|].
    unfold had_next. apply existsb_incl. intros e He. apply Hsub.
    eapply Permutation_in; [apply isort_perm | exact He].
  Qed.

  (** ** the connection field *)
  Variable encode : C -> bytes.
  Variable decode : bytes -> option C.
  Notation resolve := (resolve C E ltb cur encode decode).
  Notation serve := (serve C E ltb cur encode decode).
  Notation complete_now := (complete_now C E ltb cur encode).
  Notation complete_connection := (complete_connection C E ltb cur encode).
  Notation decode_arg := (decode_arg C decode).

  (** the application hands over the list [l], directly or through a promise *)
  Definition delivers (r : result (later (list E))) (l : list E) : Prop :=
    r = Ok (Sync l) \/ r = Ok (Promise (Ok l)).

  (** mode "all edges": ResolveAllEdges returns every edge (any order); totalCount is then the
      slice length unless ResolveTotalCount is configured too *)
  Definition app_all_ok (a : app C E) (edges S : list E) : Prop :=
    app_has_all a = true /\ delivers (app_all a) edges /\
    (app_total a = None \/ app_total a = Some (Ok (len S))).
  (** mode "limited window": ResolveEdges returns some acceptable window for whatever it is
      asked, ResolveTotalCount the size of the connection *)
  Definition app_window_ok (a : app C E) (S : list E) : Prop :=
    app_has_all a = false /\ app_total a = Some (Ok (len S)) /\
    forall after before limit,
      exists L, delivers (app_edges a after before limit) L /\ window_ok S after before limit L.

  Definition limit_of (ar : args) : Z :=
    match a_first ar with
    | Some f => f + 1
    | None => match a_last ar with Some l => - (l + 1) | None => 0 end
    end.

  Definition ser_page_info (pi : page_info C) : spage :=
    {| sp_prev := pi_prev pi; sp_next := pi_next pi;
       sp_start := match pi_start pi with Some c => encode c | None => [] end;
       sp_end := match pi_end pi with Some c => encode c | None => [] end |}.

  Lemma check_counts_none ar : check_counts ar = None ->
    (exists n, a_first ar = Some n /\ a_last ar = None /\ 0 <= n) \/
    (exists m, a_first ar = None /\ a_last ar = Some m /\ 0 <= m).
  Proof.
    unfold check_counts. destruct (a_first ar) as [n|], (a_last ar) as [m|]; intro H.
    - destruct (n <? 0); discriminate.
    - destruct (n <? 0) eqn:Hn; [discriminate|]. left. exists n. repeat split. lia.
    - destruct (m <? 0) eqn:Hm; [discriminate|]. right. exists m. repeat split. lia.
    - discriminate.
  Qed.

  Lemma check_counts_rejected ar :
    args_rejected (a_first ar) (a_last ar) = match check_counts ar with Some _ => true | None => false end.
  Proof.
    unfold args_rejected, check_counts. destruct (a_first ar) as [n|], (a_last ar) as [m|]; try reflexivity.
    - destruct (n <? 0); reflexivity.
    - destruct (n <? 0); reflexivity.
    - destruct (m <? 0); reflexivity.
  Qed.

  (** a negative count, a missing count, first and last together: an error (for every
      application), and not a crash *)
  Theorem arg_errors (a : app C E) ar :
    args_rejected (a_first ar) (a_last ar) = true ->
    exists e, serve a ar = RError e /\
              (e = EFirstNegative \/ e = EBothFirstLast \/ e = ELastNegative \/ e = ENoCount).
  Proof.
    rewrite check_counts_rejected. unfold RelayModel.serve, RelayModel.resolve.
    destruct (check_counts ar) as [e|] eqn:Hc; [|discriminate]. intros _. exists e. split; [reflexivity|].
    unfold check_counts in Hc. destruct (a_first ar) as [n|], (a_last ar) as [m|];
      repeat match type of Hc with context [?x <? 0] => destruct (x <? 0) end; inversion Hc; auto.
  Qed.

  (** a non-empty cursor string that DeserializeCursor rejects: an error *)
  Theorem invalid_cursor_errors (a : app C E) ar :
    args_rejected (a_first ar) (a_last ar) = false ->
    (exists e, decode_arg (a_after ar) EInvalidAfter = Err e) \/
    (exists e, decode_arg (a_before ar) EInvalidBefore = Err e) ->
    serve a ar = RError EInvalidAfter \/ serve a ar = RError EInvalidBefore.
  Proof.
    rewrite check_counts_rejected. unfold RelayModel.serve, RelayModel.resolve.
    destruct (check_counts ar) as [e|] eqn:Hc; [discriminate|]. intros _ H.
    assert (Hd : forall s e e', decode_arg s e = Err e' -> e' = e).
    { intros s e e'. unfold RelayModel.decode_arg. destruct s as [[|x s]|]; try discriminate.
      destruct (decode (x :: s)); [discriminate|]. intro Heq. inversion Heq. reflexivity. }
    destruct (decode_arg (a_after ar) EInvalidAfter) as [af|e1] eqn:Ha.
    - destruct H as [[e H]|[e H]]; [discriminate|]. rewrite H. right. rewrite (Hd _ _ _ H). reflexivity.
    - left. rewrite (Hd _ _ _ Ha). reflexivity.
  Qed.

  (** the resolver, once the arguments are accepted *)
  Definition lazy_total (a : app C E) : result (later Z) :=
    match app_total a with
    | Some t => result_map Sync t
    | None =>
        if app_has_all a then
          match app_all a with
          | Err e => Err e
          | Ok (Promise p) => Ok (Promise (chain p (fun l => Ok (len l))))
          | Ok (Sync l) => Ok (Sync (len l))
          end
        else Err ETotalUnsupported
    end.

  Definition lazy_page_info (a : app C E) ar before after (src : result (later (list E))) : result (later spage) :=
    match src with
    | Err e => Err e
    | Ok es =>
        match complete_connection a ar before after es with
        | Err e => Err e
        | Ok (Promise p) => Ok (Promise (chain p (fun c => await (cn_page_info c))))
        | Ok (Sync c) => cn_page_info c
        end
    end.

  Lemma resolve_unfold (a : app C E) ar af bf :
    check_counts ar = None ->
    decode_arg (a_after ar) EInvalidAfter = Ok af -> decode_arg (a_before ar) EInvalidBefore = Ok bf ->
    resolve a ar =
    let limit := limit_of ar in
    let src := if app_has_all a then app_all a else app_edges a af bf limit in
    let calls := if app_has_all a then [] else [{| k_after := af; k_before := bf; k_limit := limit |}] in
    if (limit =? 1) || (limit =? -1) then
      (Ok (Sync {| cn_edges := []; cn_page_info := lazy_page_info a ar bf af src;
                   cn_total := lazy_total a; cn_page_info_calls := calls |}), [])
    else (match src with Err e => Err e | Ok es => complete_connection a ar bf af es end, calls).
  Proof.
    intros Hc Ha Hb. unfold RelayModel.resolve. rewrite Hc, Ha, Hb. unfold limit_of, lazy_page_info, lazy_total.
    destruct (check_counts_none ar Hc) as [[n [Hf [Hl Hn]]]|[m [Hf [Hl Hm]]]]; rewrite Hf, ?Hl; cbv zeta;
      destruct (app_has_all a); simpl fst; simpl snd;
      match goal with |- context [(?x =? 1) || (?y =? -1)] => destruct ((x =? 1) || (y =? -1)) end;
      try reflexivity;
      match goal with |- context [match ?r with Ok _ => _ | Err _ => _ end] => destruct r; reflexivity end.
  Qed.

  Lemma await_complete_connection (a : app C E) ar bf af src l :
    delivers src l ->
    await (match src with Err e => Err e | Ok es => complete_connection a ar bf af es end) = complete_now a ar bf af l.
  Proof.
    intros [->| ->]; unfold RelayModel.complete_connection; simpl.
    - destruct (complete_now a ar bf af l); reflexivity.
    - reflexivity.
  Qed.

  Lemma await_lazy_page_info (a : app C E) ar bf af src l :
    delivers src l ->
    await (lazy_page_info a ar bf af src) =
    match complete_now a ar bf af l with Ok c => await (cn_page_info c) | Err e => Err e end.
  Proof.
    intros [->| ->]; unfold lazy_page_info, RelayModel.complete_connection; simpl.
    - destruct (complete_now a ar bf af l); reflexivity.
    - destruct (complete_now a ar bf af l); reflexivity.
  Qed.

  Lemma complete_now_ret (a : app C E) ar bf af l page pi :
    edges_to_return l af bf (a_first ar) (a_last ar) = Ret (page, pi) ->
    complete_now a ar bf af l =
    Ok {| cn_edges := page; cn_page_info := Ok (Sync (ser_page_info pi));
          cn_total := match app_total a with Some t => result_map Sync t | None => Ok (Sync (len l)) end;
          cn_page_info_calls := [] |}.
  Proof. intro H. unfold RelayModel.complete_now. rewrite H. reflexivity. Qed.

  (** zero edges requested: the page is empty *)
  Lemma zero_page edges S af bf first last page pi :
    connection_of edges S ->
    edges_to_return edges af bf first last = Ret (page, pi) ->
    (first = Some 0 /\ last = None) \/ (first = None /\ last = Some 0) -> page = [].
  Proof.
    intros HC HR H. destruct (ret_inv _ _ _ _ _ _ _ _ HC HR) as [_ [_ ->]]. unfold sliced.
    destruct H as [[-> ->]|[-> ->]].
    - unfold RelaySpec.keep_first. destruct (_ >? 0) eqn:Hg; [reflexivity|].
      destruct (range S bf af); [reflexivity | simpl length in Hg; lia].
    - unfold RelaySpec.keep_last. destruct (_ >? 0) eqn:Hg; [reflexivity|].
      destruct (range S bf af); [reflexivity | simpl length in Hg; lia].
  Qed.

  (** what the client sees when the application hands over [l] (all edges, or a window) *)
  Lemma serve_delivered (a : app C E) ar af bf l lS page pi t :
    check_counts ar = None ->
    decode_arg (a_after ar) EInvalidAfter = Ok af -> decode_arg (a_before ar) EInvalidBefore = Ok bf ->
    delivers (if app_has_all a then app_all a else app_edges a af bf (limit_of ar)) l ->
    connection_of l lS ->
    edges_to_return l af bf (a_first ar) (a_last ar) = Ret (page, pi) ->
    (app_total a = Some (Ok t) \/ (app_total a = None /\ app_has_all a = true /\ t = len l)) ->
    serve a ar = RData page (Ok (ser_page_info pi)) (Ok t).
  Proof.
    intros Hc Ha Hb Hd HCl HR Ht. unfold RelayModel.serve. rewrite (resolve_unfold a ar af bf Hc Ha Hb). cbv zeta.
    set (src := if app_has_all a then app_all a else app_edges a af bf (limit_of ar)) in *.
    destruct ((limit_of ar =? 1) || (limit_of ar =? -1)) eqn:Hlazy; simpl fst; unfold observe.
    - (* no edges requested: everything is delayed until a field is asked for *)
      simpl await at 1. cbv beta iota. cbn [cn_edges cn_page_info cn_total].
      rewrite (await_lazy_page_info a ar bf af src l Hd), (complete_now_ret a ar bf af l page pi HR). simpl.
      assert (Hp : page = []).
      { apply (zero_page l lS af bf (a_first ar) (a_last ar) page pi HCl HR).
        unfold limit_of in Hlazy. destruct (check_counts_none ar Hc) as [[n [Hf [Hl Hn]]]|[m [Hf [Hl Hm]]]];
          rewrite Hf, ?Hl in *; [left|right]; split; try reflexivity; f_equal; lia. }
      subst page. f_equal. unfold lazy_total.
      destruct Ht as [Ht|[Ht [Hall Htl]]]; rewrite Ht; [reflexivity|].
      rewrite Hall. unfold src in Hd. rewrite Hall in Hd. destruct Hd as [-> | ->]; simpl; subst t; reflexivity.
    - rewrite (await_complete_connection a ar bf af src l Hd), (complete_now_ret a ar bf af l page pi HR). simpl.
      f_equal. destruct Ht as [Ht|[Ht [Hall Htl]]]; rewrite Ht; [reflexivity|]. subst t. reflexivity.
  Qed.

  (** ** one request, at full strength *)
  Definition enc_opt (o : option E) : bytes := match o with Some e => encode (cur e) | None => [] end.

  (** what C09 says about the answer to one accepted request (cursors [after], [before] are the
      decoded positions): *)
  Definition response_ok (S : list E) (after before : option C) (first last : option Z) (r : response E) : Prop :=
    exists page sp,
      r = RData page (Ok sp) (Ok (len S)) /\                                   (* totalCount = size of the connection *)
      spec_edges S before after first last = Some page /\                      (* exactly the Relay edges *)
      ordered page /\                                                          (* in cursor order *)
      sp_start sp = enc_opt (hd_error page) /\ sp_end sp = enc_opt (last_error page) /\
      (has_next_required S before after first = true -> sp_next sp = true) /\
      (sp_next sp = true -> has_next_allowed S before after first = true) /\
      (has_prev_required S before after last = true -> sp_prev sp = true) /\
      (sp_prev sp = true -> has_prev_allowed S before after last = true) /\
      (sp_next sp = true -> edge_beyond_end C E ltb cur S page) /\
      (sp_prev sp = true -> edge_before_start C E ltb cur S page).

  Lemma valid_counts_ret edges S af bf first last :
    connection_of edges S -> args_rejected first last = false ->
    exists page pi, edges_to_return edges af bf first last = Ret (page, pi).
  Proof.
    intros HC Hr. pose proof (edges_eq edges S af bf first last HC) as H.
    destruct (edges_to_return edges af bf first last) as [[page pi]|]; [eauto|].
    exfalso. unfold RelaySpec.spec_edges, slice_edges, args_rejected in *.
    destruct first as [n|], last as [m|]; try discriminate;
      repeat match type of H with context [?x <? 0] => destruct (x <? 0) end; discriminate.
  Qed.

  Lemma ser_cursors l af bf first last page pi :
    edges_to_return l af bf first last = Ret (page, pi) ->
    sp_start (ser_page_info pi) = enc_opt (hd_error page) /\ sp_end (ser_page_info pi) = enc_opt (last_error page).
  Proof.
    intro HR. destruct (page_cursors _ _ _ _ _ _ _ HR) as [Hs He]. unfold ser_page_info, enc_opt. simpl.
    rewrite Hs, He. destruct (hd_error page), (last_error page); simpl; split; reflexivity.
  Qed.

  Lemma beyond_end_perm edges S page : connection_of edges S ->
    edge_beyond_end C E ltb cur edges page -> edge_beyond_end C E ltb cur S page.
  Proof. intros HC [e [H1 H2]]. exists e. split; [apply (connection_In _ _ HC); exact H1 | exact H2]. Qed.
  Lemma before_start_perm edges S page : connection_of edges S ->
    edge_before_start C E ltb cur edges page -> edge_before_start C E ltb cur S page.
  Proof. intros HC [e [H1 H2]]. exists e. split; [apply (connection_In _ _ HC); exact H1 | exact H2]. Qed.

  Lemma not_both ar : check_counts ar = None -> both_given (a_first ar) (a_last ar) = false.
  Proof. intro Hc. destruct (check_counts_none ar Hc) as [[n [-> [-> _]]]|[m [-> [-> _]]]]; reflexivity. Qed.

  Lemma rejected_check ar : args_rejected (a_first ar) (a_last ar) = false -> check_counts ar = None.
  Proof. rewrite check_counts_rejected. destruct (check_counts ar); [discriminate | reflexivity]. Qed.

  (** mode "all edges" *)
  Theorem serve_all_ok (a : app C E) edges S ar af bf :
    connection_of edges S -> app_all_ok a edges S ->
    args_rejected (a_first ar) (a_last ar) = false ->
    decode_arg (a_after ar) EInvalidAfter = Ok af -> decode_arg (a_before ar) EInvalidBefore = Ok bf ->
    response_ok S af bf (a_first ar) (a_last ar) (serve a ar).
  Proof.
    intros HC [Hall [Hd Ht]] Hr Ha Hb. pose proof (rejected_check ar Hr) as Hc.
    destruct (valid_counts_ret edges S af bf _ _ HC Hr) as [page [pi HR]].
    assert (Hserve : serve a ar = RData page (Ok (ser_page_info pi)) (Ok (len S))).
    { apply (serve_delivered a ar af bf edges S page pi (len S) Hc Ha Hb); try assumption.
      - rewrite Hall. exact Hd.
      - assert (Hl : len S = len edges) by (unfold len; rewrite (connection_length _ _ HC); reflexivity).
        destruct Ht as [Ht|Ht]; [right | left]; auto. }
    exists page, (ser_page_info pi). rewrite Hserve.
    pose proof (edges_eq edges S af bf (a_first ar) (a_last ar) HC) as Heq. rewrite HR in Heq.
    destruct (ser_cursors _ _ _ _ _ _ _ HR) as [Hs He].
    repeat split; try assumption.
    - eapply page_sorted; eassumption.
    - eapply has_next_required_holds; eassumption.
    - eapply has_next_allowed_holds; eassumption.
    - intro H. eapply has_prev_required_holds; try eassumption. apply not_both. exact Hc.
    - eapply has_prev_allowed_holds; eassumption.
    - intro H. eapply beyond_end_perm; [exact HC|]. eapply has_next_sound; eassumption.
    - intro H. eapply before_start_perm; [exact HC|]. eapply has_prev_sound; eassumption.
  Qed.

  (** the limited-window mode gives the same data and the same cursors as the all-edges mode, the
      same flag in the direction of travel, and in the other direction a flag that can only be
      weaker (it stays within [required, allowed], see [serve_window_ok]) *)
  Theorem window_equiv (a1 a2 : app C E) edges S ar af bf :
    connection_of edges S -> app_all_ok a1 edges S -> app_window_ok a2 S ->
    args_rejected (a_first ar) (a_last ar) = false ->
    decode_arg (a_after ar) EInvalidAfter = Ok af -> decode_arg (a_before ar) EInvalidBefore = Ok bf ->
    exists page sp1 sp2,
      serve a1 ar = RData page (Ok sp1) (Ok (len S)) /\
      serve a2 ar = RData page (Ok sp2) (Ok (len S)) /\
      sp_start sp2 = sp_start sp1 /\ sp_end sp2 = sp_end sp1 /\
      (a_first ar <> None -> sp_next sp2 = sp_next sp1 /\ (sp_prev sp2 = true -> sp_prev sp1 = true)) /\
      (a_last ar <> None -> sp_prev sp2 = sp_prev sp1 /\ (sp_next sp2 = true -> sp_next sp1 = true)).
  Proof.
    intros HC [Hall1 [Hd1 Ht1]] [Hall2 [Ht2 Hw]] Hr Ha Hb. pose proof (rejected_check ar Hr) as Hc.
    destruct (Hw af bf (limit_of ar)) as [L [HdL HwL]].
    assert (Hl : len S = len edges) by (unfold len; rewrite (connection_length _ _ HC); reflexivity).
    assert (HCL : connection_of L (isort L)) by (apply (window_connection S L (proj2 HC)); apply HwL).
    assert (Hrel : exists page pi pi',
               edges_to_return edges af bf (a_first ar) (a_last ar) = Ret (page, pi) /\
               edges_to_return L af bf (a_first ar) (a_last ar) = Ret (page, pi') /\
               (a_first ar <> None -> pi_next pi' = pi_next pi /\ (pi_prev pi' = true -> pi_prev pi = true)) /\
               (a_last ar <> None -> pi_prev pi' = pi_prev pi /\ (pi_next pi' = true -> pi_next pi = true))).
    { unfold limit_of in HwL.
      destruct (check_counts_none ar Hc) as [[n [Hf [Hla Hn]]]|[m [Hf [Hla Hm]]]]; rewrite Hf, Hla in *.
      - destruct (edges_to_return_window_first edges S L af bf n HC Hn HwL) as [page [pi [pi' [H1 [H2 [H3 H4]]]]]].
        exists page, pi, pi'. split; [exact H1|]. split; [exact H2|]. split.
        + intros _. split; assumption.
        + intro Hx. congruence.
      - destruct (edges_to_return_window_last edges S L af bf m HC Hm HwL) as [page [pi [pi' [H1 [H2 [H3 H4]]]]]].
        exists page, pi, pi'. split; [exact H1|]. split; [exact H2|]. split.
        + intro Hx. congruence.
        + intros _. split; assumption. }
    destruct Hrel as [page [pi [pi' [HR1 [HR2 [Hfirst Hlast]]]]]].
    exists page, (ser_page_info pi), (ser_page_info pi').
    split; [|split].
    - apply (serve_delivered a1 ar af bf edges S page pi (len S) Hc Ha Hb); try assumption.
      + rewrite Hall1. exact Hd1.
      + destruct Ht1 as [Ht1|Ht1]; [right | left]; auto.
    - apply (serve_delivered a2 ar af bf L (isort L) page pi' (len S) Hc Ha Hb); try assumption.
      + rewrite Hall2. exact HdL.
      + left. exact Ht2.
    - destruct (ser_cursors _ _ _ _ _ _ _ HR1) as [Hs1 He1]. destruct (ser_cursors _ _ _ _ _ _ _ HR2) as [Hs2 He2].
      rewrite Hs1, Hs2, He1, He2. repeat split; try reflexivity; simpl; try apply Hfirst; try apply Hlast; assumption.
  Qed.

  (** mode "limited window" *)
  Theorem serve_window_ok (a : app C E) S ar af bf :
    ordered S -> app_window_ok a S ->
    args_rejected (a_first ar) (a_last ar) = false ->
    decode_arg (a_after ar) EInvalidAfter = Ok af -> decode_arg (a_before ar) EInvalidBefore = Ok bf ->
    response_ok S af bf (a_first ar) (a_last ar) (serve a ar).
  Proof.
    intros Ho Hw Hr Ha Hb. pose proof (rejected_check ar Hr) as Hc.
    set (a1 := {| app_has_all := true; app_all := Ok (Sync S); app_edges := app_edges a; app_total := None |}).
    assert (HC : connection_of S S) by (split; [apply Permutation_refl | exact Ho]).
    assert (H1 : app_all_ok a1 S S) by (split; [reflexivity | split; [left; reflexivity | left; reflexivity]]).
    destruct (window_equiv a1 a S S ar af bf HC H1 Hw Hr Ha Hb) as [page [sp1 [sp2 [Hs1 [Hs2 [Hst [Hen [Hf Hl]]]]]]]].
    destruct (serve_all_ok a1 S S ar af bf HC H1 Hr Ha Hb)
      as [page' [sp' [Hs' [Hedges [Hord [Hst' [Hen' [Hnr [Hna [Hpr [Hpa [Hns Hps]]]]]]]]]]]].
    rewrite Hs1 in Hs'. inversion Hs'; subst page' sp'. clear Hs'.
    exists page, sp2. rewrite Hs2.
    assert (Hnext : sp_next sp2 = true -> sp_next sp1 = true).
    { destruct (check_counts_none ar Hc) as [[n [Hfi _]]|[m [_ [Hla _]]]].
      - destruct Hf as [Hf _]; [congruence|]. rewrite Hf. auto.
      - destruct Hl as [_ Hl]; [congruence|]. exact Hl. }
    assert (Hprev : sp_prev sp2 = true -> sp_prev sp1 = true).
    { destruct (check_counts_none ar Hc) as [[n [Hfi _]]|[m [_ [Hla _]]]].
      - destruct Hf as [_ Hf]; [congruence|]. exact Hf.
      - destruct Hl as [Hl _]; [congruence|]. rewrite Hl. auto. }
    repeat split; auto; try congruence.
    - (* hasNextPage required: only when [first] is given, where the flags coincide *)
      intro H. destruct (a_first ar) as [n|] eqn:Hfi; [|discriminate H].
      destruct Hf as [Hf _]; [discriminate|]. rewrite Hf. apply Hnr. exact H.
    - intro H. destruct (a_last ar) as [m|] eqn:Hla; [|discriminate H].
      destruct Hl as [Hl _]; [discriminate|]. rewrite Hl. apply Hpr. exact H.
  Qed.

  (** ** both modes at once *)
  Definition app_ok (a : app C E) (edges S : list E) : Prop :=
    connection_of edges S /\ (app_all_ok a edges S \/ app_window_ok a S).

  Theorem serve_ok (a : app C E) edges S ar af bf :
    app_ok a edges S ->
    args_rejected (a_first ar) (a_last ar) = false ->
    decode_arg (a_after ar) EInvalidAfter = Ok af -> decode_arg (a_before ar) EInvalidBefore = Ok bf ->
    response_ok S af bf (a_first ar) (a_last ar) (serve a ar).
  Proof.
    intros [HC [H|H]]; [apply (serve_all_ok a edges S ar af bf HC H) | apply (serve_window_ok a S ar af bf (proj2 HC) H)].
  Qed.

  Lemma await_sync {A} (x : A) : await (Ok (Sync x)) = Ok x.
  Proof. reflexivity. Qed.

  (** totalCount is the size of the connection *)
  Theorem total_count (a : app C E) edges S ar af bf :
    app_ok a edges S ->
    args_rejected (a_first ar) (a_last ar) = false ->
    decode_arg (a_after ar) EInvalidAfter = Ok af -> decode_arg (a_before ar) EInvalidBefore = Ok bf ->
    exists page pi, serve a ar = RData page pi (Ok (Z.of_nat (length edges))).
  Proof.
    intros Happ Hr Ha Hb. destruct (serve_ok a edges S ar af bf Happ Hr Ha Hb) as [page [sp [Hs _]]].
    exists page, (Ok sp). rewrite Hs. unfold len. rewrite (connection_length _ _ (proj1 Happ)). reflexivity.
  Qed.

  (** an arbitrary cursor string is either rejected with an error or treated as some position in
      the cursor order (in the model; that the Go decoders themselves cannot crash is observed,
      not proved) *)
  Theorem arbitrary_cursor (a : app C E) edges S ar :
    app_ok a edges S ->
    args_rejected (a_first ar) (a_last ar) = false ->
    serve a ar = RError EInvalidAfter \/ serve a ar = RError EInvalidBefore \/
    exists af bf, response_ok S af bf (a_first ar) (a_last ar) (serve a ar).
  Proof.
    intros Happ Hr.
    destruct (decode_arg (a_after ar) EInvalidAfter) as [af|e] eqn:Ha.
    - destruct (decode_arg (a_before ar) EInvalidBefore) as [bf|e] eqn:Hb.
      + right. right. exists af, bf. apply (serve_ok a edges S ar af bf Happ Hr Ha Hb).
      + destruct (invalid_cursor_errors a ar Hr) as [H|H]; [right; eauto | auto | auto].
    - destruct (invalid_cursor_errors a ar Hr) as [H|H]; [left; eauto | auto | auto].
  Qed.

  (** ** sync or promise: the same answer *)
  Theorem promise_equiv (a1 a2 : app C E) ar :
    app_has_all a1 = app_has_all a2 -> app_total a1 = app_total a2 ->
    (exists l, delivers (app_all a1) l /\ delivers (app_all a2) l) ->
    (forall af bf limit, exists l, delivers (app_edges a1 af bf limit) l /\ delivers (app_edges a2 af bf limit) l) ->
    serve a1 ar = serve a2 ar.
  Proof.
    intros Hall Htot [la [Hla1 Hla2]] Hed. unfold RelayModel.serve.
    destruct (check_counts ar) as [e|] eqn:Hc.
    { unfold RelayModel.resolve. rewrite Hc. reflexivity. }
    destruct (decode_arg (a_after ar) EInvalidAfter) as [af|e] eqn:Ha.
    2:{ unfold RelayModel.resolve. rewrite Hc, Ha. reflexivity. }
    destruct (decode_arg (a_before ar) EInvalidBefore) as [bf|e] eqn:Hb.
    2:{ unfold RelayModel.resolve. rewrite Hc, Ha, Hb. reflexivity. }
    rewrite (resolve_unfold a1 ar af bf Hc Ha Hb), (resolve_unfold a2 ar af bf Hc Ha Hb). cbv zeta.
    destruct (Hed af bf (limit_of ar)) as [le [Hle1 Hle2]].
    assert (Hsrc : exists l, delivers (if app_has_all a1 then app_all a1 else app_edges a1 af bf (limit_of ar)) l /\
                             delivers (if app_has_all a2 then app_all a2 else app_edges a2 af bf (limit_of ar)) l).
    { rewrite <- Hall. destruct (app_has_all a1); eauto. }
    destruct Hsrc as [l [Hs1 Hs2]].
    assert (Hcn : complete_now a1 ar bf af l = complete_now a2 ar bf af l).
    { unfold RelayModel.complete_now. rewrite Htot. reflexivity. }
    destruct ((limit_of ar =? 1) || (limit_of ar =? -1)); simpl fst; unfold observe.
    - rewrite !await_sync. cbv beta iota. cbn [cn_edges cn_page_info cn_total].
      rewrite (await_lazy_page_info a1 ar bf af _ l Hs1), (await_lazy_page_info a2 ar bf af _ l Hs2), Hcn.
      f_equal. unfold lazy_total. rewrite <- Htot, <- Hall. destruct (app_total a1); [reflexivity|].
      destruct (app_has_all a1); [|reflexivity].
      destruct Hla1 as [-> | ->], Hla2 as [-> | ->]; reflexivity.
    - rewrite (await_complete_connection a1 ar bf af _ l Hs1), (await_complete_connection a2 ar bf af _ l Hs2), Hcn.
      reflexivity.
  Qed.

  (** ** walks *)
  Definition as_server (a : app C E) (first last : option Z) (after before : option bytes) : option (page E) :=
    match serve a {| a_first := first; a_last := last; a_after := after; a_before := before |} with
    | RData edges (Ok sp) _ =>
        Some {| pg_edges := edges; pg_has_prev := sp_prev sp; pg_has_next := sp_next sp;
                pg_start := sp_start sp; pg_end := sp_end sp |}
    | _ => None
    end.

  Lemma last_error_In (l : list E) e : last_error l = Some e -> In e l.
  Proof.
    induction l as [|x r IH]; simpl; [discriminate|]. destruct r as [|y r'].
    - intro H. inversion H. left. reflexivity.
    - intro H. right. apply IH. exact H.
  Qed.

  Lemma last_error_some (l : list E) : l <> [] -> exists e, last_error l = Some e.
  Proof.
    induction l as [|x r IH]; [congruence|]. intros _. destruct r as [|y r'].
    - exists x. reflexivity.
    - destruct IH as [e He]; [discriminate|]. exists e. exact He.
  Qed.

  Lemma last_error_max (l : list E) e : ordered l -> last_error l = Some e ->
    forall x, In x l -> x = e \/ ltb (cur x) (cur e) = true.
  Proof.
    induction 1 as [|a r Hs IH Hf]; simpl; [discriminate|]. destruct r as [|y r'].
    - intros H x [Hx|[]]. inversion H. subst. left. reflexivity.
    - intros H x [Hx|Hx].
      + subst x. right. rewrite Forall_forall in Hf. apply Hf. apply last_error_In. exact H.
      + apply IH; assumption.
  Qed.

  Lemma hd_error_min (l : list E) e : ordered l -> hd_error l = Some e ->
    forall x, In x l -> x = e \/ ltb (cur e) (cur x) = true.
  Proof.
    intros Ho H x Hx. destruct l as [|a r]; [discriminate|]. simpl in H. inversion H; subst a.
    apply StronglySorted_inv in Ho as [_ Hf]. rewrite Forall_forall in Hf.
    destruct Hx as [Hx|Hx]; [left; congruence | right; apply Hf; exact Hx].
  Qed.

  (** after a page of [k] edges, the edges after its last cursor are the remaining ones *)
  Lemma range_after_last S pos k e :
    ordered S -> last_error (firstn k (range S None pos)) = Some e ->
    range S None (Some (cur e)) = skipn k (range S None pos).
  Proof.
    intros Ho Hlast. set (R := range S None pos) in *.
    pose proof (range_ordered S pos None Ho) as HoR. fold R in HoR.
    assert (HeA : In e (firstn k R)) by (apply last_error_In; exact Hlast).
    assert (HeR : In e R) by (eapply firstn_incl; exact HeA).
    assert (Hstep1 : range S None (Some (cur e)) = filter (fun x => ltb (cur e) (cur x)) R).
    { unfold R, position_apply_cursors. rewrite filter_filter_implied.
      - apply filter_ext_in_local. intros x _. unfold RelaySpec.in_range. apply andb_true_r.
      - intros x _ Hx. unfold RelaySpec.in_range. rewrite andb_true_r. destruct pos as [p|]; [|reflexivity].
        apply range_In in HeR as [_ HeR]. unfold RelaySpec.in_range in HeR. rewrite andb_true_r in HeR.
        eapply ltb_trans; eassumption. }
    rewrite Hstep1. rewrite <- (firstn_skipn k R) at 1. rewrite filter_app.
    rewrite <- (firstn_skipn k R) in HoR. apply (SSorted_app_inv E lt_e) in HoR as [HoA [HoB Hlt]].
    rewrite filter_all_false, filter_all_true; [reflexivity | |].
    - intros y Hy. apply (Hlt e y HeA Hy).
    - intros x Hx. destruct (last_error_max _ e HoA Hlast x Hx) as [->|Hxe]; [apply ltb_irrefl|].
      destruct (ltb (cur e) (cur x)) eqn:Hex; [exfalso; eapply ltb_asym; eassumption | reflexivity].
  Qed.

  (** before a page made of the last edges of the range, the edges before its first cursor are
      the remaining ones *)
  Lemma range_before_first S pos k e :
    ordered S -> hd_error (skipn k (range S pos None)) = Some e ->
    range S (Some (cur e)) None = firstn k (range S pos None).
  Proof.
    intros Ho Hhd. set (R := range S pos None) in *.
    pose proof (range_ordered S None pos Ho) as HoR. fold R in HoR.
    assert (HeB : In e (skipn k R)) by (destruct (skipn k R); [discriminate | inversion Hhd; left; reflexivity]).
    assert (HeR : In e R) by (eapply skipn_incl; exact HeB).
    assert (Hstep1 : range S (Some (cur e)) None = filter (fun x => ltb (cur x) (cur e)) R).
    { unfold R, position_apply_cursors. rewrite filter_filter_implied.
      - apply filter_ext_in_local. intros x _. reflexivity.
      - intros x _ Hx. unfold RelaySpec.in_range. simpl. destruct pos as [p|]; [|reflexivity].
        apply range_In in HeR as [_ HeR]. unfold RelaySpec.in_range in HeR. simpl in HeR.
        eapply ltb_trans; eassumption. }
    rewrite Hstep1. rewrite <- (firstn_skipn k R) at 1. rewrite filter_app.
    rewrite <- (firstn_skipn k R) in HoR. apply (SSorted_app_inv E lt_e) in HoR as [HoA [HoB Hlt]].
    rewrite filter_all_true, filter_all_false; [apply app_nil_r | |].
    - intros y Hy. destruct (hd_error_min _ e HoB Hhd y Hy) as [->|Hey]; [apply ltb_irrefl|].
      destruct (ltb (cur y) (cur e)) eqn:Hye; [exfalso; eapply ltb_asym; eassumption | reflexivity].
    - intros x Hx. apply (Hlt x e Hx HeB).
  Qed.

  Section Walks.
    Variable a : app C E.
    Variables edges S : list E.
    Hypothesis Happ : app_ok a edges S.
    (** every cursor the server emits is accepted back and denotes the same position
        ([CursorCodecProofs.cursor_roundtrip] for the real codec), and is not the empty string *)
    Hypothesis decode_encode : forall e, In e S -> decode (encode (cur e)) = Some (cur e).
    Hypothesis encode_nonempty : forall c, encode c <> [].

    Definition denotes (arg : option bytes) (pos : option C) : Prop :=
      (arg = None /\ pos = None) \/ (exists e, In e S /\ arg = Some (encode (cur e)) /\ pos = Some (cur e)).

    Lemma denotes_decode arg pos er : denotes arg pos -> decode_arg arg er = Ok pos.
    Proof.
      intros [[-> ->]|[e [He [-> ->]]]]; [reflexivity|]. unfold RelayModel.decode_arg.
      destruct (encode (cur e)) as [|x s] eqn:Henc; [exfalso; eapply encode_nonempty; exact Henc|].
      rewrite <- Henc, (decode_encode e He). reflexivity.
    Qed.

    Lemma flag_exact (b r al : bool) : (r = true -> b = true) -> (b = true -> al = true) -> r = al -> b = r.
    Proof. destruct b, r, al; intros H1 H2 H3; try reflexivity; try discriminate; auto. symmetry; auto. Qed.

    Theorem walk_forward_gen n : 1 <= n -> forall fuel after pos,
      denotes after pos -> (length (range S None pos) < fuel)%nat ->
      walk_forward E (as_server a) n fuel after = Done (range S None pos).
    Proof.
      intros Hn fuel. induction fuel as [|fuel IH]; intros after pos Hden Hfuel; [lia|].
      simpl. unfold as_server at 1.
      set (ar := {| a_first := Some n; a_last := None; a_after := after; a_before := None |}).
      assert (Hrej : args_rejected (a_first ar) (a_last ar) = false) by (simpl; lia).
      destruct (serve_ok a edges S ar pos None Happ Hrej (denotes_decode _ _ _ Hden) eq_refl)
        as [page [sp [Hserve [Hedges [Hord [Hst [Hen [Hnr [Hna _]]]]]]]]].
      rewrite Hserve. simpl pg_has_next. simpl pg_edges. simpl pg_end.
      simpl in Hedges, Hnr, Hna. unfold RelaySpec.spec_edges, slice_edges in Hedges.
      replace (n <? 0) with false in Hedges by lia. inversion Hedges as [Hpage]. clear Hedges.
      set (R := range S None pos) in *.
      assert (Hnext : sp_next sp = count_gt E R n).
      { apply (flag_exact _ _ (count_gt E R n)); auto. }
      rewrite Hnext. unfold count_gt, RelaySpec.keep_first in *.
      destruct (Z.of_nat (length R) >? n) eqn:Hgt; [|reflexivity].
      (* a full page; its last edge is where the next request starts *)
      assert (Hne : firstn (Z.to_nat n) R <> []).
      { intro H. apply (f_equal (@length E)) in H. rewrite firstn_length in H. simpl in H. lia. }
      destruct (last_error_some _ Hne) as [e He].
      rewrite Hen, <- Hpage. unfold enc_opt. rewrite He.
      assert (HeS : In e S).
      { apply last_error_In in He. apply firstn_incl in He. apply range_In in He. tauto. }
      pose proof (range_after_last S pos (Z.to_nat n) e (proj2 (proj1 Happ)) He) as Hrest. fold R in Hrest.
      rewrite (IH (Some (encode (cur e))) (Some (cur e))).
      - rewrite Hrest. rewrite firstn_skipn. reflexivity.
      - right. exists e. auto.
      - rewrite Hrest, skipn_length. lia.
    Qed.

    (** following endCursor with [after], page size n >= 1: the concatenation of the pages is the
        connection — every edge exactly once, in order *)
    Theorem walk_forward_exact n : 1 <= n ->
      walk_forward E (as_server a) n (Datatypes.S (length S)) None = Done S.
    Proof.
      intro Hn. rewrite (walk_forward_gen n Hn _ None None).
      - f_equal. apply filter_all_true. reflexivity.
      - left. split; reflexivity.
      - assert (H : range S None None = S) by (apply filter_all_true; reflexivity). rewrite H. lia.
    Qed.

    Theorem walk_backward_gen n : 1 <= n -> forall fuel before pos,
      denotes before pos -> (length (range S pos None) < fuel)%nat ->
      walk_backward E (as_server a) n fuel before = Done (range S pos None).
    Proof.
      intros Hn fuel. induction fuel as [|fuel IH]; intros before pos Hden Hfuel; [lia|].
      simpl. unfold as_server at 1.
      set (ar := {| a_first := None; a_last := Some n; a_after := None; a_before := before |}).
      assert (Hrej : args_rejected (a_first ar) (a_last ar) = false) by (simpl; lia).
      destruct (serve_ok a edges S ar None pos Happ Hrej eq_refl (denotes_decode _ _ _ Hden))
        as [page [sp [Hserve [Hedges [Hord [Hst [Hen [_ [_ [Hpr [Hpa _]]]]]]]]]]].
      rewrite Hserve. simpl pg_has_prev. simpl pg_edges. simpl pg_start.
      simpl in Hedges, Hpr, Hpa. unfold RelaySpec.spec_edges, slice_edges in Hedges.
      replace (n <? 0) with false in Hedges by lia. inversion Hedges as [Hpage]. clear Hedges.
      set (R := range S pos None) in *.
      assert (Hprev : sp_prev sp = count_gt E R n).
      { apply (flag_exact _ _ (count_gt E R n)); auto. }
      rewrite Hprev. unfold count_gt, RelaySpec.keep_last in *.
      destruct (Z.of_nat (length R) >? n) eqn:Hgt; [|reflexivity].
      rewrite lastn_skipn in *.
      set (k := (length R - Z.to_nat n)%nat) in *.
      assert (Hne : skipn k R <> []).
      { intro H. apply (f_equal (@length E)) in H. rewrite skipn_length in H. simpl in H. lia. }
      destruct (skipn k R) as [|e t] eqn:Hsk; [congruence|].
      rewrite Hst, <- Hpage. unfold enc_opt. simpl hd_error. cbv iota.
      assert (HeS : In e S).
      { assert (H : In e (skipn k R)) by (rewrite Hsk; left; reflexivity).
        apply skipn_incl in H. apply range_In in H. tauto. }
      assert (Hhd : hd_error (skipn k (range S pos None)) = Some e) by (fold R; rewrite Hsk; reflexivity).
      pose proof (range_before_first S pos k e (proj2 (proj1 Happ)) Hhd) as Hrest. fold R in Hrest.
      rewrite (IH (Some (encode (cur e))) (Some (cur e))).
      - rewrite Hrest. rewrite <- Hsk. rewrite firstn_skipn. reflexivity.
      - right. exists e. auto.
      - rewrite Hrest, firstn_length. lia.
    Qed.

    Theorem walk_backward_exact n : 1 <= n ->
      walk_backward E (as_server a) n (Datatypes.S (length S)) None = Done S.
    Proof.
      intro Hn. rewrite (walk_backward_gen n Hn _ None None).
      - f_equal. apply filter_all_true. reflexivity.
      - left. split; reflexivity.
      - assert (H : range S None None = S) by (apply filter_all_true; reflexivity). rewrite H. lia.
    Qed.
  End Walks.
End Proofs.
