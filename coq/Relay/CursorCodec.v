(** * Relay/CursorCodec.v — transcription of SerializeCursor / DeserializeCursor (pagination.go:94-113)
    for the two cursor shapes the harness uses: Go [int] and Go [string].

      SerializeCursor(c)      = base64.RawURLEncoding.EncodeToString(msgpack.Marshal(c))
      DeserializeCursor(t, s) = nil unless RawURLEncoding.DecodeString(s) succeeds and
                                msgpack.Unmarshal of the bytes into a *t succeeds

    Third-party / standard-library code transcribed here (modelled, not verified):
    - encoding/base64 RawURLEncoding (no padding, non-strict: '\r' and '\n' are skipped anywhere,
      trailing bits of a final partial quantum are ignored, '=' is an invalid character);
    - vmihailenco/msgpack v4.0.4: [Marshal] of an [int] is always 0xd3 + 8 bytes big endian
      (useCompact is off), of a [string] the shortest str header + the bytes; [Unmarshal] into
      *int accepts nil, fixnums and every (u)int8..64 code, into *string accepts nil, fixstr,
      str8/16/32 and bin8/16/32; trailing bytes after the first value are ignored.
    No proofs in this file. *)
From Coq Require Import List NArith ZArith Bool.
From ApiFu Require Import Base.Sexp.
Import ListNotations.

(** ** base64url without padding *)
Section B64.
  Open Scope N_scope.

  Definition b64_char (s : N) : N :=
    if s <? 26 then 65 + s
    else if s <? 52 then 71 + s
    else if s <? 62 then s - 4
    else if s =? 62 then 45 else 95.

  Definition b64_val (c : N) : option N :=
    if (65 <=? c) && (c <=? 90) then Some (c - 65)
    else if (97 <=? c) && (c <=? 122) then Some (c - 71)
    else if (48 <=? c) && (c <=? 57) then Some (c + 4)
    else if c =? 45 then Some 62
    else if c =? 95 then Some 63
    else None.

  Fixpoint b64_encode (l : bytes) : bytes :=
    match l with
    | [] => []
    | [a] => [b64_char (a / 4); b64_char ((a mod 4) * 16)]
    | [a; b] => [b64_char (a / 4); b64_char ((a mod 4) * 16 + b / 16); b64_char ((b mod 16) * 4)]
    | a :: b :: c :: rest =>
        b64_char (a / 4) :: b64_char ((a mod 4) * 16 + b / 16)
        :: b64_char ((b mod 16) * 4 + c / 64) :: b64_char (c mod 64) :: b64_encode rest
    end.

  (** regrouping 6-bit values into bytes; a single left-over sextet is an error, the unused low
      bits of a final partial quantum are dropped (Go's non-strict mode) *)
  Fixpoint sextets_to_bytes (s : list N) : option bytes :=
    match s with
    | [] => Some []
    | [_] => None
    | [p; q] => Some [p * 4 + q / 16]
    | [p; q; r] => Some [p * 4 + q / 16; (q mod 16) * 16 + r / 4]
    | p :: q :: r :: t :: rest =>
        match sextets_to_bytes rest with
        | Some d => Some (p * 4 + q / 16 :: (q mod 16) * 16 + r / 4 :: (r mod 4) * 64 + t :: d)
        | None => None
        end
    end.

  Definition is_newline (c : N) : bool := (c =? 10) || (c =? 13).

  Definition b64_decode (s : bytes) : option bytes :=
    match map_opt b64_val (filter (fun c => negb (is_newline c)) s) with
    | Some sx => sextets_to_bytes sx
    | None => None
    end.
End B64.

(** ** big-endian integers *)
Definition be_decode (l : bytes) : Z := fold_left (fun acc b => (acc * 256 + Z.of_N b)%Z) l 0%Z.
Fixpoint be_encode (k : nat) (n : Z) : bytes :=
  match k with
  | O => []
  | S k' => be_encode k' (n / 256)%Z ++ [Z.to_N (n mod 256)%Z]
  end.

(** two's-complement reading of an unsigned [bits]-bit value: Go's int8(..)/int16(..)/... *)
Definition wrap_signed (bits : Z) (n : Z) : Z :=
  (if n <? 2 ^ (bits - 1) then n else n - 2 ^ bits)%Z.

(** the decoder's readN(n): the next [n] bytes, or an error when fewer remain.  [n] may be as
    large as 2^32-1, so it is converted to [nat] only when it is known to be small. *)
Definition take (n : N) (l : bytes) : option bytes :=
  if (N.of_nat (length l) <? n)%N then None else Some (firstn (N.to_nat n) l).

(** ** msgpack, Go int *)
Definition mp_encode_int (z : Z) : bytes := 211%N :: be_encode 8 (z mod 2 ^ 64)%Z.

Definition mp_uint (n : N) (rest : bytes) : option Z :=
  match take n rest with Some b => Some (be_decode b) | None => None end.
Definition mp_sint (n : N) (rest : bytes) : option Z :=
  match take n rest with Some b => Some (wrap_signed (8 * Z.of_N n) (be_decode b)) | None => None end.

Definition mp_decode_int (b : bytes) : option Z :=
  match b with
  | [] => None
  | c :: rest =>
      if (c =? 192)%N then Some 0%Z                                  (* nil *)
      else if (c <=? 127)%N then Some (Z.of_N c)                     (* positive fixnum *)
      else if (224 <=? c)%N then Some (Z.of_N c - 256)%Z             (* negative fixnum *)
      else if (c =? 204)%N then mp_uint 1 rest
      else if (c =? 208)%N then mp_sint 1 rest
      else if (c =? 205)%N then mp_uint 2 rest
      else if (c =? 209)%N then mp_sint 2 rest
      else if (c =? 206)%N then mp_uint 4 rest
      else if (c =? 210)%N then mp_sint 4 rest
      else if (c =? 207)%N || (c =? 211)%N then mp_sint 8 rest       (* uint64 is cast to int64 *)
      else None
  end.

(** ** msgpack, Go string *)
Definition mp_encode_str (s : bytes) : bytes :=
  let l := Z.of_nat (length s) in
  (if l <? 32 then [Z.to_N (160 + l)]
   else if l <? 256 then 217%N :: be_encode 1 l
   else if l <? 65536 then 218%N :: be_encode 2 l
   else 219%N :: be_encode 4 l)%Z ++ s.

Definition mp_str_len (n : N) (rest : bytes) : option bytes :=
  match take n rest with
  | Some lb => take (Z.to_N (be_decode lb)) (skipn (N.to_nat n) rest)
  | None => None
  end.

Definition mp_decode_str (b : bytes) : option bytes :=
  match b with
  | [] => None
  | c :: rest =>
      if (c =? 192)%N then Some []                                   (* nil *)
      else if (160 <=? c)%N && (c <=? 191)%N then take (c - 160)%N rest
      else if (c =? 217)%N || (c =? 196)%N then mp_str_len 1 rest
      else if (c =? 218)%N || (c =? 197)%N then mp_str_len 2 rest
      else if (c =? 219)%N || (c =? 198)%N then mp_str_len 4 rest
      else None
  end.

(** ** cursors *)
Inductive cursor := CInt (z : Z) | CStr (s : bytes).
Inductive kind := KInt | KStr.     (* config.CursorType: reflect.TypeOf(0) / reflect.TypeOf("") *)

Definition kind_of (c : cursor) : kind := match c with CInt _ => KInt | CStr _ => KStr end.

(** SerializeCursor *)
Definition cursor_encode (c : cursor) : bytes :=
  b64_encode (match c with CInt z => mp_encode_int z | CStr s => mp_encode_str s end).

(** DeserializeCursor; [None] is Go's nil *)
Definition cursor_decode (k : kind) (s : bytes) : option cursor :=
  match b64_decode s with
  | None => None
  | Some b =>
      match k with
      | KInt => match mp_decode_int b with Some z => Some (CInt z) | None => None end
      | KStr => match mp_decode_str b with Some x => Some (CStr x) | None => None end
      end
  end.

(** the harness's cursorLess: [<] on Go ints, [<] on Go strings (bytewise lexicographic) *)
Fixpoint bytes_ltb (a b : bytes) : bool :=
  match a, b with
  | _, [] => false
  | [], _ :: _ => true
  | x :: xs, y :: ys => if (x <? y)%N then true else if (y <? x)%N then false else bytes_ltb xs ys
  end.

Definition cursor_ltb (a b : cursor) : bool :=
  match a, b with
  | CInt x, CInt y => Z.ltb x y
  | CStr x, CStr y => bytes_ltb x y
  | CInt _, CStr _ => true
  | CStr _, CInt _ => false
  end.

(** what SerializeCursor can faithfully encode: a 64-bit int, a string shorter than 2^32 whose
    elements are bytes *)
Definition cursor_ok (c : cursor) : Prop :=
  match c with
  | CInt z => (- 2 ^ 63 <= z < 2 ^ 63)%Z
  | CStr s => (Z.of_nat (length s) < 2 ^ 32)%Z /\ Forall (fun x => (x < 256)%N) s
  end.
