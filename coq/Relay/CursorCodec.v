(** * Relay/CursorCodec.v — transcription of SerializeCursor / DeserializeCursor (pagination.go:94-113)
    for the two cursor shapes the harness uses: Go [int] and Go [string].

      SerializeCursor(c)      = base64.RawURLEncoding.EncodeToString(msgpack.Marshal(c))
      DeserializeCursor(t, s) = nil unless RawURLEncoding.DecodeString(s) succeeds and
                                msgpack.Unmarshal of the bytes into a *t succeeds

    Third-party / standard-library code transcribed here (modelled, not verified):
    - encoding/base64 RawURLEncoding (no padding, non-strict: '\r' and '\n' are skipped anywhere,
      trailing bits of a final partial quantum are ignored, '=' is an invalid character);
    - vmihailenco/msgpack v4.0.4: [Marshal] of an [int] is always 0xd3 + 8 bytes big endian
      (useCompact is off), of a [string] the shortest str header + the bytes; [Unmarshal] into
      *int accepts nil, fixnums and every (u)int8..64 code, into *string accepts nil, fixstr,
      str8/16/32 and bin8/16/32; trailing bytes after the first value are ignored.
    Stage B adds (a) the struct cursor of the library itself, [TimeBasedCursor{Nano int64; Id string}]
    (pagination.go:666-669): msgpack encodes a struct as a map field name -> value, and decodes it
    with decodeStructValue (decode_map.go): nil, a map (fixmap/map16/map32; unknown keys are
    skipped with Decoder.Skip) or an array (fixarray/array16/array32; extra elements skipped);
    (b) Decoder.Skip for EVERY first byte 0x00-0xff ([mp_header]); (c) the length bound
    MaxCursorLength = 65536 of SerializeCursor / DeserializeCursor (fix 9d...: see findings).
    Loops whose trip count comes from the input (map32 / array32 claim up to 2^32-1 elements) and
    the recursion of Skip run on explicit fuel with a distinct [DOutOfFuel] / [SkOutOfFuel]
    outcome; CursorCodecTotal.v proves fuel = length of the input always suffices.
    No proofs in this file. *)
From Coq Require Import List NArith ZArith Bool.
From ApiFu Require Import Base.Sexp.
Import ListNotations.

(** ** base64url without padding *)
Section B64.
  Open Scope N_scope.

  Definition b64_char (s : N) : N :=
    if s <? 26 then 65 + s
    else if s <? 52 then 71 + s
    else if s <? 62 then s - 4
    else if s =? 62 then 45 else 95.

  Definition b64_val (c : N) : option N :=
    if (65 <=? c) && (c <=? 90) then Some (c - 65)
    else if (97 <=? c) && (c <=? 122) then Some (c - 71)
    else if (48 <=? c) && (c <=? 57) then Some (c + 4)
    else if c =? 45 then Some 62
    else if c =? 95 then Some 63
    else None.

  Fixpoint b64_encode (l : bytes) : bytes :=
    match l with
    | [] => []
    | [a] => [b64_char (a / 4); b64_char ((a mod 4) * 16)]
    | [a; b] => [b64_char (a / 4); b64_char ((a mod 4) * 16 + b / 16); b64_char ((b mod 16) * 4)]
    | a :: b :: c :: rest =>
        b64_char (a / 4) :: b64_char ((a mod 4) * 16 + b / 16)
        :: b64_char ((b mod 16) * 4 + c / 64) :: b64_char (c mod 64) :: b64_encode rest
    end.

  (** regrouping 6-bit values into bytes; a single left-over sextet is an error, the unused low
      bits of a final partial quantum are dropped (Go's non-strict mode) *)
  Fixpoint sextets_to_bytes (s : list N) : option bytes :=
    match s with
    | [] => Some []
    | [_] => None
    | [p; q] => Some [p * 4 + q / 16]
    | [p; q; r] => Some [p * 4 + q / 16; (q mod 16) * 16 + r / 4]
    | p :: q :: r :: t :: rest =>
        match sextets_to_bytes rest with
        | Some d => Some (p * 4 + q / 16 :: (q mod 16) * 16 + r / 4 :: (r mod 4) * 64 + t :: d)
        | None => None
        end
    end.

  Definition is_newline (c : N) : bool := (c =? 10) || (c =? 13).

  Definition b64_decode (s : bytes) : option bytes :=
    match map_opt b64_val (filter (fun c => negb (is_newline c)) s) with
    | Some sx => sextets_to_bytes sx
    | None => None
    end.
End B64.

(** ** big-endian integers *)
Definition be_decode (l : bytes) : Z := fold_left (fun acc b => (acc * 256 + Z.of_N b)%Z) l 0%Z.
Fixpoint be_encode (k : nat) (n : Z) : bytes :=
  match k with
  | O => []
  | S k' => be_encode k' (n / 256)%Z ++ [Z.to_N (n mod 256)%Z]
  end.

(** two's-complement reading of an unsigned [bits]-bit value: Go's int8(..)/int16(..)/... *)
Definition wrap_signed (bits : Z) (n : Z) : Z :=
  (if n <? 2 ^ (bits - 1) then n else n - 2 ^ bits)%Z.

(** the decoder's readN(n): the next [n] bytes, or an error when fewer remain.  [n] may be as
    large as 2^32-1, so it is converted to [nat] only when it is known to be small. *)
Definition take (n : N) (l : bytes) : option bytes :=
  if (N.of_nat (length l) <? n)%N then None else Some (firstn (N.to_nat n) l).

(** ** msgpack, Go int *)
Definition mp_encode_int (z : Z) : bytes := 211%N :: be_encode 8 (z mod 2 ^ 64)%Z.

Definition mp_uint (n : N) (rest : bytes) : option Z :=
  match take n rest with Some b => Some (be_decode b) | None => None end.
Definition mp_sint (n : N) (rest : bytes) : option Z :=
  match take n rest with Some b => Some (wrap_signed (8 * Z.of_N n) (be_decode b)) | None => None end.

Definition mp_decode_int (b : bytes) : option Z :=
  match b with
  | [] => None
  | c :: rest =>
      if (c =? 192)%N then Some 0%Z                                  (* nil *)
      else if (c <=? 127)%N then Some (Z.of_N c)                     (* positive fixnum *)
      else if (224 <=? c)%N then Some (Z.of_N c - 256)%Z             (* negative fixnum *)
      else if (c =? 204)%N then mp_uint 1 rest
      else if (c =? 208)%N then mp_sint 1 rest
      else if (c =? 205)%N then mp_uint 2 rest
      else if (c =? 209)%N then mp_sint 2 rest
      else if (c =? 206)%N then mp_uint 4 rest
      else if (c =? 210)%N then mp_sint 4 rest
      else if (c =? 207)%N || (c =? 211)%N then mp_sint 8 rest       (* uint64 is cast to int64 *)
      else None
  end.

(** ** msgpack, Go string *)
Definition mp_encode_str (s : bytes) : bytes :=
  let l := Z.of_nat (length s) in
  (if l <? 32 then [Z.to_N (160 + l)]
   else if l <? 256 then 217%N :: be_encode 1 l
   else if l <? 65536 then 218%N :: be_encode 2 l
   else 219%N :: be_encode 4 l)%Z ++ s.

Definition mp_str_len (n : N) (rest : bytes) : option bytes :=
  match take n rest with
  | Some lb => take (Z.to_N (be_decode lb)) (skipn (N.to_nat n) rest)
  | None => None
  end.

Definition mp_decode_str (b : bytes) : option bytes :=
  match b with
  | [] => None
  | c :: rest =>
      if (c =? 192)%N then Some []                                   (* nil *)
      else if (160 <=? c)%N && (c <=? 191)%N then take (c - 160)%N rest
      else if (c =? 217)%N || (c =? 196)%N then mp_str_len 1 rest
      else if (c =? 218)%N || (c =? 197)%N then mp_str_len 2 rest
      else if (c =? 219)%N || (c =? 198)%N then mp_str_len 4 rest
      else None
  end.


(** ** msgpack, stream readers: the value and the bytes after it (DecodeInt64 / DecodeString in the
    middle of a document) *)
Definition mp_read_uint (n : N) (rest : bytes) : option (Z * bytes) :=
  match take n rest with Some b => Some (be_decode b, skipn (N.to_nat n) rest) | None => None end.
Definition mp_read_sint (n : N) (rest : bytes) : option (Z * bytes) :=
  match take n rest with
  | Some b => Some (wrap_signed (8 * Z.of_N n) (be_decode b), skipn (N.to_nat n) rest)
  | None => None
  end.

(** Decoder.DecodeInt64 = readCode + Decoder.int(c) *)
Definition mp_read_int (b : bytes) : option (Z * bytes) :=
  match b with
  | [] => None
  | c :: rest =>
      if (c =? 192)%N then Some (0%Z, rest)
      else if (c <=? 127)%N then Some (Z.of_N c, rest)
      else if (224 <=? c)%N then Some ((Z.of_N c - 256)%Z, rest)
      else if (c =? 204)%N then mp_read_uint 1 rest
      else if (c =? 208)%N then mp_read_sint 1 rest
      else if (c =? 205)%N then mp_read_uint 2 rest
      else if (c =? 209)%N then mp_read_sint 2 rest
      else if (c =? 206)%N then mp_read_uint 4 rest
      else if (c =? 210)%N then mp_read_sint 4 rest
      else if (c =? 207)%N || (c =? 211)%N then mp_read_sint 8 rest
      else None
  end.

(** a [k]-byte big-endian length field and the bytes after it (Decoder.uint8/16/32) *)
Definition mp_len_field (k : N) (rest : bytes) : option (N * bytes) :=
  match take k rest with
  | Some lb => Some (Z.to_N (be_decode lb), skipn (N.to_nat k) rest)
  | None => None
  end.

(** readN(n) / skipN(n): the next [n] bytes and what follows; an error when fewer remain.  [n] is
    converted to [nat] only after it is known not to exceed the input. *)
Definition mp_payload (n : N) (rest : bytes) : option (bytes * bytes) :=
  if (N.of_nat (length rest) <? n)%N then None
  else Some (firstn (N.to_nat n) rest, skipn (N.to_nat n) rest).

Definition mp_len_payload (k : N) (extra : N) (rest : bytes) : option (bytes * bytes) :=
  match mp_len_field k rest with
  | Some (n, r) => mp_payload (n + extra) r
  | None => None
  end.

(** Decoder.DecodeString = readCode + Decoder.string(c): nil, fixstr, str8/16/32, bin8/16/32 *)
Definition mp_read_str (b : bytes) : option (bytes * bytes) :=
  match b with
  | [] => None
  | c :: rest =>
      if (c =? 192)%N then Some ([], rest)
      else if (160 <=? c)%N && (c <=? 191)%N then mp_payload (c - 160) rest
      else if (c =? 217)%N || (c =? 196)%N then mp_len_payload 1 0 rest
      else if (c =? 218)%N || (c =? 197)%N then mp_len_payload 2 0 rest
      else if (c =? 219)%N || (c =? 198)%N then mp_len_payload 4 0 rest
      else None
  end.

(** ** Decoder.Skip: one case for EVERY first byte 0x00-0xff.
    [mp_header c rest] = what Skip does with a value whose first byte is [c] before it recurses:
    [Some (k, rest')]: header and payload consumed, [k] nested values still to skip (skipSlice:
    n, skipMap: 2n — up to 2*(2^32-1)); [None]: an error (unknown code 0xc1, short read).
      0x00-0x7f positive fixnum      0x80-0x8f fixmap       0x90-0x9f fixarray     0xa0-0xbf fixstr
      0xc0 nil   0xc1 (never used: error)   0xc2 false   0xc3 true
      0xc4-0xc6 bin8/16/32           0xc7-0xc9 ext8/16/32 (length + 1 type byte)
      0xca float32   0xcb float64    0xcc-0xcf uint8/16/32/64   0xd0-0xd3 int8/16/32/64
      0xd4-0xd8 fixext1/2/4/8/16 (+ 1 type byte)                0xd9-0xdb str8/16/32
      0xdc array16   0xdd array32    0xde map16   0xdf map32    0xe0-0xff negative fixnum *)
Definition mp_drop (n : N) (rest : bytes) : option (N * bytes) :=
  match mp_payload n rest with Some (_, r) => Some (0%N, r) | None => None end.
Definition mp_len_drop (k extra : N) (rest : bytes) : option (N * bytes) :=
  match mp_len_payload k extra rest with Some (_, r) => Some (0%N, r) | None => None end.
Definition mp_children (k mult : N) (rest : bytes) : option (N * bytes) :=
  match mp_len_field k rest with Some (n, r) => Some ((mult * n)%N, r) | None => None end.

Definition mp_header (c : N) (rest : bytes) : option (N * bytes) :=
  (if c <=? 127 then Some (0, rest)
   else if c <=? 143 then Some (2 * (c - 128), rest)
   else if c <=? 159 then Some (c - 144, rest)
   else if c <=? 191 then mp_drop (c - 160) rest
   else if c =? 192 then Some (0, rest)
   else if c =? 193 then None
   else if c <=? 195 then Some (0, rest)
   else if c =? 196 then mp_len_drop 1 0 rest
   else if c =? 197 then mp_len_drop 2 0 rest
   else if c =? 198 then mp_len_drop 4 0 rest
   else if c =? 199 then mp_len_drop 1 1 rest
   else if c =? 200 then mp_len_drop 2 1 rest
   else if c =? 201 then mp_len_drop 4 1 rest
   else if c =? 202 then mp_drop 4 rest
   else if c =? 203 then mp_drop 8 rest
   else if c =? 204 then mp_drop 1 rest
   else if c =? 205 then mp_drop 2 rest
   else if c =? 206 then mp_drop 4 rest
   else if c =? 207 then mp_drop 8 rest
   else if c =? 208 then mp_drop 1 rest
   else if c =? 209 then mp_drop 2 rest
   else if c =? 210 then mp_drop 4 rest
   else if c =? 211 then mp_drop 8 rest
   else if c =? 212 then mp_drop 2 rest
   else if c =? 213 then mp_drop 3 rest
   else if c =? 214 then mp_drop 5 rest
   else if c =? 215 then mp_drop 9 rest
   else if c =? 216 then mp_drop 17 rest
   else if c =? 217 then mp_len_drop 1 0 rest
   else if c =? 218 then mp_len_drop 2 0 rest
   else if c =? 219 then mp_len_drop 4 0 rest
   else if c =? 220 then mp_children 2 1 rest
   else if c =? 221 then mp_children 4 1 rest
   else if c =? 222 then mp_children 2 2 rest
   else if c =? 223 then mp_children 4 2 rest
   else Some (0, rest))%N.

(** skip [todo] consecutive values.  Go's Skip is recursive (skipSlice / skipMap call Skip per
    element); since Skip returns nothing but an error and the read position, skipping a value with
    [k] nested values is skipping its header and then [k] more values: the recursion is
    transcribed as a count of values still to skip.  Every step consumes the first byte of a
    value, so the number of Skip calls (and with it Go's recursion depth) is at most the number
    of input bytes. *)
Inductive skres := SkOk (rest : bytes) | SkErr | SkOutOfFuel.

Fixpoint mp_skip (fuel : nat) (todo : N) (b : bytes) : skres :=
  if (todo =? 0)%N then SkOk b else
  match b with
  | [] => SkErr
  | c :: rest =>
      match mp_header c rest with
      | None => SkErr
      | Some (k, rest') =>
          match fuel with
          | O => SkOutOfFuel
          | S f => mp_skip f (todo - 1 + k)%N rest'
          end
      end
  end.

(** The same Skip in the shape of the Go code — recursive: a container's elements are skipped by
    nested Skip calls ([skip_depth f ch r]), then the enclosing loop goes on with the siblings —
    returning also how deep the Skip frames were stacked (a value without elements: 1).
    CursorCodecTotal.v: it agrees with [mp_skip] on every input and its depth never exceeds the
    number of bytes consumed. *)
Inductive dskres := DkOk (rest : bytes) (depth : nat) | DkErr | DkOutOfFuel.

Fixpoint skip_depth (fuel : nat) (k : N) (b : bytes) : dskres :=
  if (k =? 0)%N then DkOk b 0 else
  match b with
  | [] => DkErr
  | c :: rest =>
      match mp_header c rest with
      | None => DkErr
      | Some (ch, r) =>
          match fuel with
          | O => DkOutOfFuel
          | S f =>
              match skip_depth f ch r with                       (* skipSlice / skipMap: one level deeper *)
              | DkOk r1 d1 =>
                  match skip_depth f (k - 1)%N r1 with           (* the caller's loop goes on *)
                  | DkOk r2 d2 => DkOk r2 (Nat.max (S d1) d2)
                  | x => x
                  end
              | x => x
              end
          end
      end
  end.

(** ** msgpack, the struct TimeBasedCursor{Nano int64; Id string} *)
Inductive dres (A : Type) := DOk (a : A) | DErr | DOutOfFuel.
Arguments DOk {A} a. Arguments DErr {A}. Arguments DOutOfFuel {A}.

Definition name_nano : bytes := [78; 97; 110; 111]%N.      (* "Nano" *)
Definition name_id : bytes := [73; 100]%N.                 (* "Id" *)

(** Marshal: fixmap of 2, keys in field order, int64 as 0xd3, string with the shortest header *)
Definition mp_encode_time (nano : Z) (id : bytes) : bytes :=
  [130; 164]%N ++ name_nano ++ mp_encode_int nano ++ [162%N] ++ name_id ++ mp_encode_str id.

(** decodeStructValue, map form: [n] times a key (DecodeString) and then either the field's
    decoder (fields.Table[name]) or Skip *)
Fixpoint mp_struct_map (fuel : nat) (n : N) (b : bytes) (acc : Z * bytes) : dres (Z * bytes) :=
  if (n =? 0)%N then DOk acc else
  match mp_read_str b with
  | None => DErr
  | Some (name, r) =>
      match fuel with
      | O => DOutOfFuel
      | S f =>
          if bytes_eqb name name_nano then
            match mp_read_int r with
            | Some (z, r') => mp_struct_map f (n - 1)%N r' (z, snd acc)
            | None => DErr
            end
          else if bytes_eqb name name_id then
            match mp_read_str r with
            | Some (s, r') => mp_struct_map f (n - 1)%N r' (fst acc, s)
            | None => DErr
            end
          else
            match mp_skip f 1 r with
            | SkOk r' => mp_struct_map f (n - 1)%N r' acc
            | SkErr => DErr
            | SkOutOfFuel => DOutOfFuel
            end
      end
  end.

(** array form: the fields in declaration order as far as the array goes, extra elements skipped *)
Definition mp_struct_arr (fuel : nat) (n : N) (b : bytes) : dres (Z * bytes) :=
  if (n =? 0)%N then DOk (0%Z, []) else
  match mp_read_int b with
  | None => DErr
  | Some (z, r) =>
      if (n =? 1)%N then DOk (z, []) else
      match mp_read_str r with
      | None => DErr
      | Some (s, r') =>
          match mp_skip fuel (n - 2)%N r' with
          | SkOk _ => DOk (z, s)
          | SkErr => DErr
          | SkOutOfFuel => DOutOfFuel
          end
      end
  end.

Definition mp_decode_time (fuel : nat) (b : bytes) : dres (Z * bytes) :=
  match b with
  | [] => DErr
  | c :: rest =>
      if (c =? 192)%N then DOk (0%Z, [])                                    (* nil: the zero struct *)
      else if (128 <=? c)%N && (c <=? 143)%N then mp_struct_map fuel (c - 128)%N rest (0%Z, [])
      else if (c =? 222)%N then
        match mp_len_field 2 rest with Some (n, r) => mp_struct_map fuel n r (0%Z, []) | None => DErr end
      else if (c =? 223)%N then
        match mp_len_field 4 rest with Some (n, r) => mp_struct_map fuel n r (0%Z, []) | None => DErr end
      else if (144 <=? c)%N && (c <=? 159)%N then mp_struct_arr fuel (c - 144)%N rest
      else if (c =? 220)%N then
        match mp_len_field 2 rest with Some (n, r) => mp_struct_arr fuel n r | None => DErr end
      else if (c =? 221)%N then
        match mp_len_field 4 rest with Some (n, r) => mp_struct_arr fuel n r | None => DErr end
      else DErr
  end.

(** ** cursors *)
Inductive cursor := CInt (z : Z) | CStr (s : bytes) | CTime (nano : Z) (id : bytes).
(* config.CursorType: reflect.TypeOf(0) / reflect.TypeOf("") / reflect.TypeOf(TimeBasedCursor{}) *)
Inductive kind := KInt | KStr | KTime.

Definition kind_of (c : cursor) : kind :=
  match c with CInt _ => KInt | CStr _ => KStr | CTime _ _ => KTime end.

(** MaxCursorLength (pagination.go) *)
Definition max_cursor_length : N := 65536.
Definition too_long (s : bytes) : bool := (max_cursor_length <? N.of_nat (length s))%N.

(** the string SerializeCursor builds *)
Definition cursor_encode (c : cursor) : bytes :=
  b64_encode (match c with
              | CInt z => mp_encode_int z
              | CStr s => mp_encode_str s
              | CTime n i => mp_encode_time n i
              end).

(** SerializeCursor: an error ([None]) when the result would exceed MaxCursorLength (the other
    error of the real function — a Go type msgpack cannot encode — does not arise for these three
    cursor types; RelayModelF.v treats SerializeCursor as a partial function in general) *)
Definition cursor_encode_f (c : cursor) : option bytes :=
  let s := cursor_encode c in if too_long s then None else Some s.

(** DeserializeCursor on explicit fuel *)
Definition cursor_decode_f (fuel : nat) (k : kind) (s : bytes) : dres cursor :=
  if too_long s then DErr else
  match b64_decode s with
  | None => DErr
  | Some b =>
      match k with
      | KInt => match mp_decode_int b with Some z => DOk (CInt z) | None => DErr end
      | KStr => match mp_decode_str b with Some x => DOk (CStr x) | None => DErr end
      | KTime => match mp_decode_time fuel b with
                 | DOk (n, i) => DOk (CTime n i)
                 | DErr => DErr
                 | DOutOfFuel => DOutOfFuel
                 end
      end
  end.

(** DeserializeCursor; [None] is Go's nil.  The fuel is the length of the string
    ([cursor_decode_never_out_of_fuel], CursorCodecTotal.v: [DOutOfFuel] does not occur). *)
Definition cursor_decode (k : kind) (s : bytes) : option cursor :=
  match cursor_decode_f (length s) k s with DOk c => Some c | _ => None end.

(** the harness's cursorLess: [<] on Go ints, [<] on Go strings (bytewise lexicographic) *)
Fixpoint bytes_ltb (a b : bytes) : bool :=
  match a, b with
  | _, [] => false
  | [], _ :: _ => true
  | x :: xs, y :: ys => if (x <? y)%N then true else if (y <? x)%N then false else bytes_ltb xs ys
  end.

Definition cursor_ltb (a b : cursor) : bool :=
  match a, b with
  | CInt x, CInt y => Z.ltb x y
  | CStr x, CStr y => bytes_ltb x y
  (* TimeBasedCursor.LessThan: c.Nano < o.Nano || (c.Nano == o.Nano && strings.Compare(c.Id, o.Id) < 0) *)
  | CTime n i, CTime m j => Z.ltb n m || (Z.eqb n m && bytes_ltb i j)
  | CInt _, _ => true
  | CStr _, CInt _ => false
  | CStr _, CTime _ _ => true
  | CTime _ _, _ => false
  end.

(** what SerializeCursor can faithfully encode: a 64-bit int, a string shorter than 2^32 whose
    elements are bytes — and the result within MaxCursorLength *)
Definition cursor_shape_ok (c : cursor) : Prop :=
  match c with
  | CInt z => (- 2 ^ 63 <= z < 2 ^ 63)%Z
  | CStr s => (Z.of_nat (length s) < 2 ^ 32)%Z /\ Forall (fun x => (x < 256)%N) s
  | CTime n i => (- 2 ^ 63 <= n < 2 ^ 63)%Z /\ (Z.of_nat (length i) < 2 ^ 32)%Z /\ Forall (fun x => (x < 256)%N) i
  end.
Definition cursor_ok (c : cursor) : Prop := cursor_shape_ok c /\ too_long (cursor_encode c) = false.
