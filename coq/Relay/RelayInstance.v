(** * Relay/RelayInstance.v — the generic C09 theorems instantiated with the real cursor codec
    (CursorCodec.v) and the harness's cursor order: their hypotheses are met by it. *)
From Coq Require Import List ZArith Bool.
From ApiFu Require Import Base.Sexp Relay.CursorCodec Relay.CursorCodecProofs
     Relay.RelayModel Relay.RelayModelF Relay.RelaySpec Relay.RelayProofs Relay.RelaySerFailProofs.
Import ListNotations.
Open Scope Z_scope.

Section Instance.
  Variable E : Type.
  Variable cur : E -> cursor.
  Variable k : kind.                     (* config.CursorType *)
  Variable a : app cursor E.
  Variables edges S : list E.

  Hypothesis Happ : app_ok cursor E cursor_ltb cur a edges S.
  (** every edge's cursor has the configured type and is encodable *)
  Hypothesis Hcur : forall e, In e S -> kind_of (cur e) = k /\ cursor_ok (cur e).

  Lemma decode_encode_instance : forall e, In e S -> cursor_decode k (cursor_encode (cur e)) = Some (cur e).
  Proof. intros e He. destruct (Hcur e He) as [Hk Hok]. rewrite <- Hk. apply cursor_roundtrip. exact Hok. Qed.

  Theorem walk_forward_codec n : 1 <= n ->
    walk_forward E (as_server cursor E cursor_ltb cur cursor_encode (cursor_decode k) a) n (Datatypes.S (length S)) None
    = Done S.
  Proof.
    apply (walk_forward_exact cursor E cursor_ltb cur cursor_ltb_irrefl cursor_ltb_trans cursor_ltb_total
             cursor_encode (cursor_decode k) a edges S Happ decode_encode_instance cursor_encode_nonempty).
  Qed.

  Theorem walk_backward_codec n : 1 <= n ->
    walk_backward E (as_server cursor E cursor_ltb cur cursor_encode (cursor_decode k) a) n (Datatypes.S (length S)) None
    = Done S.
  Proof.
    apply (walk_backward_exact cursor E cursor_ltb cur cursor_ltb_irrefl cursor_ltb_trans cursor_ltb_total
             cursor_encode (cursor_decode k) a edges S Happ decode_encode_instance cursor_encode_nonempty).
  Qed.
  (** stage B: the same through the model the check runs (SerializeCursor with its length bound)
      and through one-directional connections *)
  Lemma enc_ok_instance : forall e, In e S -> enc_ok cursor E cur cursor_encode cursor_encode_f e.
  Proof.
    intros e He. destruct (Hcur e He) as [_ [_ Hlen]]. unfold enc_ok, cursor_encode_f. cbv zeta. rewrite Hlen. reflexivity.
  Qed.

  Theorem walk_forward_dir_codec d n : d = ForwardOnly \/ d = Bidirectional -> 1 <= n ->
    walk_forward E (as_server_dir cursor E cursor_ltb cur cursor_encode_f (cursor_decode k) d a) n (Datatypes.S (length S)) None
    = Done S.
  Proof.
    intros Hd Hn.
    exact (walk_forward_exact_dir cursor E cursor_ltb cur cursor_ltb_irrefl cursor_ltb_trans cursor_ltb_total
             cursor_encode cursor_encode_f (cursor_decode k) a edges S d Happ enc_ok_instance decode_encode_instance
             cursor_encode_nonempty Hd n Hn).
  Qed.

  Theorem walk_backward_dir_codec d n : d = BackwardOnly \/ d = Bidirectional -> 1 <= n ->
    walk_backward E (as_server_dir cursor E cursor_ltb cur cursor_encode_f (cursor_decode k) d a) n (Datatypes.S (length S)) None
    = Done S.
  Proof.
    intros Hd Hn.
    exact (walk_backward_exact_dir cursor E cursor_ltb cur cursor_ltb_irrefl cursor_ltb_trans cursor_ltb_total
             cursor_encode cursor_encode_f (cursor_decode k) a edges S d Happ enc_ok_instance decode_encode_instance
             cursor_encode_nonempty Hd n Hn).
  Qed.
End Instance.
