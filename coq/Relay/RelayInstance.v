(** * Relay/RelayInstance.v — the generic C09 theorems instantiated with the real cursor codec
    (CursorCodec.v) and the harness's cursor order: their hypotheses are met by it. *)
From Coq Require Import List ZArith Bool.
From ApiFu Require Import Base.Sexp Relay.CursorCodec Relay.CursorCodecProofs Relay.CursorCodecTotal
     Relay.RelayModel Relay.RelayModelF Relay.RelaySpec Relay.RelayProofs Relay.RelaySerFailProofs.
Import ListNotations.
Open Scope Z_scope.

Section Instance.
  Variable E : Type.
  Variable cur : E -> cursor.
  Variable k : kind.                     (* config.CursorType *)
  Variable a : app cursor E.
  Variables edges S : list E.

  Hypothesis Happ : app_ok cursor E cursor_ltb cur a edges S.
  (** every edge's cursor has the configured type and is encodable *)
  Hypothesis Hcur : forall e, In e S -> kind_of (cur e) = k /\ cursor_ok (cur e).

  Lemma decode_encode_instance : forall e, In e S -> cursor_decode k (cursor_encode (cur e)) = Some (cur e).
  Proof. intros e He. destruct (Hcur e He) as [Hk Hok]. rewrite <- Hk. apply cursor_roundtrip. exact Hok. Qed.

  Theorem walk_forward_codec n : 1 <= n ->
    walk_forward E (as_server cursor E cursor_ltb cur cursor_encode (cursor_decode k) a) n (Datatypes.S (length S)) None
    = Done S.
  Proof.
    apply (walk_forward_exact cursor E cursor_ltb cur cursor_ltb_irrefl cursor_ltb_trans cursor_ltb_total
             cursor_encode (cursor_decode k) a edges S Happ decode_encode_instance cursor_encode_nonempty).
  Qed.

  Theorem walk_backward_codec n : 1 <= n ->
    walk_backward E (as_server cursor E cursor_ltb cur cursor_encode (cursor_decode k) a) n (Datatypes.S (length S)) None
    = Done S.
  Proof.
    apply (walk_backward_exact cursor E cursor_ltb cur cursor_ltb_irrefl cursor_ltb_trans cursor_ltb_total
             cursor_encode (cursor_decode k) a edges S Happ decode_encode_instance cursor_encode_nonempty).
  Qed.
  (** stage B: the same through the model the check runs (SerializeCursor with its length bound)
      and through one-directional connections *)
  Lemma enc_ok_instance : forall e, In e S -> enc_ok cursor E cur cursor_encode cursor_encode_f e.
  Proof.
    intros e He. destruct (Hcur e He) as [_ [_ Hlen]]. unfold enc_ok, cursor_encode_f. cbv zeta. rewrite Hlen. reflexivity.
  Qed.

  Theorem walk_forward_dir_codec d n : d = ForwardOnly \/ d = Bidirectional -> 1 <= n ->
    walk_forward E (as_server_dir cursor E cursor_ltb cur cursor_encode_f (cursor_decode k) d a) n (Datatypes.S (length S)) None
    = Done S.
  Proof.
    intros Hd Hn.
    exact (walk_forward_exact_dir cursor E cursor_ltb cur cursor_ltb_irrefl cursor_ltb_trans cursor_ltb_total
             cursor_encode cursor_encode_f (cursor_decode k) a edges S d Happ enc_ok_instance decode_encode_instance
             cursor_encode_nonempty Hd n Hn).
  Qed.

  Theorem walk_backward_dir_codec d n : d = BackwardOnly \/ d = Bidirectional -> 1 <= n ->
    walk_backward E (as_server_dir cursor E cursor_ltb cur cursor_encode_f (cursor_decode k) d a) n (Datatypes.S (length S)) None
    = Done S.
  Proof.
    intros Hd Hn.
    exact (walk_backward_exact_dir cursor E cursor_ltb cur cursor_ltb_irrefl cursor_ltb_trans cursor_ltb_total
             cursor_encode cursor_encode_f (cursor_decode k) a edges S d Happ enc_ok_instance decode_encode_instance
             cursor_encode_nonempty Hd n Hn).
  Qed.
  (** arbitrary counts and arbitrary byte strings as cursors, against the model the check runs with
      the real codec: both strings are decoded within fuel = their length to a value or an error,
      and the field answers as [arbitrary_cursor_f] says — never with the panic outcome *)
  Theorem arbitrary_cursor_codec ar sel :
    (forall s, cursor_decode_f (length s) k s <> DOutOfFuel) /\
    serve_f cursor E cursor_ltb cur cursor_encode_f (cursor_decode k) sel a ar <> FError EPanicked /\
    (args_rejected (a_first ar) (a_last ar) = true ->
       exists e, serve_f cursor E cursor_ltb cur cursor_encode_f (cursor_decode k) sel a ar = FError e /\
                 (e = EFirstNegative \/ e = EBothFirstLast \/ e = ELastNegative \/ e = ENoCount)) /\
    (args_rejected (a_first ar) (a_last ar) = false ->
       serve_f cursor E cursor_ltb cur cursor_encode_f (cursor_decode k) sel a ar = FError EInvalidAfter \/
       serve_f cursor E cursor_ltb cur cursor_encode_f (cursor_decode k) sel a ar = FError EInvalidBefore \/
       exists af bf,
         decode_arg cursor (cursor_decode k) (a_after ar) EInvalidAfter = Ok af /\
         decode_arg cursor (cursor_decode k) (a_before ar) EInvalidBefore = Ok bf /\
         response_ok cursor E cursor_ltb cur cursor_encode S af bf (a_first ar) (a_last ar)
           (serve cursor E cursor_ltb cur cursor_encode (cursor_decode k) a ar) /\
         serve_f cursor E cursor_ltb cur cursor_encode_f (cursor_decode k) sel a ar =
           lift cursor E cur cursor_encode sel (serve cursor E cursor_ltb cur cursor_encode (cursor_decode k) a ar)).
  Proof.
    split; [intro s; apply cursor_decode_never_out_of_fuel; apply Nat.le_refl|].
    exact (arbitrary_cursor_f cursor E cursor_ltb cur cursor_ltb_irrefl cursor_ltb_trans cursor_ltb_total
             cursor_encode cursor_encode_f (cursor_decode k) a edges S ar sel Happ enc_ok_instance).
  Qed.
End Instance.
