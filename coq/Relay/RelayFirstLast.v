(** * Relay/RelayFirstLast.v — [first] and [last] together (accepted by the PUBLIC function
    pagination.EdgesToReturn, rejected by every connection field).

    The Relay text: "HasPreviousPage(allEdges, before, after, first, last): 1. If last is set:
    a. Let edges be the result of calling ApplyCursorsToEdges(allEdges, before, after).  b. If
    edges contains more than last elements return true, otherwise false."  The count is taken
    BEFORE the [first]-truncation of EdgesToReturn.  The prose of the same section: "hasPreviousPage
    is used to indicate whether more edges exist prior to the set defined by the clients
    arguments" — and C09: "never true when no further edge exists in that direction".

    [first_last_dilemma]: for edges 1,2,3 with first = 2, last = 2 the formula demands [true]
    although the page is [1;2] and nothing precedes it: on such inputs NO implementation can meet
    both clauses of C09 (flag >= the formula's value, and flag sound).  The specification itself
    "strongly discourages" the combination.
    [first_last_prev_exact]: pagination.EdgesToReturn answers with the formula applied to the
    edges that survive the [first]-truncation, which is sound for all inputs
    ([RelayProofs.has_prev_sound]) and is the prose answer restricted to the range.
    Decision: not a violation of C09 by the public function; the required-ness clause is stated
    for the other combinations ([has_prev_required_holds] carries [both_given = false]). *)
From Coq Require Import List NArith ZArith Bool Lia Sorting.Sorted Sorting.Permutation.
From ApiFu Require Import Base.Sexp Relay.RelayModel Relay.RelaySpec Relay.RelayProofs.
Import ListNotations.
Open Scope Z_scope.

Section FirstLast.
  Variables C E : Type.
  Variable ltb : C -> C -> bool.
  Variable cur : E -> C.
  Hypothesis ltb_irrefl : forall a, ltb a a = false.
  Hypothesis ltb_trans : forall a b c, ltb a b = true -> ltb b c = true -> ltb a c = true.
  Hypothesis ltb_total : forall a b, ltb a b = true \/ a = b \/ ltb b a = true.

  Theorem first_last_prev_exact edges S after before n m page pi :
    connection_of C E ltb cur edges S ->
    edges_to_return C E ltb cur edges after before (Some n) (Some m) = Ret (page, pi) ->
    pi_prev pi = count_gt E (keep_first E n (position_apply_cursors C E ltb cur S before after)) m /\
    pi_next pi = count_gt E (position_apply_cursors C E ltb cur S before after) n.
  Proof.
    intros HC HR.
    rewrite (edges_to_return_closed C E ltb cur ltb_irrefl ltb_trans ltb_total edges S after before (Some n) (Some m) HC) in HR.
    cbv zeta in HR. unfold cut_first, cut_last, keep_first, count_gt, len in *.
    set (R := position_apply_cursors C E ltb cur S before after) in *.
    destruct (Z.of_nat (length R) >? n) eqn:H1.
    - destruct (n <? 0); [discriminate|].
      destruct (Z.of_nat (length (firstn (Z.to_nat n) R)) >? m) eqn:H2.
      + destruct (m <? 0); [discriminate|]. inversion HR; subst. simpl. auto.
      + inversion HR; subst. simpl. auto.
    - destruct (Z.of_nat (length R) >? m) eqn:H2.
      + destruct (m <? 0); [discriminate|]. inversion HR; subst. simpl. auto.
      + inversion HR; subst. simpl. auto.
  Qed.
End FirstLast.

(** the formula of the specification against its prose (and C09's soundness clause) *)
Theorem first_last_dilemma :
  exists (S : list Z) (first last : option Z) (page : list Z),
    spec_edges Z Z Z.ltb (fun x => x) S None None first last = Some page /\
    has_prev_required Z Z Z.ltb (fun x => x) S None None last = true /\
    ~ edge_before_start Z Z Z.ltb (fun x => x) S page.
Proof.
  exists [1; 2; 3], (Some 2), (Some 2), [1; 2].
  split; [reflexivity|]. split; [reflexivity|].
  intros [e [Hin [Hnot Hlt]]].
  destruct Hin as [<-|[<-|[<-|[]]]].
  - apply Hnot. left. reflexivity.
  - apply Hnot. right. left. reflexivity.
  - specialize (Hlt 1 (or_introl eq_refl)). discriminate.
Qed.
