(** * Relay/RelaySpec.v — what C09 demands, written from the GraphQL Cursor Connections
    Specification (relay.dev/graphql/connections.htm, "Pagination algorithm" and "PageInfo") and
    from the property statement, independently of the code (this file does not import the model).

    The connection of an edge set is the list of its edges in cursor order ([connection_of]).
    The specification's algorithms are written over that list.

    Cursors that do not belong to an edge: the Relay text says "if afterEdge exists" and otherwise
    ignores the cursor; C09 says such a cursor is "treated as some position in the cursor order".
    [relay_apply_cursors] is the literal Relay text, [position_apply_cursors] the position reading;
    they coincide whenever the cursors given are cursors of edges and [after] comes before
    [before] ([RelayProofs.relay_literal_agrees]).  The reference result is the position reading. *)
From Coq Require Import List NArith ZArith Bool Sorting.Sorted Sorting.Permutation.
From ApiFu Require Import Base.Sexp.
Import ListNotations.
Open Scope Z_scope.

Section Spec.
  Variables C E : Type.
  Variable ltb : C -> C -> bool.     (* the total order on cursors *)
  Variable cur : E -> C.

  Definition ceqb (a b : C) : bool := negb (ltb a b) && negb (ltb b a).

  (** ** the connection of an edge set *)
  Definition ordered (S : list E) : Prop :=
    StronglySorted (fun x y => ltb (cur x) (cur y) = true) S.
  Definition connection_of (edges S : list E) : Prop := Permutation S edges /\ ordered S.

  (** ** ApplyCursorsToEdges(allEdges, before, after), literally *)
  (** "Let afterEdge be the edge in edges whose cursor is equal to the after argument.
       If afterEdge exists: remove all elements of edges before and including afterEdge." *)
  Fixpoint remove_through (a : C) (l : list E) : option (list E) :=
    match l with
    | [] => None
    | e :: r => if ceqb (cur e) a then Some r else remove_through a r
    end.
  (** "Let beforeEdge be the edge in edges whose cursor is equal to the before argument.
       If beforeEdge exists: remove all elements of edges after and including beforeEdge." *)
  Fixpoint keep_until (b : C) (l : list E) : option (list E) :=
    match l with
    | [] => None
    | e :: r => if ceqb (cur e) b then Some []
                else match keep_until b r with Some k => Some (e :: k) | None => None end
    end.

  Definition relay_apply_cursors (all : list E) (before after : option C) : list E :=
    let edges := match after with
                 | Some a => match remove_through a all with Some r => r | None => all end
                 | None => all
                 end in
    match before with
    | Some b => match keep_until b edges with Some k => k | None => edges end
    | None => edges
    end.

  (** ** the position reading: the edges strictly between the two positions *)
  Definition in_range (after before : option C) (c : C) : bool :=
    match after with Some a => ltb a c | None => true end &&
    match before with Some b => ltb c b | None => true end.

  Definition position_apply_cursors (all : list E) (before after : option C) : list E :=
    filter (fun e => in_range after before (cur e)) all.

  (** ** EdgesToReturn(allEdges, before, after, first, last) *)
  (** "If edges has length greater than first, slice edges to be of length first by removing
       edges from the end of edges." *)
  Definition keep_first (n : Z) (l : list E) : list E :=
    if Z.of_nat (length l) >? n then firstn (Z.to_nat n) l else l.
  (** "... slice edges to be of length last by removing edges from the start of edges." *)
  Definition keep_last (n : Z) (l : list E) : list E :=
    if Z.of_nat (length l) >? n then rev (firstn (Z.to_nat n) (rev l)) else l.

  (** [None]: "throw an error" (negative first / last) *)
  Definition slice_edges (edges : list E) (first last : option Z) : option (list E) :=
    match first with
    | Some n => if n <? 0 then None else
                  match last with
                  | Some m => if m <? 0 then None else Some (keep_last m (keep_first n edges))
                  | None => Some (keep_first n edges)
                  end
    | None => match last with
              | Some m => if m <? 0 then None else Some (keep_last m edges)
              | None => Some edges
              end
    end.

  Definition relay_edges_to_return (all : list E) (before after : option C) (first last : option Z) :=
    slice_edges (relay_apply_cursors all before after) first last.

  (** the reference result of C09 *)
  Definition spec_edges (all : list E) (before after : option C) (first last : option Z) :=
    slice_edges (position_apply_cursors all before after) first last.

  (** ** PageInfo *)
  (** HasPreviousPage: "If last is set: let edges be the result of calling ApplyCursorsToEdges; if
      edges contains more than last elements return true, otherwise false.  If after is set: if the
      server can efficiently determine that elements exist prior to after, return true.  Return
      false."  Hence a required value and an allowed value. *)
  Definition count_gt (l : list E) (n : Z) : bool := Z.of_nat (length l) >? n.

  Definition has_prev_required (all : list E) (before after : option C) (last : option Z) : bool :=
    match last with
    | Some n => count_gt (position_apply_cursors all before after) n
    | None => false
    end.
  Definition has_prev_allowed (all : list E) (before after : option C) (last : option Z) : bool :=
    match last with
    | Some n => count_gt (position_apply_cursors all before after) n
    | None => match after with
              | Some a => existsb (fun e => negb (ltb a (cur e))) all   (* an edge at or before [after] *)
              | None => false
              end
    end.
  Definition has_next_required (all : list E) (before after : option C) (first : option Z) : bool :=
    match first with
    | Some n => count_gt (position_apply_cursors all before after) n
    | None => false
    end.
  Definition has_next_allowed (all : list E) (before after : option C) (first : option Z) : bool :=
    match first with
    | Some n => count_gt (position_apply_cursors all before after) n
    | None => match before with
              | Some b => existsb (fun e => negb (ltb (cur e) b)) all   (* an edge at or after [before] *)
              | None => false
              end
    end.

  (** "never true when no further edge exists in that direction": a witness not on the page and
      beyond every edge of the page *)
  Definition edge_beyond_end (all page : list E) : Prop :=
    exists e, In e all /\ ~ In e page /\ forall p, In p page -> ltb (cur p) (cur e) = true.
  Definition edge_before_start (all page : list E) : Prop :=
    exists e, In e all /\ ~ In e page /\ forall p, In p page -> ltb (cur e) (cur p) = true.

  (** [first] and [last] together ("strongly discouraged" by the specification; a connection
      field rejects it, pagination.EdgesToReturn accepts it) *)
  Definition both_given (first last : option Z) : bool :=
    match first, last with Some _, Some _ => true | _, _ => false end.

  (** ** argument errors: a negative count, a missing count, first and last together *)
  Definition args_rejected (first last : option Z) : bool :=
    match first, last with
    | Some _, Some _ => true
    | None, None => true
    | Some n, None => n <? 0
    | None, Some n => n <? 0
    end.
End Spec.

(** ** the paging client: follow endCursor with [after] (startCursor with [before]) until the
    server says there is no further page.  The server is any function from the four arguments
    to a page or an error. *)
Section Walk.
  Variable E : Type.
  Record page := { pg_edges : list E; pg_has_prev : bool; pg_has_next : bool;
                   pg_start : bytes; pg_end : bytes }.
  Inductive walk_result := Done (visited : list E) | ServerError | OutOfFuel.

  (** first last after before *)
  Variable server : option Z -> option Z -> option bytes -> option bytes -> option page.

  Fixpoint walk_forward (n : Z) (fuel : nat) (after : option bytes) : walk_result :=
    match fuel with
    | O => OutOfFuel
    | S k =>
        match server (Some n) None after None with
        | None => ServerError
        | Some p =>
            if pg_has_next p then
              match walk_forward n k (Some (pg_end p)) with
              | Done rest => Done (pg_edges p ++ rest)
              | r => r
              end
            else Done (pg_edges p)
        end
    end.

  Fixpoint walk_backward (n : Z) (fuel : nat) (before : option bytes) : walk_result :=
    match fuel with
    | O => OutOfFuel
    | S k =>
        match server None (Some n) None before with
        | None => ServerError
        | Some p =>
            if pg_has_prev p then
              match walk_backward n k (Some (pg_start p)) with
              | Done rest => Done (rest ++ pg_edges p)
              | r => r
              end
            else Done (pg_edges p)
        end
    end.
End Walk.
Arguments pg_edges {E}. Arguments pg_has_prev {E}. Arguments pg_has_next {E}.
Arguments pg_start {E}. Arguments pg_end {E}.
Arguments Done {E}. Arguments ServerError {E}. Arguments OutOfFuel {E}.
