(** * Relay/RelayCheck.v — C09 correspondence: decode a case, run the Spec oracle on what the
    implementation did, then compare with the model.  Executable only (extracted / vm_compute).

    Case shapes (written by harness/cmd/c09):
      (conn   ...)  one request to a Connection field through API.ServeGraphQL
      (direct ...)  one call of pagination.EdgesToReturn
      (walk   ...)  a whole paging history: follow endCursor / startCursor until exhaustion
      (codec  ...)  SerializeCursor of a value, DeserializeCursor of the result
      (decode ...)  DeserializeCursor of an arbitrary string *)
From Coq Require Import List NArith ZArith Bool String.
From ApiFu Require Import Base.Sexp Relay.CursorCodec Relay.RelayModel Relay.RelayModelF Relay.RelaySpec.
Import ListNotations.
Open Scope string_scope.
Open Scope list_scope.

Definition edge := (cursor * Z)%type.       (* (cursor, node) *)
Definition ecur (e : edge) : cursor := fst e.

(** ** equality tests *)
Definition cursor_eqb (a b : cursor) : bool :=
  match a, b with
  | CInt x, CInt y => Z.eqb x y
  | CStr x, CStr y => bytes_eqb x y
  | CTime n i, CTime m j => Z.eqb n m && bytes_eqb i j
  | _, _ => false
  end.
Definition edge_eqb (a b : edge) : bool := cursor_eqb (fst a) (fst b) && Z.eqb (snd a) (snd b).
Definition opt_eqb {A} (f : A -> A -> bool) (a b : option A) : bool :=
  match a, b with
  | None, None => true
  | Some x, Some y => f x y
  | _, _ => false
  end.
Fixpoint list_eqb {A} (f : A -> A -> bool) (a b : list A) : bool :=
  match a, b with
  | [], [] => true
  | x :: a', y :: b' => f x y && list_eqb f a' b'
  | _, _ => false
  end.

(** ** decoding *)
Definition dec_cursor (s : sexp) : option cursor :=
  match s with
  | SZ z => Some (CInt z)
  | SStr b => Some (CStr b)
  | _ => match tagged "time" s with
         | Some [n; i] => match as_Z n, as_bytes i with Some n', Some i' => Some (CTime n' i') | _, _ => None end
         | _ => None
         end
  end.
Definition enc_cursor (c : cursor) : sexp :=
  match c with CInt z => SZ z | CStr b => SStr b | CTime n i => tag "time" [SZ n; SStr i] end.
Definition dec_edge (s : sexp) : option edge :=
  match s with
  | SL [c; n] => match dec_cursor c, as_Z n with Some c', Some n' => Some (c', n') | _, _ => None end
  | _ => None
  end.
Definition dec_kind (s : sexp) : option kind :=
  if is_sym "int" s then Some KInt else if is_sym "str" s then Some KStr
  else if is_sym "time" s then Some KTime else None.
Definition dec_mode_all (s : sexp) : option bool :=
  if is_sym "all" s then Some true else if is_sym "window" s then Some false
  else if is_sym "timeconn" s then Some false else None.

(** (none) | (some c) | (panic) *)
Inductive dres := DNone | DSome (c : cursor) | DPanic.
Definition dec_dres (s : sexp) : option dres :=
  if is_sym "panic" s then Some DPanic
  else match tagged "panic" s with
       | Some _ => Some DPanic
       | None => match as_option dec_cursor s with
                 | Some None => Some DNone
                 | Some (Some c) => Some (DSome c)
                 | None => None
                 end
       end.

(** what the generator knows about the position a cursor argument denotes *)
Inductive pos := PKnown (p : option cursor) | PUnknown.
Definition dec_pos (s : sexp) : option pos :=
  match tagged "known" s with
  | Some [x] => match as_option dec_cursor x with Some p => Some (PKnown p) | None => None end
  | _ => if is_sym "unknown" s then Some PUnknown
         else match tagged "unknown" s with Some _ => Some PUnknown | None => None end
  end.

(** a recorded ResolveEdges call: (after before limit returned) *)
Record rcall := { rc_after : option cursor; rc_before : option cursor; rc_limit : Z; rc_returned : list edge }.
Definition dec_rcall (s : sexp) : option rcall :=
  match s with
  | SL [a; b; l; r] =>
      match as_option dec_cursor a, as_option dec_cursor b, as_Z l, as_list_of dec_edge r with
      | Some a', Some b', Some l', Some r' =>
          Some {| rc_after := a'; rc_before := b'; rc_limit := l'; rc_returned := r' |}
      | _, _, _, _ => None
      end
  | _ => None
  end.

Record obs_page := {
  ob_edges : option (list (bytes * Z));
  ob_pi : option (bool * bool * bytes * bytes);      (* prev next start end *)
  ob_total : option Z
}.
Inductive obs := OError | OPanic | OData (p : obs_page).

Definition dec_oedge (s : sexp) : option (bytes * Z) :=
  match s with
  | SL [c; n] => match as_bytes c, as_Z n with Some c', Some n' => Some (c', n') | _, _ => None end
  | _ => None
  end.
Definition dec_opi (s : sexp) : option (bool * bool * bytes * bytes) :=
  match s with
  | SL [p; n; st; en] =>
      match as_bool p, as_bool n, as_bytes st, as_bytes en with
      | Some p', Some n', Some s', Some e' => Some (p', n', s', e')
      | _, _, _, _ => None
      end
  | _ => None
  end.
Definition dec_obs (s : sexp) : option obs :=
  match untag s with
  | Some (t, a) =>
      if String.eqb t "error" then Some OError
      else if String.eqb t "panic" then Some OPanic
      else if String.eqb t "data" then
        match a with
        | [e; p; tot] =>
            match as_option (as_list_of dec_oedge) e, as_option dec_opi p, as_option as_Z tot with
            | Some e', Some p', Some t' => Some (OData {| ob_edges := e'; ob_pi := p'; ob_total := t' |})
            | _, _, _ => None
            end
        | _ => None
        end
      else None
  | None => None
  end.

Definition dec_table (s : sexp) : option (list (bytes * option cursor)) :=
  as_list_of (fun x => match x with
                       | SL [k; v] => match as_bytes k, as_option dec_cursor v with
                                      | Some k', Some v' => Some (k', v')
                                      | _, _ => None
                                      end
                       | _ => None
                       end) s.
Definition table_get (t : list (bytes * option cursor)) (k : bytes) : option cursor :=
  match find (fun p => bytes_eqb (fst p) k) t with Some (_, v) => v | None => None end.

(** ** the connection of an edge set, for the oracle: rank sort + an explicit check that the
    result is the strictly increasing permutation *)
Definition rank (es : list edge) (e : edge) : nat :=
  List.length (filter (fun x => cursor_ltb (ecur x) (ecur e)) es).
Definition rank_sort (es : list edge) : list edge :=
  flat_map (fun k => filter (fun e => Nat.eqb (rank es e) k) es) (seq 0 (List.length es)).
Fixpoint increasing (l : list edge) : bool :=
  match l with
  | [] => true
  | x :: r => match r with [] => true | y :: _ => cursor_ltb (ecur x) (ecur y) end && increasing r
  end.
Definition is_connection_of (es s : list edge) : bool :=
  increasing s && Nat.eqb (List.length s) (List.length es)
  && forallb (fun e => existsb (edge_eqb e) s) es
  && forallb (fun e => Nat.eqb (List.length (filter (fun x => cursor_eqb (ecur x) (ecur e)) es)) 1) es.

Definition is_member (s : list edge) (c : cursor) : bool := existsb (fun e => cursor_eqb (ecur e) c) s.

(** ** reference result for known positions *)
Definition literal_applicable (s : list edge) (after before : option cursor) : bool :=
  match after with Some a => is_member s a | None => true end &&
  match before with Some b => is_member s b | None => true end &&
  match after, before with Some a, Some b => cursor_ltb a b | _, _ => true end.

Definition reference (s : list edge) (after before : option cursor) (first last : option Z) : option (list edge) :=
  if literal_applicable s after before
  then relay_edges_to_return cursor edge cursor_ltb ecur s before after first last
  else spec_edges cursor edge cursor_ltb ecur s before after first last.

(** candidate positions for a cursor string of unknown meaning: every member, something
    between / outside the members *)
Definition candidates (s : list edge) : list (option cursor) :=
  flat_map (fun e => match ecur e with
                     | CInt z => [Some (CInt (z - 1)); Some (CInt z); Some (CInt (z + 1))]
                     | CStr b => [Some (CStr b); Some (CStr (b ++ [0%N]))]
                     | CTime n i => [Some (CTime (n - 1) i); Some (CTime n i); Some (CTime n (i ++ [0%N]))]
                     end) s
  ++ [Some (CInt 0); Some (CStr []); Some (CTime 0 [])].
Definition pos_candidates (s : list edge) (p : pos) : list (option cursor) :=
  match p with PKnown c => [c] | PUnknown => candidates s end.
Definition pos_unknown (p : pos) : bool := match p with PUnknown => true | _ => false end.

(** ** the page oracle: [None] = fine, [Some key] = the clause that fails *)
Definition check_cursor_str (tbl : list (bytes * option cursor)) (s : bytes) (want : option cursor) : bool :=
  match want with
  | None => match s with [] => true | _ => false end
  | Some c => opt_eqb cursor_eqb (table_get tbl s) (Some c)
  end.

Fixpoint edges_agree (tbl : list (bytes * option cursor)) (got : list (bytes * Z)) (want : list edge) : option string :=
  match got, want with
  | [], [] => None
  | (cs, n) :: g', (c, m) :: w' =>
      if negb (Z.eqb n m) then Some "edges-wrong"
      else if negb (check_cursor_str tbl cs (Some c)) then Some "edge-cursor-wrong"
      else edges_agree tbl g' w'
  | _, _ => Some "edges-wrong"
  end.

Definition page_check (es s : list edge) (tbl : list (bytes * option cursor))
           (after before : option cursor) (first last : option Z) (p : obs_page) : option string :=
  match reference s after before first last with
  | None => Some "arg-error-missing"
  | Some want =>
      match (match ob_edges p with Some got => edges_agree tbl got want | None => None end) with
      | Some k => Some k
      | None =>
          match (match ob_pi p with
                 | None => None
                 | Some (prev, next, st, en) =>
                     if negb (check_cursor_str tbl st (option_map ecur (hd_error want))
                              && check_cursor_str tbl en (option_map ecur (last_error want)))
                     then Some "start-end-cursor-wrong"
                     else if has_next_required cursor edge cursor_ltb ecur s before after first && negb next
                     then Some "has-next-missing"
                     else if next && negb (has_next_allowed cursor edge cursor_ltb ecur s before after first)
                     then Some "has-next-unsound"
                     else if has_prev_required cursor edge cursor_ltb ecur s before after last && negb prev
                     then Some "has-prev-missing"
                     else if prev && negb (has_prev_allowed cursor edge cursor_ltb ecur s before after last)
                     then Some "has-prev-unsound"
                     else None
                 end) with
          | Some k => Some k
          | None =>
              match ob_total p with
              | Some t => if Z.eqb t (Z.of_nat (List.length es)) then None else Some "total-count-wrong"
              | None => None
              end
          end
      end
  end.

Definition oracle_conn (es s : list edge) (tbl : list (bytes * option cursor))
           (first last : option Z) (apos bpos : pos) (o : obs) : option string :=
  match o with
  | OPanic => Some "crash"
  | OError =>
      if args_rejected first last then None
      else if pos_unknown apos || pos_unknown bpos then None
      else Some "unexpected-error"
  | OData p =>
      if args_rejected first last then Some "arg-error-missing"
      else
        let pairs := flat_map (fun a => map (fun b => (a, b)) (pos_candidates s bpos)) (pos_candidates s apos) in
        if existsb (fun ab => match page_check es s tbl (fst ab) (snd ab) first last p with None => true | Some _ => false end) pairs
        then None
        else if pos_unknown apos || pos_unknown bpos then Some "hostile-cursor-no-position"
        else match pairs with
             | (a, b) :: _ => page_check es s tbl a b first last p
             | [] => Some "no-candidate"
             end
  end.

(** ** the model on a connection request *)
(** a misbehaving application: the edge getter fails ([Some false]: returns an error,
    [Some true]: returns a promise that delivers an error); ResolveTotalCount fails *)
Record creq := {
  cq_kind : kind; cq_all : bool; cq_promise : bool; cq_fail : option bool; cq_total_fails : bool;
  cq_sel_edges : bool; cq_sel_pi : bool; cq_sel_total : bool;
  cq_first : option Z; cq_last : option Z; cq_after : option bytes; cq_before : option bytes;
  cq_apos : pos; cq_bpos : pos;
  cq_calls : list rcall; cq_obs : obs;
  cq_dir : direction;                         (* ConnectionConfig.Direction *)
  cq_given : bool * bool * bool * bool;       (* first / last / after / before written in the document at all (null counts) *)
  cq_ser_fails : bool;                        (* the cursor type is one msgpack cannot encode *)
  cq_timeconn : bool;                         (* the field is a TimeBasedConnection: the recorded call is
                                                 reconstructed from its EdgeGetter calls (C16 owns the range queries) *)
  cq_getter : list (result (later (list edge))) (* ... and these are the getter's answers, in query order *)
}.

Definition mk_warg {A} (given : bool) (v : option A) : warg A :=
  match v with Some a => WVal a | None => if given then WNull else WAbsent end.
Definition model_wargs (q : creq) : wargs :=
  let '(gf, gl, ga, gb) := cq_given q in
  {| w_first := mk_warg gf (cq_first q); w_last := mk_warg gl (cq_last q);
     w_after := mk_warg ga (cq_after q); w_before := mk_warg gb (cq_before q) |}.

(** SerializeCursor of the configured cursor type *)
Definition model_encode (q : creq) (c : cursor) : option bytes :=
  if cq_ser_fails q then None else cursor_encode_f c.

Definition mk_app (all promise : bool) (fail : option bool) (total_fails : bool)
           (es window : list edge) (total : Z) : app cursor edge :=
  let wrap (l : list edge) :=
    match fail with
    | Some false => Err EApp
    | Some true => Ok (Promise (Err EApp))
    | None => Ok (if promise then Promise (Ok l) else Sync l)
    end in
  {| app_has_all := all; app_all := wrap es; app_edges := fun _ _ _ => wrap window;
     app_total := if all then None else Some (if total_fails then Err EApp else Ok total) |}.

Definition ser_edge (e : bytes * edge) : bytes * Z := (fst e, snd (snd e)).
Definition oedge_eqb (a b : bytes * Z) : bool := bytes_eqb (fst a) (fst b) && Z.eqb (snd a) (snd b).
Definition is_err {A} (r : result A) : bool := match r with Err _ => true | Ok _ => false end.

Definition call_eqb (k : call cursor) (r : rcall) : bool :=
  opt_eqb cursor_eqb (k_after k) (rc_after r) && opt_eqb cursor_eqb (k_before k) (rc_before r)
  && Z.eqb (k_limit k) (rc_limit r).
Fixpoint calls_eqb (ks : list (call cursor)) (rs : list rcall) : bool :=
  match ks, rs with
  | [], [] => true
  | k :: ks', r :: rs' => call_eqb k r && calls_eqb ks' rs'
  | _, _ => false
  end.

(** the window the application must at least return for ResolveEdges(after, before, limit):
    edges of the connection only, no duplicates, and the first [limit] (last [-limit]) edges of
    the range *)
Definition window_ok (s : list edge) (r : rcall) : bool :=
  let range := position_apply_cursors cursor edge cursor_ltb ecur s (rc_before r) (rc_after r) in
  let n := Z.abs (rc_limit r) in
  let need := if (n >=? Z.of_nat (List.length range))%Z then range   (* never convert a huge limit to nat *)
              else if (rc_limit r >? 0)%Z then firstn (Z.to_nat n) range
              else rev (firstn (Z.to_nat n) (rev range)) in
  forallb (fun e => existsb (edge_eqb e) s) (rc_returned r)
  && forallb (fun e => Nat.eqb (List.length (filter (edge_eqb e) (rc_returned r))) 1) (rc_returned r)
  && forallb (fun e => existsb (edge_eqb e) (rc_returned r)) need.

Definition model_args (q : creq) : args :=
  {| a_first := cq_first q; a_last := cq_last q; a_after := cq_after q; a_before := cq_before q |}.

(** compare the observation with the model; [None] = agree *)
Definition compare_conn (es : list edge) (total : Z) (q : creq) : option sexp :=
  let window := match cq_calls q with r :: _ => rc_returned r | [] => [] end in
  let a := if cq_timeconn q
           then (* TimeBasedConnection: ResolveEdges = the model's collection of the getter's answers *)
             {| app_has_all := false; app_all := Err EApp;
                app_edges := fun _ _ _ => time_resolve_edges edge (cq_getter q);
                app_total := Some (Ok total) |}
           else mk_app (cq_all q) (cq_promise q) (cq_fail q) (cq_total_fails q) es window total in
  match accept_args (cq_dir q) (model_wargs q) with
  | None =>
      (* rejected by validation: an error, and the application is never asked *)
      match cq_obs q, cq_calls q with
      | OError, [] => None
      | _, _ => Some (v_mismatch "validation" [])
      end
  | Some ar =>
  let '(r, calls) := resolve_f cursor edge cursor_ltb ecur (model_encode q) (cursor_decode (cq_kind q)) a ar in
  let expected_calls :=
    calls ++ match await r with
             | Ok c => if cq_sel_pi q then cn_page_info_calls c else []
             | Err _ => []
             end in
  if negb (calls_eqb expected_calls (cq_calls q)) then
    Some (v_mismatch "resolve-edges-calls" [of_nat (List.length expected_calls);
                                            of_list (fun k => SZ (k_limit k)) expected_calls])
  else
  match observe_f cursor edge ecur (model_encode q) (cq_sel_edges q) r, cq_obs q with
  | FError EPanicked, OPanic => None
  | _, OPanic => Some (v_mismatch "panic" [])
  | FError _, OError => None
  | FError _, OData _ => Some (v_mismatch "model-error-impl-data" [])
  | FData _ pi tot, OError =>
      if (cq_sel_pi q && is_err pi) || (cq_sel_total q && is_err tot) then None
      else Some (v_mismatch "model-data-impl-error" [])
  | FData edges pi tot, OData p =>
      if negb (opt_eqb (list_eqb oedge_eqb) (ob_edges p) (if cq_sel_edges q then Some (map ser_edge edges) else None))
      then Some (v_mismatch "edges" [of_list (fun e => SL [SStr (fst e); SZ (snd e)]) (map ser_edge edges)])
      else
        match (if cq_sel_pi q then
                 match pi, ob_pi p with
                 | Ok sp, Some (prev, next, st, en) =>
                     if negb (bytes_eqb st (sp_start sp) && bytes_eqb en (sp_end sp)) then Some "start-end-cursor"
                     else if negb (Bool.eqb prev (sp_prev sp)) then Some "has-previous-page"
                     else if negb (Bool.eqb next (sp_next sp)) then Some "has-next-page"
                     else None
                 | _, _ => Some "page-info"
                 end
               else match ob_pi p with None => None | Some _ => Some "page-info-selection" end) with
        | Some what => Some (v_mismatch what [])
        | None =>
            if cq_sel_total q then
              match tot, ob_total p with
              | Ok t, Some t' => if Z.eqb t t' then None else Some (v_mismatch "total-count" [SZ t])
              | _, _ => Some (v_mismatch "total-count" [])
              end
            else match ob_total p with None => None | Some _ => Some (v_mismatch "total-selection" []) end
        end
  end
  end.

Definition dec_fail (l : list sexp) : option (option bool * bool) :=
  match field "app-fails" l with
  | Some [f; t] =>
      match as_bool t with
      | Some t' => if is_sym "no" f then Some (None, t')
                   else if is_sym "sync" f then Some (Some false, t')
                   else if is_sym "async" f then Some (Some true, t')
                   else None
      | None => None
      end
  | _ => None
  end.

(** optional fields (absent in stage-A corpus lines): direction, which arguments were written,
    unencodable cursor type *)
Definition dec_dir (l : list sexp) : option direction :=
  match field1 "direction" l with
  | None => Some Bidirectional
  | Some d => if is_sym "bidi" d then Some Bidirectional
              else if is_sym "fwd-only" d then Some ForwardOnly
              else if is_sym "bwd-only" d then Some BackwardOnly else None
  end.
Definition dec_given (l : list sexp) : option (bool * bool * bool * bool) :=
  match field "given" l with
  | None => Some (true, true, true, true)
  | Some [a; b; c; d] =>
      match as_bool a, as_bool b, as_bool c, as_bool d with
      | Some a', Some b', Some c', Some d' => Some (a', b', c', d')
      | _, _, _, _ => None
      end
  | Some _ => None
  end.
Definition dec_ser_fails (l : list sexp) : option bool :=
  match field1 "ser-fails" l with None => Some false | Some b => as_bool b end.

(** ((sync|promise) edges) per EdgeGetter call; undecodable = no answers *)
Definition dec_getter (l : list sexp) : list (result (later (list edge))) :=
  match field1 "getter-answers" l with
  | Some (SL gs) =>
      match map_opt (fun g => match g with
                              | SL [k; es] =>
                                  match as_list_of dec_edge es with
                                  | Some es' => if is_sym "promise" k then Some (Ok (Promise (Ok es'))) else Some (Ok (Sync es'))
                                  | None => None
                                  end
                              | _ => None
                              end) gs with
      | Some r => r
      | None => []
      end
  | _ => []
  end.

Definition dec_creq (l : list sexp) : option creq :=
  match dec_fail l with
  | None => None
  | Some (fl, tf) =>
  match field1 "kind" l, field1 "mode" l, field1 "promise" l, field "sel" l with
  | Some k, Some m, Some pr, Some [se; sp; st] =>
      match dec_kind k, dec_mode_all m, as_bool pr, as_bool se, as_bool sp, as_bool st with
      | Some k', Some m', Some pr', Some se', Some sp', Some st' =>
          match field1 "first" l, field1 "last" l, field1 "after" l, field1 "before" l with
          | Some f, Some la, Some af, Some be =>
              match as_option as_Z f, as_option as_Z la, as_option as_bytes af, as_option as_bytes be with
              | Some f', Some la', Some af', Some be' =>
                  match field1 "after-pos" l, field1 "before-pos" l, field1 "calls" l, field1 "obs" l with
                  | Some ap, Some bp, Some cs, Some o =>
                      match dec_pos ap, dec_pos bp, as_list_of dec_rcall cs, dec_obs o with
                      | Some ap', Some bp', Some cs', Some o' =>
                          match dec_dir l, dec_given l, dec_ser_fails l with
                          | Some d, Some g, Some sf =>
                              Some {| cq_kind := k'; cq_all := m'; cq_promise := pr'; cq_fail := fl; cq_total_fails := tf;
                                      cq_sel_edges := se'; cq_sel_pi := sp'; cq_sel_total := st';
                                      cq_first := f'; cq_last := la'; cq_after := af'; cq_before := be';
                                      cq_apos := ap'; cq_bpos := bp'; cq_calls := cs'; cq_obs := o';
                                      cq_dir := d; cq_given := g; cq_ser_fails := sf;
                                      cq_timeconn := is_sym "timeconn" m;
                                      cq_getter := dec_getter l |}
                          | _, _, _ => None
                          end
                      | _, _, _, _ => None
                      end
                  | _, _, _, _ => None
                  end
              | _, _, _, _ => None
              end
          | _, _, _, _ => None
          end
      | _, _, _, _, _, _ => None
      end
  | _, _, _, _ => None
  end
  end.

Definition app_misbehaves (q : creq) : bool :=
  match cq_fail q with Some _ => true | None => false end || cq_total_fails q.

Definition enc_all_ok (es : list edge) (q : creq) : bool :=
  forallb (fun e => match model_encode q (ecur e) with Some _ => true | None => false end) es.
Definition dir_classes (q : creq) : list string :=
  match cq_dir q with Bidirectional => [] | ForwardOnly => ["forward-only"] | BackwardOnly => ["backward-only"] end.

(** evidence classes of a connection request (from the model and the spec, not from the
    implementation's answer) *)
Definition conn_classes (es s : list edge) (q : creq) : list string :=
  let rejected := args_rejected (cq_first q) (cq_last q) in
  let zero := match cq_first q, cq_last q with Some 0%Z, None => true | None, Some 0%Z => true | _, _ => false end in
  let hostile := pos_unknown (cq_apos q) || pos_unknown (cq_bpos q) in
  let known_pos (p : pos) := match p with PKnown (Some c) => Some c | _ => None end in
  let foreign := match known_pos (cq_apos q) with Some c => negb (is_member s c) | None => false end
                 || match known_pos (cq_bpos q) with Some c => negb (is_member s c) | None => false end in
  let crossed := match known_pos (cq_apos q), known_pos (cq_bpos q) with
                 | Some a, Some b => negb (cursor_ltb a b) | _, _ => false end in
  let page := match cq_apos q, cq_bpos q with
              | PKnown a, PKnown b => reference s a b (cq_first q) (cq_last q)
              | _, _ => None
              end in
  let partial := match page with Some p => negb (Nat.eqb (List.length p) (List.length es)) | None => false end in
  let flags := match cq_obs q with
               | OData {| ob_pi := Some (prev, next, _, _) |} =>
                   (if next then ["has-next"] else []) ++ (if prev then ["has-prev"] else [])
               | _ => []
               end in
  let accepted := match accept_args (cq_dir q) (model_wargs q) with Some _ => true | None => false end in
  if app_misbehaves q then ["conn"; "app-error"] else
  if negb (enc_all_ok es q) then ["conn"; "serialize-cursor-fails"] ++ (match cq_obs q with OError => ["serialize-error-observed"] | _ => [] end) else
  if negb accepted then ["conn"; "validation-error"] ++ dir_classes q else
  ["conn"] ++ dir_classes q ++ (if cq_timeconn q then ["time-based-connection"] else []) ++ (if cq_all q then ["mode-all"] else ["mode-window"]) ++ (if cq_promise q then ["promise"] else ["sync"])
  ++ (match cq_kind q with KInt => [] | KStr => ["string-cursors"] | KTime => ["time-cursors"] end)
  ++ (if rejected then ["arg-error"] else [])
  ++ (if negb rejected && zero then ["lazy-zero"] else [])
  ++ (if hostile then ["hostile-cursor"] else [])
  ++ (if hostile && match cq_obs q with OData _ => true | _ => false end then ["hostile-accepted"] else [])
  ++ (if foreign then ["foreign-cursor"] else [])
  ++ (if crossed then ["crossed-cursors"] else [])
  ++ (if negb rejected && literal_applicable s (known_pos (cq_apos q)) (known_pos (cq_bpos q)) && negb hostile then ["relay-literal"] else [])
  ++ (match page with Some [] => ["empty-page"] | _ => [] end)
  ++ flags
  ++ (if negb rejected && negb zero && partial then ["nontrivial"] else []).

Definition run_conn (es : list edge) (total : Z) (tbl : list (bytes * option cursor)) (q : creq)
  : sexp + list string :=
  let s := rank_sort es in
  if negb (is_connection_of es s) then inl (v_bad "edge-set-not-distinct")
  else if negb (app_misbehaves q) && negb (forallb (window_ok s) (cq_calls q)) then
    (if cq_timeconn q then inl (v_oracle_fail "timeconn-window-incomplete" []) else inl (v_bad "harness-window-not-ok"))
  else
    (* C09 speaks about applications that answer and cursors that can be serialised; with a failing
       application or an unencodable cursor only "no crash" is demanded by the oracle, and the
       model's error paths are compared *)
    match (if app_misbehaves q || negb (enc_all_ok es q) then match cq_obs q with OPanic => Some "crash" | _ => None end
           else match accept_args (cq_dir q) (model_wargs q) with
                | None => match cq_obs q with
                          | OError => None
                          | OPanic => Some "crash"
                          | OData _ => Some "undefined-argument-accepted"
                          end
                | Some ar => oracle_conn es s tbl (a_first ar) (a_last ar) (cq_apos q) (cq_bpos q) (cq_obs q)
                end) with
    | Some key => inl (v_oracle_fail key [])
    | None =>
        match compare_conn es total q with
        | Some v => inl v
        | None => inr (conn_classes es s q)
        end
    end.

Definition check_conn (l : list sexp) : sexp :=
  match field1 "edges" l, field1 "total" l, field1 "cursors" l, dec_creq l with
  | Some e, Some t, Some tb, Some q =>
      match as_list_of dec_edge e, as_Z t, dec_table tb with
      | Some es, Some total, Some tbl =>
          match run_conn es total tbl q with
          | inl v => v
          | inr cl => v_ok (cl ++ match field1 "via-interface" l with
                                  | Some b => if is_sym "true" b then ["via-connection-interface"] else []
                                  | None => []
                                  end)
          end
      | _, _, _ => v_bad "conn-decode"
      end
  | _, _, _, _ => v_bad "conn-fields"
  end.

(** ** walks *)
Definition dedup (l : list string) : list string :=
  fold_right (fun x acc => if existsb (String.eqb x) acc then acc else x :: acc) [] l.

Definition dec_step (base : list sexp) (s : sexp) : option creq :=
  match tagged "step" s with
  | Some l => dec_creq (l ++ base)
  | None => None
  end.

(** the protocol a paging client follows, and the concatenation of what it saw *)
Fixpoint walk_protocol (fwd : bool) (n : Z) (prev_cursor : option bytes) (steps : list creq) : option string :=
  match steps with
  | [] => Some "walk-empty"
  | q :: rest =>
      let ok_args :=
        if fwd then opt_eqb Z.eqb (cq_first q) (Some n) && opt_eqb Z.eqb (cq_last q) None
                    && opt_eqb bytes_eqb (cq_after q) prev_cursor && opt_eqb bytes_eqb (cq_before q) None
        else opt_eqb Z.eqb (cq_last q) (Some n) && opt_eqb Z.eqb (cq_first q) None
             && opt_eqb bytes_eqb (cq_before q) prev_cursor && opt_eqb bytes_eqb (cq_after q) None in
      if negb ok_args then Some "bad-walk-protocol"
      else match cq_obs q with
           | OData {| ob_edges := Some _; ob_pi := Some (prev, next, st, en) |} =>
               let more := if fwd then next else prev in
               match rest with
               | [] => if more then Some "walk-not-terminated" else None
               | _ :: _ => if more then walk_protocol fwd n (Some (if fwd then en else st)) rest
                           else Some "bad-walk-protocol"
               end
           | OPanic => Some "crash"
           | _ => Some "walk-server-error"
           end
  end.

Definition walk_visited (fwd : bool) (tbl : list (bytes * option cursor)) (steps : list creq) : list (option cursor * Z) :=
  let pages := map (fun q => match cq_obs q with
                             | OData {| ob_edges := Some e |} => map (fun x => (table_get tbl (fst x), snd x)) e
                             | _ => []
                             end) steps in
  List.concat (if fwd then pages else rev pages).

Fixpoint visited_eqb (got : list (option cursor * Z)) (want : list edge) : bool :=
  match got, want with
  | [], [] => true
  | (c, n) :: g', (c', n') :: w' => opt_eqb cursor_eqb c (Some c') && Z.eqb n n' && visited_eqb g' w'
  | _, _ => false
  end.

Definition check_walk (l : list sexp) : sexp :=
  match field1 "edges" l, field1 "total" l, field1 "cursors" l, field1 "dir" l, field1 "n" l, field1 "steps" l with
  | Some e, Some t, Some tb, Some d, Some n, Some (SL ss) =>
      match as_list_of dec_edge e, as_Z t, dec_table tb, as_Z n with
      | Some es, Some total, Some tbl, Some n' =>
          let fwd := is_sym "fwd" d in
          let base := filter (fun x => match untag x with
                                       | Some (t, _) => String.eqb t "kind" || String.eqb t "mode" || String.eqb t "promise" || String.eqb t "sel" || String.eqb t "app-fails" || String.eqb t "direction" || String.eqb t "ser-fails"
                                       | None => false end) l in
          match map_opt (dec_step base) ss with
          | None => v_bad "walk-steps"
          | Some steps =>
              let s := rank_sort es in
              if negb (is_connection_of es s) then v_bad "edge-set-not-distinct"
              else if (n' <? 1)%Z then v_bad "walk-page-size"
              else
                match walk_protocol fwd n' None steps with
                | Some key => if String.eqb key "bad-walk-protocol" || String.eqb key "walk-empty" then v_bad key
                              else v_oracle_fail key []
                | None =>
                    if negb (visited_eqb (walk_visited fwd tbl steps) s)
                    then v_oracle_fail "walk-not-exact" []
                    else
                      (fix go (qs : list creq) (i : nat) (cl : list string) : sexp :=
                         match qs with
                         | [] => v_ok (dedup (["walk"; (if fwd then "walk-forward" else "walk-backward")]
                                              ++ (if Nat.ltb 1 (List.length steps) then ["nontrivial"; "multi-page"] else ["single-page"])
                                              ++ filter (fun c => negb (String.eqb c "nontrivial") && negb (String.eqb c "conn")) cl))
                         | q :: qs' =>
                             match run_conn es total tbl q with
                             | inl v => match v with
                                        | SL (h :: r) => SL (h :: r ++ [tag "walk-step" [of_nat i]])
                                        | _ => v
                                        end
                             | inr c => go qs' (S i) (cl ++ c)
                             end
                         end) steps O []
                end
          end
      | _, _, _, _ => v_bad "walk-decode"
      end
  | _, _, _, _, _, _ => v_bad "walk-fields"
  end.

(** ** pagination.EdgesToReturn called directly *)
Definition has_both (first last : option Z) : bool :=
  match first, last with Some _, Some _ => true | _, _ => false end.

Definition beyond_end (es page : list edge) : bool :=
  existsb (fun e => negb (existsb (edge_eqb e) page) && forallb (fun p => cursor_ltb (ecur p) (ecur e)) page) es.
Definition before_start (es page : list edge) : bool :=
  existsb (fun e => negb (existsb (edge_eqb e) page) && forallb (fun p => cursor_ltb (ecur e) (ecur p)) page) es.

Definition check_direct (l : list sexp) : sexp :=
  match field1 "edges" l, field1 "first" l, field1 "last" l, field1 "after" l, field1 "before" l, field1 "obs" l with
  | Some e, Some f, Some la, Some af, Some be, Some o =>
      match as_list_of dec_edge e, as_option as_Z f, as_option as_Z la, as_option dec_cursor af, as_option dec_cursor be with
      | Some es, Some first, Some last, Some after, Some before =>
          let s := rank_sort es in
          if negb (is_connection_of es s) then v_bad "edge-set-not-distinct" else
          let model := edges_to_return cursor edge cursor_ltb ecur es after before first last in
          let want := reference s after before first last in
          let classes (page : list edge) (prev next : bool) :=
            ["direct"] ++ (if has_both first last then ["first-and-last"] else [])
            ++ (if next then ["has-next"] else []) ++ (if prev then ["has-prev"] else [])
            ++ (match page with [] => ["empty-page"] | _ => [] end)
            ++ (if literal_applicable s after before then ["relay-literal"] else [])
            ++ (if negb (Nat.eqb (List.length page) (List.length es)) then ["nontrivial"] else []) in
          if is_sym "panic" o || match tagged "panic" o with Some _ => true | None => false end then
            match want, model with
            | Some _, _ => v_oracle_fail "crash" []
            | None, Panic => v_ok ["direct"; "negative-count-panics"]
            | None, Ret _ => v_mismatch "model-returns-impl-panics" []
            end
          else
            match tagged "ret" o with
            | Some [oe; op; on; os; oen] =>
                match as_list_of dec_edge oe, as_bool op, as_bool on, as_option dec_cursor os, as_option dec_cursor oen with
                | Some page, Some prev, Some next, Some st, Some en =>
                    match want with
                    | None => v_oracle_fail "negative-count-accepted" []
                    | Some w =>
                        if negb (list_eqb edge_eqb page w) then v_oracle_fail "edges-wrong" []
                        else if negb (opt_eqb cursor_eqb st (option_map ecur (hd_error w))
                                      && opt_eqb cursor_eqb en (option_map ecur (last_error w)))
                        then v_oracle_fail "start-end-cursor-wrong" []
                        else if negb (has_both first last) && has_next_required cursor edge cursor_ltb ecur s before after first && negb next
                        then v_oracle_fail "has-next-missing" []
                        else if next && negb (has_next_allowed cursor edge cursor_ltb ecur s before after first)
                        then v_oracle_fail "has-next-unsound" []
                        else if negb (has_both first last) && has_prev_required cursor edge cursor_ltb ecur s before after last && negb prev
                        then v_oracle_fail "has-prev-missing" []
                        else if prev && negb (has_prev_allowed cursor edge cursor_ltb ecur s before after last)
                        then v_oracle_fail "has-prev-unsound" []
                        else if (next && negb (beyond_end es page)) || (prev && negb (before_start es page))
                        then v_oracle_fail "flag-without-further-edge" []
                        else
                          match model with
                          | Panic => v_mismatch "model-panics-impl-returns" []
                          | Ret (medges, pi) =>
                              if negb (list_eqb edge_eqb page medges) then v_mismatch "edges" []
                              else if negb (Bool.eqb prev (pi_prev pi)) then v_mismatch "has-previous-page" []
                              else if negb (Bool.eqb next (pi_next pi)) then v_mismatch "has-next-page" []
                              else if negb (opt_eqb cursor_eqb st (pi_start pi) && opt_eqb cursor_eqb en (pi_end pi))
                              then v_mismatch "start-end-cursor" []
                              else v_ok (classes page prev next)
                          end
                    end
                | _, _, _, _, _ => v_bad "direct-obs"
                end
            | _ => v_bad "direct-obs-shape"
            end
      | _, _, _, _, _ => v_bad "direct-decode"
      end
  | _, _, _, _, _, _ => v_bad "direct-fields"
  end.

(** ** the cursor codec *)
Definition dres_eqb (a : option cursor) (b : dres) : bool :=
  match a, b with
  | None, DNone => true
  | Some x, DSome y => cursor_eqb x y
  | _, _ => false
  end.

Definition kind_class (k : kind) : string :=
  match k with KInt => "int" | KStr => "string" | KTime => "time" end.

Definition check_codec (l : list sexp) : sexp :=
  match field1 "kind" l, field1 "value" l, field1 "serialized" l, field1 "decoded" l with
  | Some k, Some v, Some s, Some d =>
      match dec_kind k, dec_cursor v, as_option as_bytes s, dec_dres d with
      | Some k', Some v', Some None, _ =>
          (* SerializeCursor returned an error: the model's must fail too (MaxCursorLength) *)
          match cursor_encode_f v' with
          | None => v_ok ["codec"; "serialize-fails"; append "codec-" (kind_class k')]
          | Some s' => v_mismatch "serialize-cursor-fails" [SStr s']
          end
      | Some k', Some v', Some (Some s'), Some d' =>
          match d' with
          | DPanic => v_oracle_fail "crash" []
          | _ =>
              if negb (dres_eqb (Some v') d') then v_oracle_fail "cursor-roundtrip" []
              else match cursor_encode_f v' with
                   | None => v_mismatch "serialize-cursor-succeeds" []
                   | Some ms =>
                       if negb (bytes_eqb ms s') then v_mismatch "serialize-cursor" [SStr ms]
                       else if negb (dres_eqb (cursor_decode k' s') d') then v_mismatch "deserialize-cursor" []
                       else v_ok ["codec"; "nontrivial"; append "codec-" (kind_class k')]
                   end
          end
      | _, _, _, _ => v_bad "codec-decode"
      end
  | _, _, _, _ => v_bad "codec-fields"
  end.

(** the msgpack family of the first byte of the document behind a cursor string (evidence classes:
    every family must be reached by the hostile stream) *)
Definition code_family (c : N) : string :=
  (if c <=? 127 then "mp-posfixnum" else if c <=? 143 then "mp-fixmap" else if c <=? 159 then "mp-fixarray"
   else if c <=? 191 then "mp-fixstr" else if c =? 192 then "mp-nil" else if c =? 193 then "mp-c1-unused"
   else if c <=? 195 then "mp-bool" else if c <=? 198 then "mp-bin" else if c <=? 201 then "mp-ext"
   else if c <=? 203 then "mp-float" else if c <=? 207 then "mp-uint" else if c <=? 211 then "mp-int"
   else if c <=? 216 then "mp-fixext" else if c <=? 219 then "mp-str" else if c <=? 221 then "mp-array16-32"
   else if c <=? 223 then "mp-map16-32" else "mp-negfixnum")%N.

(** more than this much heap allocated by one DeserializeCursor call is "allocation without
    bound" (msgpack reads a claimed length in chunks of at most 1 MiB) *)
Definition alloc_limit : Z := 8388608.

Definition check_decode (l : list sexp) : sexp :=
  match field1 "kind" l, field1 "input" l, field1 "result" l with
  | Some k, Some i, Some r =>
      match dec_kind k, as_bytes i, dec_dres r with
      | Some k', Some i', Some r' =>
          match r' with
          | DPanic => v_oracle_fail "crash" []
          | _ =>
              if match field1 "alloc" l with
                 | Some a => match as_Z a with Some n => (alloc_limit <? n)%Z | None => true end
                 | None => false
                 end
              then v_oracle_fail "decode-allocation" []
              else if negb (dres_eqb (cursor_decode k' i') r') then
                v_mismatch "deserialize-cursor" [match cursor_decode k' i' with
                                                 | None => SSym "none"
                                                 | Some c => enc_cursor c end]
              else v_ok (["decode"; append "decode-" (kind_class k')]
                         ++ match r' with DSome _ => ["hostile-accepted"; "nontrivial"] | _ => ["hostile-rejected"] end
                         ++ (if too_long i' then ["over-max-cursor-length"] else [])
                         ++ match b64_decode i' with
                            | Some (c :: rest) =>
                                [code_family c]
                                ++ (match k', c :: rest with
                                    | KTime, _ => if existsb (fun x => (144 <=? x)%N && (x <=? 159)%N || (220 <=? x)%N && (x <=? 223)%N) rest
                                                  then ["struct-nested-containers"] else []
                                    | _, _ => []
                                    end)
                            | Some [] => ["empty-document"]
                            | None => ["not-base64"]
                            end)
          end
      | _, _, _ => v_bad "decode-decode"
      end
  | _, _, _ => v_bad "decode-fields"
  end.

(** the cost ValidateCost computes for one connection request with the default field cost 1:
    1 for the connection, the sub-selection of [edges] ([node]: 1, [cursor]: 0) times maxCount — a
    multiplier is applied only when it exceeds 1 (validate_cost.go; C14 owns that rule) —, 1 for
    totalCount, 0 for pageInfo *)
Definition check_cost (l : list sexp) : sexp :=
  match dec_dir l, dec_given l, field1 "first" l, field1 "last" l, field "sel" l, field1 "obs" l with
  | Some d, Some (gf, gl, _, _), Some f, Some la, Some [se; sp; st], Some o =>
      match as_option as_Z f, as_option as_Z la, as_bool se, as_bool sp, as_bool st, as_option as_Z o with
      | Some f', Some la', Some se', Some sp', Some st', Some o' =>
          let w := {| w_first := mk_warg gf f'; w_last := mk_warg gl la'; w_after := WAbsent; w_before := WAbsent |} in
          match accept_args d w, o' with
          | None, None => v_ok ["cost"; "cost-validation-error"]
          | None, Some _ => v_oracle_fail "undefined-argument-accepted" []
          | Some _, None => v_mismatch "cost-document-rejected" []
          | Some ar, Some c =>
              let m := max_edge_count ar in
              let mult := if (m >? 1)%Z then m else 1%Z in
              let want := (1 + (if se' then mult else 0) + (if st' then 1 else 0))%Z in
              if Z.eqb c want then v_ok (["cost"] ++ (if (m >? 1)%Z then ["cost-multiplied"; "nontrivial"] else [])
                                          ++ match a_first ar, a_last ar with Some _, Some _ => ["cost-first-and-last"] | _, _ => [] end)
              else v_mismatch "connection-cost" [SZ want]
          end
      | _, _, _, _, _, _ => v_bad "cost-decode"
      end
  | _, _, _, _, _, _ => v_bad "cost-fields"
  end.

(** a cursor string too long to put into the case line (only its length is given): the model
    rejects it because of MaxCursorLength alone *)
Definition check_decode_long (l : list sexp) : sexp :=
  match field1 "kind" l, field1 "length" l, field1 "result" l with
  | Some k, Some n, Some r =>
      match dec_kind k, as_Z n, dec_dres r with
      | Some k', Some n', Some r' =>
          match r' with
          | DPanic => v_oracle_fail "crash" []
          | DSome _ => if (Z.of_N max_cursor_length <? n')%Z then v_mismatch "deserialize-cursor-too-long-accepted" [] else v_bad "decode-long-short"
          | DNone => if (Z.of_N max_cursor_length <? n')%Z then v_ok ["decode"; "over-max-cursor-length"; "hostile-rejected"] else v_bad "decode-long-short"
          end
      | _, _, _ => v_bad "decode-long-decode"
      end
  | _, _, _ => v_bad "decode-long-fields"
  end.

Definition check (c : sexp) : sexp :=
  match untag c with
  | Some (t, l) =>
      if String.eqb t "conn" then check_conn l
      else if String.eqb t "direct" then check_direct l
      else if String.eqb t "walk" then check_walk l
      else if String.eqb t "codec" then check_codec l
      else if String.eqb t "decode" then check_decode l
      else if String.eqb t "decode-long" then check_decode_long l
      else if String.eqb t "cost" then check_cost l
      else v_bad "unknown-case-kind"
  | None => v_bad "shape"
  end.
