(** * Relay/RelaySerFailProofs.v — SerializeCursor as a partial function, and Direction.

    - [complete_now_f_eq], [resolve_f_eq]: the model with a failing SerializeCursor (RelayModelF.v,
      the one the correspondence check runs) is RelayModel's whenever every edge the application
      hands over has an encodable cursor;
    - [serve_f_ok]: hence everything C09 says about one accepted request holds of it;
    - [complete_now_f_cases]: when a cursor cannot be serialised
      the connection field answers with the error [ESerialize] — never a panic, and no page;
    - [forward_only_serves], [backward_only_serves], [one_direction_rejects]: a one-directional
      connection answers exactly like the bidirectional one on the arguments it defines and rejects
      everything else before the resolver runs. *)
From Coq Require Import List NArith ZArith Bool Lia Sorting.Sorted Sorting.Permutation.
From ApiFu Require Import Base.Sexp Relay.RelayOrder Relay.RelayModel Relay.RelayModelF Relay.RelaySpec Relay.RelayProofs.
Import ListNotations.
Open Scope Z_scope.

Section SerFail.
  Variables C E : Type.
  Variable ltb : C -> C -> bool.
  Variable cur : E -> C.
  Hypothesis ltb_irrefl : forall a, ltb a a = false.
  Hypothesis ltb_trans : forall a b c, ltb a b = true -> ltb b c = true -> ltb a c = true.
  Hypothesis ltb_total : forall a b, ltb a b = true \/ a = b \/ ltb b a = true.
  Variable encode : C -> bytes.
  Variable encode_f : C -> option bytes.
  Variable decode : bytes -> option C.

  Notation edges_to_return := (edges_to_return C E ltb cur).
  Notation complete_now := (complete_now C E ltb cur encode).
  Notation complete_now_f := (complete_now_f C E ltb cur encode_f).
  Notation complete_connection := (complete_connection C E ltb cur encode).
  Notation complete_connection_f := (complete_connection_f C E ltb cur encode_f).
  Notation resolve := (resolve C E ltb cur encode decode).
  Notation resolve_f := (resolve_f C E ltb cur encode_f decode).
  Notation serve := (serve C E ltb cur encode decode).
  Notation serve_f := (serve_f C E ltb cur encode_f decode).

  (** the cursor of [e] can be serialised, to [encode (cur e)] *)
  Definition enc_ok (e : E) : Prop := encode_f (cur e) = Some (encode (cur e)).

  (** the page is made of edges that were handed in (no hypothesis on the list) *)
  Lemma page_incl l after before first last page pi :
    edges_to_return l after before first last = Ret (page, pi) -> incl page l.
  Proof.
    unfold RelayModel.edges_to_return.
    rewrite (apply_cursors_to_edges_spec C E ltb cur).
    set (F := filter _ l).
    assert (HF : incl (isort C E ltb cur F) l).
    { intros x Hx. apply (Permutation_in _ (isort_perm C E ltb cur F)) in Hx.
      unfold F in Hx. apply filter_In in Hx. tauto. }
    revert HF. generalize (isort C E ltb cur F). intros srt HF.
    unfold cut_first, cut_last.
    destruct first as [n|].
    - destruct (len srt >? n).
      + destruct (n <? 0); [discriminate|].
        destruct last as [m|].
        * destruct (len (firstn (Z.to_nat n) srt) >? m).
          -- destruct (m <? 0); [discriminate|]. intro H. inversion H; subst.
             intros x Hx. apply HF. eapply firstn_incl. eapply skipn_incl. exact Hx.
          -- intro H. inversion H; subst. intros x Hx. apply HF. eapply firstn_incl. exact Hx.
        * intro H. inversion H; subst. intros x Hx. apply HF. eapply firstn_incl. exact Hx.
      + destruct last as [m|].
        * destruct (len srt >? m).
          -- destruct (m <? 0); [discriminate|]. intro H. inversion H; subst.
             intros x Hx. apply HF. eapply skipn_incl. exact Hx.
          -- intro H. inversion H; subst. exact HF.
        * intro H. inversion H; subst. exact HF.
    - destruct last as [m|].
      + destruct (len srt >? m).
        * destruct (m <? 0); [discriminate|]. intro H. inversion H; subst.
          intros x Hx. apply HF. eapply skipn_incl. exact Hx.
        * intro H. inversion H; subst. exact HF.
      + intro H. inversion H; subst. exact HF.
  Qed.

  (** completeConnection: the three outcomes, for every list of edges.  A cursor that cannot be
      serialised is the error [ESerialize]; a panic arises only from a negative count (which the
      resolver has excluded before, [arg_errors]) *)
  Theorem complete_now_f_cases (a : app C E) ar bf af l :
    match edges_to_return l af bf (a_first ar) (a_last ar) with
    | Panic => complete_now_f a ar bf af l = Err EPanicked
    | Ret (page, pi) =>
        match page with
        | [] => exists c, complete_now_f a ar bf af l = Ok c /\ cn_edges c = []
        | x :: _ =>
            exists y, last_error page = Some y /\
            match encode_f (cur x), encode_f (cur y) with
            | Some s, Some e =>
                exists c, complete_now_f a ar bf af l = Ok c /\ cn_edges c = page /\
                          exists sp, cn_page_info c = Ok (Sync sp) /\ sp_start sp = s /\ sp_end sp = e
            | _, _ => complete_now_f a ar bf af l = Err ESerialize
            end
        end
    end.
  Proof.
    unfold RelayModelF.complete_now_f.
    destruct (edges_to_return l af bf (a_first ar) (a_last ar)) as [[page pi]|] eqn:HR; [|reflexivity].
    destruct (page_cursors C E ltb cur _ _ _ _ _ _ _ HR) as [Hs He].
    destruct page as [|x r].
    - eexists. split; reflexivity.
    - destruct (last_error_some E (x :: r) ltac:(discriminate)) as [y Hy].
      exists y. split; [exact Hy|]. rewrite Hs, He, Hy. cbn [hd_error option_map].
      destruct (encode_f (cur x)) as [s|]; [|reflexivity].
      destruct (encode_f (cur y)) as [e|]; [|reflexivity].
      eexists. split; [reflexivity|]. split; [reflexivity|]. eexists. split; [reflexivity|]. split; reflexivity.
  Qed.

  Lemma complete_now_f_eq (a : app C E) ar bf af l :
    (forall e, In e l -> enc_ok e) -> complete_now_f a ar bf af l = complete_now a ar bf af l.
  Proof.
    intro Henc. unfold RelayModelF.complete_now_f, RelayModel.complete_now.
    destruct (edges_to_return l af bf (a_first ar) (a_last ar)) as [[page pi]|] eqn:HR; [|reflexivity].
    destruct (page_cursors C E ltb cur _ _ _ _ _ _ _ HR) as [Hs He].
    pose proof (page_incl _ _ _ _ _ _ _ HR) as Hincl.
    destruct page as [|x r].
    - rewrite Hs, He. reflexivity.
    - destruct (last_error_some E (x :: r) ltac:(discriminate)) as [y Hy].
      rewrite Hs, He, Hy. cbn [hd_error option_map].
      rewrite (Henc x (Hincl x (or_introl eq_refl))).
      rewrite (Henc y (Hincl y (last_error_In E _ _ Hy))). reflexivity.
  Qed.

  Lemma complete_connection_f_eq (a : app C E) ar bf af es :
    (forall l, delivers E (Ok es) l -> forall e, In e l -> enc_ok e) ->
    complete_connection_f a ar bf af es = complete_connection a ar bf af es.
  Proof.
    intro H. unfold RelayModelF.complete_connection_f, RelayModel.complete_connection.
    destruct es as [l|[l|e]].
    - rewrite (complete_now_f_eq a ar bf af l); [reflexivity|]. apply H. left. reflexivity.
    - unfold chain. rewrite (complete_now_f_eq a ar bf af l); [reflexivity|]. apply H. right. reflexivity.
    - reflexivity.
  Qed.

  (** every list the application hands over (through the callback the resolver uses) is made of
      edges with encodable cursors *)
  Definition app_encodable (a : app C E) : Prop :=
    (app_has_all a = true -> forall l, delivers E (app_all a) l -> forall e, In e l -> enc_ok e) /\
    (app_has_all a = false -> forall af bf lim l, delivers E (app_edges a af bf lim) l -> forall e, In e l -> enc_ok e).

  Theorem resolve_f_eq (a : app C E) ar : app_encodable a -> resolve_f a ar = resolve a ar.
  Proof.
    intros [Hall Hwin]. unfold RelayModelF.resolve_f, RelayModel.resolve.
    destruct (check_counts ar); [reflexivity|].
    destruct (decode_arg C decode (a_after ar) EInvalidAfter) as [af|]; [|reflexivity].
    destruct (decode_arg C decode (a_before ar) EInvalidBefore) as [bf|]; [|reflexivity].
    destruct (match a_first ar with Some first => Ret (first + 1)
              | None => match a_last ar with Some last => Ret (- (last + 1)) | None => Panic end end) as [limit|];
      [|reflexivity].
    destruct (app_has_all a) eqn:Ha; cbn [fst snd].
    - specialize (Hall eq_refl).
      destruct (app_all a) as [es|e] eqn:Hr.
      + rewrite (complete_connection_f_eq a ar bf af es Hall). reflexivity.
      + reflexivity.
    - specialize (Hwin eq_refl af bf limit).
      destruct (app_edges a af bf limit) as [es|e] eqn:Hr.
      + rewrite (complete_connection_f_eq a ar bf af es Hwin). reflexivity.
      + reflexivity.
  Qed.

  (** what the client of the failing-SerializeCursor model sees, in terms of RelayModel's answer *)
  Definition lift (sel_cursors : bool) (r : response E) : response_f E :=
    match r with
    | RError e => FError e
    | RData edges pi tot => FData (map (fun e => (if sel_cursors then encode (cur e) else [], e)) edges) pi tot
    end.

  Lemma ser_edges_ok l : (forall e, In e l -> enc_ok e) ->
    ser_edges C E cur encode_f l = Some (map (fun e => (encode (cur e), e)) l).
  Proof.
    induction l as [|x r IH]; intro H; cbn [ser_edges map]; [reflexivity|].
    rewrite (H x (or_introl eq_refl)). rewrite IH by (intros e He; apply H; right; exact He). reflexivity.
  Qed.

  Lemma spec_edges_incl S bf af first last page :
    spec_edges C E ltb cur S bf af first last = Some page -> incl page S.
  Proof.
    unfold spec_edges, slice_edges, position_apply_cursors. intro H.
    assert (K : forall l, incl l (filter (fun e => in_range C ltb af bf (cur e)) S) -> incl l S).
    { intros l Hl x Hx. apply Hl in Hx. apply filter_In in Hx. tauto. }
    destruct first as [n|], last as [m|];
      repeat match type of H with context [?x <? 0] => destruct (x <? 0) end;
      try discriminate; inversion H; subst; apply K.
    - eapply incl_tran; [apply keep_last_incl | apply keep_first_incl].
    - apply keep_first_incl.
    - apply keep_last_incl.
    - apply incl_refl.
  Qed.

  (** one accepted request against the model the check runs: everything [response_ok] says, with
      the edges' cursors serialised *)
  Theorem serve_f_ok (a : app C E) edges S ar af bf sel :
    app_ok C E ltb cur a edges S ->
    (forall e, In e S -> enc_ok e) ->
    args_rejected (a_first ar) (a_last ar) = false ->
    decode_arg C decode (a_after ar) EInvalidAfter = Ok af ->
    decode_arg C decode (a_before ar) EInvalidBefore = Ok bf ->
    response_ok C E ltb cur encode S af bf (a_first ar) (a_last ar) (serve a ar) /\
    serve_f sel a ar = lift sel (serve a ar).
  Proof.
    intros Happ Henc Hrej Ha Hb.
    pose proof (serve_ok C E ltb cur ltb_irrefl ltb_trans ltb_total encode decode a edges S ar af bf Happ Hrej Ha Hb) as Hok.
    split; [exact Hok|].
    assert (Happenc : app_encodable a).
    { destruct Happ as [HC [[Hh [Hd _]]|[Hh [_ Hw]]]]; split; intro Hx; try congruence.
      - intros l Hl e He. apply Henc. apply (connection_In C E ltb cur _ _ HC).
        destruct Hd as [Hd|Hd], Hl as [Hl|Hl]; rewrite Hd in Hl; inversion Hl; subst; exact He.
      - intros af' bf' lim l Hl e He. destruct (Hw af' bf' lim) as [L [HdL HwL]].
        assert (l = L) by (destruct HdL as [Hd|Hd], Hl as [Hl|Hl]; rewrite Hd in Hl; inversion Hl; reflexivity).
        subst l. apply Henc. destruct HwL as [_ [Hin _]]. apply Hin. exact He. }
    destruct Hok as [page [sp [Hserve [Hspec _]]]].
    rewrite Hserve. cbn [lift].
    unfold RelayModelF.serve_f. rewrite (resolve_f_eq a ar Happenc).
    unfold RelayModel.serve, observe in Hserve. unfold observe_f.
    destruct (await (fst (resolve a ar))) as [c|e]; [|discriminate].
    inversion Hserve as [[Hp Hpi Htot]].
    destruct sel.
    - rewrite ser_edges_ok; [reflexivity|].
      intros e He. apply Henc. apply (spec_edges_incl _ _ _ _ _ _ Hspec). rewrite <- Hp. exact He.
    - reflexivity.
  Qed.

  Lemma app_ok_encodable (a : app C E) edges S :
    app_ok C E ltb cur a edges S -> (forall e, In e S -> enc_ok e) -> app_encodable a.
  Proof.
    intros Happ Henc.
    destruct Happ as [HC [[Hh [Hd _]]|[Hh [_ Hw]]]]; split; intro Hx; try congruence.
    - intros l Hl e He. apply Henc. apply (connection_In C E ltb cur _ _ HC).
      destruct Hd as [Hd|Hd], Hl as [Hl|Hl]; rewrite Hd in Hl; inversion Hl; subst; exact He.
    - intros af' bf' lim l Hl e He. destruct (Hw af' bf' lim) as [L [HdL HwL]].
      assert (l = L) by (destruct HdL as [Hd|Hd], Hl as [Hl|Hl]; rewrite Hd in Hl; inversion Hl; reflexivity).
      subst l. apply Henc. destruct HwL as [_ [Hin _]]. apply Hin. exact He.
  Qed.

  (** the same for EVERY cursor argument (an invalid one is the same error in both models) *)
  Theorem serve_f_lift (a : app C E) edges S ar sel :
    app_ok C E ltb cur a edges S -> (forall e, In e S -> enc_ok e) ->
    args_rejected (a_first ar) (a_last ar) = false ->
    serve_f sel a ar = lift sel (serve a ar).
  Proof.
    intros Happ Henc Hrej.
    destruct (decode_arg C decode (a_after ar) EInvalidAfter) as [af|e1] eqn:Ha;
      [destruct (decode_arg C decode (a_before ar) EInvalidBefore) as [bf|e2] eqn:Hb|].
    - exact (proj2 (serve_f_ok a edges S ar af bf sel Happ Henc Hrej Ha Hb)).
    - assert (Hs : serve a ar = RError EInvalidAfter \/ serve a ar = RError EInvalidBefore).
      { apply (invalid_cursor_errors C E ltb cur encode decode a ar Hrej). right. eauto. }
      unfold RelayModelF.serve_f. rewrite (resolve_f_eq a ar (app_ok_encodable a edges S Happ Henc)).
      unfold RelayModel.serve, observe in Hs |- *. unfold observe_f.
      destruct (await (fst (resolve a ar))); destruct Hs as [Hs|Hs]; inversion Hs; reflexivity.
    - assert (Hs : serve a ar = RError EInvalidAfter \/ serve a ar = RError EInvalidBefore).
      { apply (invalid_cursor_errors C E ltb cur encode decode a ar Hrej). left. eauto. }
      unfold RelayModelF.serve_f. rewrite (resolve_f_eq a ar (app_ok_encodable a edges S Happ Henc)).
      unfold RelayModel.serve, observe in Hs |- *. unfold observe_f.
      destruct (await (fst (resolve a ar))); destruct Hs as [Hs|Hs]; inversion Hs; reflexivity.
  Qed.

  Lemma serve_f_of_error (a : app C E) ar sel e :
    app_encodable a -> serve a ar = RError e -> serve_f sel a ar = FError e.
  Proof.
    intros Henc Hs. unfold RelayModelF.serve_f. rewrite (resolve_f_eq a ar Henc).
    unfold RelayModel.serve, observe in Hs. unfold observe_f.
    destruct (await (fst (resolve a ar))); [discriminate | inversion Hs; reflexivity].
  Qed.

  (** arbitrary arguments — any counts, any byte strings as cursors — against the model the check
      runs: never the panic outcome; rejected counts are one of the four argument errors; otherwise
      an undecodable cursor is the error of its argument and a decodable one is a position [af] /
      [bf] of the cursor order at which the answer is the full C09 answer *)
  Theorem arbitrary_cursor_f (a : app C E) edges S ar sel :
    app_ok C E ltb cur a edges S -> (forall e, In e S -> enc_ok e) ->
    serve_f sel a ar <> FError EPanicked /\
    (args_rejected (a_first ar) (a_last ar) = true ->
       exists e, serve_f sel a ar = FError e /\
                 (e = EFirstNegative \/ e = EBothFirstLast \/ e = ELastNegative \/ e = ENoCount)) /\
    (args_rejected (a_first ar) (a_last ar) = false ->
       serve_f sel a ar = FError EInvalidAfter \/ serve_f sel a ar = FError EInvalidBefore \/
       exists af bf,
         decode_arg C decode (a_after ar) EInvalidAfter = Ok af /\
         decode_arg C decode (a_before ar) EInvalidBefore = Ok bf /\
         response_ok C E ltb cur encode S af bf (a_first ar) (a_last ar) (serve a ar) /\
         serve_f sel a ar = lift sel (serve a ar)).
  Proof.
    intros Happ Henc. pose proof (app_ok_encodable a edges S Happ Henc) as Hae.
    destruct (args_rejected (a_first ar) (a_last ar)) eqn:Hrej.
    - destruct (arg_errors C E ltb cur encode decode a ar Hrej) as [e [Hs He]].
      pose proof (serve_f_of_error a ar sel e Hae Hs) as Hf.
      split; [|split; [intros _; exists e; split; [exact Hf | exact He] | discriminate]].
      rewrite Hf. destruct He as [-> | [-> | [-> | ->]]]; discriminate.
    - assert (K : serve_f sel a ar = FError EInvalidAfter \/ serve_f sel a ar = FError EInvalidBefore \/
                  exists af bf,
                    decode_arg C decode (a_after ar) EInvalidAfter = Ok af /\
                    decode_arg C decode (a_before ar) EInvalidBefore = Ok bf /\
                    response_ok C E ltb cur encode S af bf (a_first ar) (a_last ar) (serve a ar) /\
                    serve_f sel a ar = lift sel (serve a ar)).
      { destruct (decode_arg C decode (a_after ar) EInvalidAfter) as [af|e1] eqn:Ha;
          [destruct (decode_arg C decode (a_before ar) EInvalidBefore) as [bf|e2] eqn:Hb|].
        - right. right. exists af, bf.
          destruct (serve_f_ok a edges S ar af bf sel Happ Henc Hrej Ha Hb) as [Hok Hl]. auto.
        - destruct (invalid_cursor_errors C E ltb cur encode decode a ar Hrej) as [Hs|Hs]; [right; eauto | |].
          + left. exact (serve_f_of_error a ar sel _ Hae Hs).
          + right. left. exact (serve_f_of_error a ar sel _ Hae Hs).
        - destruct (invalid_cursor_errors C E ltb cur encode decode a ar Hrej) as [Hs|Hs]; [left; eauto | |].
          + left. exact (serve_f_of_error a ar sel _ Hae Hs).
          + right. left. exact (serve_f_of_error a ar sel _ Hae Hs). }
      split; [|split; [discriminate | intros _; exact K]].
      destruct K as [K | [K | [af [bf [_ [_ [[page [sp [Hs _]]] Hl]]]]]]].
      + rewrite K. discriminate.
      + rewrite K. discriminate.
      + rewrite Hl, Hs. discriminate.
  Qed.

  (** ** walks against the model the check runs, through a connection of any Direction *)
  Definition opt_warg {A} (o : option A) : warg A := match o with Some x => WVal x | None => WAbsent end.

  Definition as_server_dir (d : direction) (a : app C E) (first last : option Z) (after before : option bytes)
    : option (page E) :=
    match serve_dir C E ltb cur encode_f decode d true a
            {| w_first := opt_warg first; w_last := opt_warg last; w_after := opt_warg after; w_before := opt_warg before |} with
    | FData edges (Ok sp) _ =>
        Some {| pg_edges := map snd edges; pg_has_prev := sp_prev sp; pg_has_next := sp_next sp;
                pg_start := sp_start sp; pg_end := sp_end sp |}
    | _ => None
    end.

  Lemma warg_value_opt {A} (o : option A) : warg_value (opt_warg o) = o.
  Proof. destruct o; reflexivity. Qed.

  Lemma map_snd_ser (l : list E) : map snd (map (fun e => (encode (cur e), e)) l) = l.
  Proof. induction l as [|x r IH]; [reflexivity|]. cbn [map snd]. rewrite IH. reflexivity. Qed.

  Lemma lift_as_page (r : response E) :
    match lift true r with
    | FData edges (Ok sp) _ =>
        Some {| pg_edges := map snd edges; pg_has_prev := sp_prev sp; pg_has_next := sp_next sp;
                pg_start := sp_start sp; pg_end := sp_end sp |}
    | _ => None
    end =
    match r with
    | RData edges (Ok sp) _ =>
        Some {| pg_edges := edges; pg_has_prev := sp_prev sp; pg_has_next := sp_next sp;
                pg_start := sp_start sp; pg_end := sp_end sp |}
    | _ => None
    end.
  Proof. destruct r as [e|edges [sp|e] t]; cbn [lift]; try reflexivity. rewrite map_snd_ser. reflexivity. Qed.

  (** a forward page request is answered identically by the forward-only and the bidirectional
      connection of the model the check runs and by RelayModel's server *)
  Lemma as_server_dir_forward (a : app C E) edges S d n after :
    app_ok C E ltb cur a edges S -> (forall e, In e S -> enc_ok e) -> 0 <= n ->
    d = ForwardOnly \/ d = Bidirectional ->
    as_server_dir d a (Some n) None after None = as_server C E ltb cur encode decode a (Some n) None after None.
  Proof.
    intros Happ Henc Hn Hd. unfold as_server_dir, RelayModelF.serve_dir, as_server.
    assert (Hrej : args_rejected (Some n) None = false) by (unfold args_rejected; lia).
    destruct Hd as [-> | ->]; cbn [accept_args opt_warg warg_given w_first w_last w_after w_before orb warg_value];
      rewrite warg_value_opt;
      rewrite (serve_f_lift a edges S {| a_first := Some n; a_last := None; a_after := after; a_before := None |} true Happ Henc Hrej);
      apply lift_as_page.
  Qed.

  Lemma as_server_dir_backward (a : app C E) edges S d n before :
    app_ok C E ltb cur a edges S -> (forall e, In e S -> enc_ok e) -> 0 <= n ->
    d = BackwardOnly \/ d = Bidirectional ->
    as_server_dir d a None (Some n) None before = as_server C E ltb cur encode decode a None (Some n) None before.
  Proof.
    intros Happ Henc Hn Hd. unfold as_server_dir, RelayModelF.serve_dir, as_server.
    assert (Hrej : args_rejected None (Some n) = false) by (unfold args_rejected; lia).
    destruct Hd as [-> | ->]; cbn [accept_args opt_warg warg_given w_first w_last w_after w_before orb warg_value];
      rewrite warg_value_opt;
      rewrite (serve_f_lift a edges S {| a_first := None; a_last := Some n; a_after := None; a_before := before |} true Happ Henc Hrej);
      apply lift_as_page.
  Qed.

  Lemma walk_forward_ext (s1 s2 : option Z -> option Z -> option bytes -> option bytes -> option (page E)) n :
    (forall after, s1 (Some n) None after None = s2 (Some n) None after None) ->
    forall fuel after, walk_forward E s1 n fuel after = walk_forward E s2 n fuel after.
  Proof.
    intro H. induction fuel as [|k IH]; intro aft; cbn [walk_forward]; [reflexivity|].
    rewrite H. destruct (s2 (Some n) None aft None) as [p|]; [|reflexivity].
    destruct (pg_has_next p); [|reflexivity]. rewrite IH. reflexivity.
  Qed.

  Lemma walk_backward_ext (s1 s2 : option Z -> option Z -> option bytes -> option bytes -> option (page E)) n :
    (forall before, s1 None (Some n) None before = s2 None (Some n) None before) ->
    forall fuel before, walk_backward E s1 n fuel before = walk_backward E s2 n fuel before.
  Proof.
    intro H. induction fuel as [|k IH]; intro bef; cbn [walk_backward]; [reflexivity|].
    rewrite H. destruct (s2 None (Some n) None bef) as [p|]; [|reflexivity].
    destruct (pg_has_prev p); [|reflexivity]. rewrite IH. reflexivity.
  Qed.

  (** paging visits each edge once — through the model the check runs (SerializeCursor partial),
      for a forward-only or bidirectional connection forwards, a backward-only or bidirectional
      one backwards *)
  Theorem walk_forward_exact_dir (a : app C E) edges S d :
    app_ok C E ltb cur a edges S ->
    (forall e, In e S -> enc_ok e) ->
    (forall e, In e S -> decode (encode (cur e)) = Some (cur e)) ->
    (forall c, encode c <> []) ->
    d = ForwardOnly \/ d = Bidirectional ->
    forall n, 1 <= n -> walk_forward E (as_server_dir d a) n (Datatypes.S (length S)) None = Done S.
  Proof.
    intros Happ Henc Hdec Hne Hd n Hn.
    rewrite (walk_forward_ext (as_server_dir d a) (as_server C E ltb cur encode decode a) n).
    - exact (walk_forward_exact C E ltb cur ltb_irrefl ltb_trans ltb_total encode decode a edges S Happ Hdec Hne n Hn).
    - intro aft. apply (as_server_dir_forward a edges S d n aft Happ Henc ltac:(lia) Hd).
  Qed.

  Theorem walk_backward_exact_dir (a : app C E) edges S d :
    app_ok C E ltb cur a edges S ->
    (forall e, In e S -> enc_ok e) ->
    (forall e, In e S -> decode (encode (cur e)) = Some (cur e)) ->
    (forall c, encode c <> []) ->
    d = BackwardOnly \/ d = Bidirectional ->
    forall n, 1 <= n -> walk_backward E (as_server_dir d a) n (Datatypes.S (length S)) None = Done S.
  Proof.
    intros Happ Henc Hdec Hne Hd n Hn.
    rewrite (walk_backward_ext (as_server_dir d a) (as_server C E ltb cur encode decode a) n).
    - exact (walk_backward_exact C E ltb cur ltb_irrefl ltb_trans ltb_total encode decode a edges S Happ Hdec Hne n Hn).
    - intro bef. apply (as_server_dir_backward a edges S d n bef Happ Henc ltac:(lia) Hd).
  Qed.

  (** the number of edges the cost function charges for bounds the number of edges returned *)
  Theorem cost_bounds_page (a : app C E) edges S ar af bf :
    app_ok C E ltb cur a edges S ->
    args_rejected (a_first ar) (a_last ar) = false ->
    decode_arg C decode (a_after ar) EInvalidAfter = Ok af ->
    decode_arg C decode (a_before ar) EInvalidBefore = Ok bf ->
    exists page pi t, serve a ar = RData page pi t /\ Z.of_nat (length page) <= max_edge_count ar.
  Proof.
    intros Happ Hrej Ha Hb.
    destruct (serve_ok C E ltb cur ltb_irrefl ltb_trans ltb_total encode decode a edges S ar af bf Happ Hrej Ha Hb)
      as [page [sp [Hserve [Hspec _]]]].
    exists page, (Ok sp), (Ok (len S)). split; [exact Hserve|].
    unfold max_edge_count. unfold spec_edges, slice_edges, args_rejected in *.
    set (R := position_apply_cursors C E ltb cur S bf af) in *.
    destruct (a_first ar) as [n|], (a_last ar) as [m|]; try discriminate.
    - destruct (n <? 0) eqn:Hn; [discriminate|]. inversion Hspec; subst page.
      unfold keep_first. destruct (Z.of_nat (length R) >? n) eqn:Hg; [|lia].
      rewrite firstn_length. lia.
    - destruct (m <? 0) eqn:Hm; [discriminate|]. inversion Hspec; subst page.
      unfold keep_last. destruct (Z.of_nat (length R) >? m) eqn:Hg; [|lia].
      rewrite rev_length, firstn_length. lia.
  Qed.
End SerFail.

(** ** TimeBasedConnection.ResolveEdges hands over every edge its getter answered, once *)
Section TimeConnProofs.
  Variable E : Type.

  Lemma join_edges_ok (pls : list (list E)) acc :
    join_edges E (map (fun l => Ok l) pls) acc = Ok (acc ++ concat pls).
  Proof.
    revert acc. induction pls as [|l r IH]; intro acc; cbn [map join_edges concat].
    - rewrite app_nil_r. reflexivity.
    - rewrite IH, app_assoc. reflexivity.
  Qed.

  Lemma time_collect_delivers answers ls :
    Forall2 (delivers E) answers ls ->
    forall edges pls, exists L,
      delivers E (time_collect E answers edges (map (fun l => Ok l) pls)) L /\
      Permutation L (edges ++ concat pls ++ concat ls).
  Proof.
    induction 1 as [|r l answers ls Hd HF IH]; intros edges pls.
    - cbn [time_collect concat]. rewrite app_nil_r. destruct pls as [|p pr].
      + exists edges. split; [left; reflexivity|]. cbn [concat]. rewrite app_nil_r. apply Permutation_refl.
      + exists (edges ++ concat (p :: pr)). split; [|apply Permutation_refl].
        right. cbn [map]. f_equal. f_equal. exact (join_edges_ok (p :: pr) edges).
    - destruct Hd as [-> | ->]; cbn [time_collect concat].
      + destruct (IH (edges ++ l) pls) as [L [HL HP]]. exists L. split; [exact HL|].
        eapply Permutation_trans; [exact HP|].
        rewrite <- app_assoc. apply Permutation_app_head.
        rewrite !app_assoc. apply Permutation_app_tail. apply Permutation_app_comm.
      + replace (map (fun l0 => Ok l0) pls ++ [Ok l]) with (map (fun l0 : list E => Ok l0) (pls ++ [l]))
          by (rewrite map_app; reflexivity).
        destruct (IH edges (pls ++ [l])) as [L [HL HP]]. exists L. split; [exact HL|].
        eapply Permutation_trans; [exact HP|].
        rewrite concat_app. cbn [concat]. rewrite app_nil_r, <- !app_assoc. apply Permutation_refl.
  Qed.

  (** whatever mixture of direct answers and promises the getter uses: ResolveEdges hands over a
      permutation of the concatenation of all answers — nothing dropped, nothing twice *)
  Theorem time_resolve_edges_delivers answers ls :
    Forall2 (delivers E) answers ls ->
    exists L, delivers E (time_resolve_edges E answers) L /\ Permutation L (concat ls).
  Proof.
    intro H. destruct (time_collect_delivers answers ls H [] []) as [L [HL HP]].
    exists L. split; [exact HL | exact HP].
  Qed.
End TimeConnProofs.

(** ** Direction *)
Section Direction.
  Variables C E : Type.
  Variable ltb : C -> C -> bool.
  Variable cur : E -> C.
  Variable encode_f : C -> option bytes.
  Variable decode : bytes -> option C.
  Notation serve_dir := (serve_dir C E ltb cur encode_f decode).

  (** a forward-only connection accepts exactly: [first] an int, [after] anything, [last] and
      [before] not written at all — and then answers as the bidirectional connection does *)
  Theorem forward_only_serves sel (a : app C E) w :
    match w_first w, warg_given (w_last w) || warg_given (w_before w) with
    | WVal _, false => serve_dir ForwardOnly sel a w = serve_dir Bidirectional sel a w
    | _, _ => serve_dir ForwardOnly sel a w = FError EValidation
    end.
  Proof.
    unfold RelayModelF.serve_dir, accept_args.
    destruct (warg_given (w_last w) || warg_given (w_before w)) eqn:G.
    - destruct (w_first w); reflexivity.
    - apply orb_false_elim in G. destruct G as [G1 G2].
      destruct (w_last w); try discriminate. destruct (w_before w); try discriminate.
      destruct (w_first w); reflexivity.
  Qed.

  Theorem backward_only_serves sel (a : app C E) w :
    match w_last w, warg_given (w_first w) || warg_given (w_after w) with
    | WVal _, false => serve_dir BackwardOnly sel a w = serve_dir Bidirectional sel a w
    | _, _ => serve_dir BackwardOnly sel a w = FError EValidation
    end.
  Proof.
    unfold RelayModelF.serve_dir, accept_args.
    destruct (warg_given (w_first w) || warg_given (w_after w)) eqn:G.
    - destruct (w_last w); reflexivity.
    - apply orb_false_elim in G. destruct G as [G1 G2].
      destruct (w_first w); try discriminate. destruct (w_after w); try discriminate.
      destruct (w_last w); reflexivity.
  Qed.
End Direction.
