(** * Relay/RelayModel.v — transcription of the connection machinery (C09)

      pagination/pagination.go:25-84    ApplyCursorsToEdges, EdgesToReturn
      pagination.go:484-573             the resolver built by Connection(config)
      pagination.go:577-657             completeConnection
      api.go:135-148                    chain (only its value flow: a promise delivers a value or an
                                        error, the continuation runs on the value)

    Parameters of the section = the application's ConnectionConfig: the decoded cursor type [C]
    with [cursorLess] ([ltb]), the edge values [E] with [config.EdgeCursor] ([cur]), and
    SerializeCursor / DeserializeCursor at [config.CursorType] ([encode] / [decode]).
    Go panics are explicit ([Panic], [EPanicked]).  No proofs in this file. *)
From Coq Require Import List NArith ZArith Bool.
From ApiFu Require Import Base.Sexp.
Import ListNotations.
Open Scope Z_scope.

Inductive outcome (A : Type) := Ret (a : A) | Panic.
Arguments Ret {A} a.
Arguments Panic {A}.

(** errors a connection field can answer with *)
Inductive err :=
| EFirstNegative | EBothFirstLast | ELastNegative | ENoCount      (* argument checks *)
| EInvalidAfter | EInvalidBefore                                   (* DeserializeCursor returned nil *)
| EApp                                                             (* the application's getter failed *)
| ETotalUnsupported
| ESerialize                                                       (* SerializeCursor failed (RelayModelF.v) *)
| EValidation                                                      (* rejected before the resolver: an argument the field does not define / a required one missing (RelayModelF.v) *)
| EPanicked.                                                       (* a Go panic (nothing recovers it) *)

Inductive result (A : Type) := Ok (a : A) | Err (e : err).
Arguments Ok {A} a.
Arguments Err {A} e.

(** a resolver value: either the value itself or a graphql.ResolvePromise that will deliver a
    value or an error *)
Inductive later (A : Type) := Sync (a : A) | Promise (r : result A).
Arguments Sync {A} a.
Arguments Promise {A} r.

(** api.go chain(ctx, p, f): a new promise delivering p's error, or f applied to p's value *)
Definition chain {A B} (p : result A) (f : A -> result B) : result B :=
  match p with Err e => Err e | Ok a => f a end.

(** what the executor finally sees of a resolver's (value, error) pair *)
Definition await {A} (r : result (later A)) : result A :=
  match r with
  | Err e => Err e
  | Ok (Sync a) => Ok a
  | Ok (Promise p) => p
  end.

Definition len {A} (l : list A) : Z := Z.of_nat (length l).

Fixpoint last_error {A} (l : list A) : option A :=
  match l with
  | [] => None
  | [x] => Some x
  | _ :: r => last_error r
  end.

Section Model.
  Variables C E : Type.
  Variable ltb : C -> C -> bool.          (* cursorLess / Cursor.LessThan *)
  Variable cur : E -> C.                  (* config.EdgeCursor / Edge.Cursor *)
  Variable encode : C -> bytes.           (* SerializeCursor (never fails for the modelled cursor types) *)
  Variable decode : bytes -> option C.    (* DeserializeCursor(config.CursorType, _); None = nil *)

  (** ** pagination.ApplyCursorsToEdges *)
  Fixpoint apply_loop (edges : list E) (after before : option C) : list E * bool * bool :=
    match edges with
    | [] => ([], false, false)
    | e :: rest =>
        let '(filtered, had_before_after, had_after_before) := apply_loop rest after before in
        let c := cur e in
        if match before with Some b => negb (ltb c b) | None => false end
        then (filtered, had_before_after, true)
        else if match after with Some a => negb (ltb a c) | None => false end
        then (filtered, true, had_after_before)
        else (e :: filtered, had_before_after, had_after_before)
    end.

  Definition apply_cursors_to_edges (edges : list E) (after before : option C) : list E * bool * bool :=
    match after, before with
    | None, None => (edges, false, false)
    | _, _ => apply_loop edges after before
    end.

  (** ** sort.Slice(edges, less by cursor): some sorted permutation; here insertion sort.  (With
      distinct cursors in a total order there is only one sorted permutation, RelayProofs.v.) *)
  Fixpoint insert (x : E) (l : list E) : list E :=
    match l with
    | [] => [x]
    | y :: r => if ltb (cur y) (cur x) then y :: insert x r else x :: y :: r
    end.
  Fixpoint isort (l : list E) : list E :=
    match l with
    | [] => []
    | x :: r => insert x (isort r)
    end.

  (** ** pagination.EdgesToReturn *)
  Record page_info := { pi_prev : bool; pi_next : bool; pi_start : option C; pi_end : option C }.

  (** [edges[:first]]: slicing panics when [first] is negative *)
  Definition cut_first (edges : list E) (first : option Z) (had_next : bool) : outcome (list E * bool) :=
    match first with
    | None => Ret (edges, had_next)
    | Some n =>
        if len edges >? n then
          if n <? 0 then Panic else Ret (firstn (Z.to_nat n) edges, true)
        else Ret (edges, false)
    end.

  (** [edges[len(edges)-last:]] *)
  Definition cut_last (edges : list E) (last : option Z) (had_prev : bool) : outcome (list E * bool) :=
    match last with
    | None => Ret (edges, had_prev)
    | Some n =>
        if len edges >? n then
          if n <? 0 then Panic else Ret (skipn (length edges - Z.to_nat n) edges, true)
        else Ret (edges, false)
    end.

  Definition edges_to_return (edges : list E) (after before : option C) (first last : option Z)
    : outcome (list E * page_info) :=
    let '(filtered, had_prev, had_next) := apply_cursors_to_edges edges after before in
    let sorted := isort filtered in
    match cut_first sorted first had_next with
    | Panic => Panic
    | Ret (e1, next) =>
        match cut_last e1 last had_prev with
        | Panic => Panic
        | Ret (e2, prev) =>
            Ret (e2, {| pi_prev := prev; pi_next := next;
                        pi_start := option_map cur (hd_error e2);
                        pi_end := option_map cur (last_error e2) |})
        end
    end.

  (** ** the connection field *)

  (** [ctx.Arguments]: [a_first = Some n] iff [Arguments["first"]] is an int; [a_after = Some s]
      iff [Arguments["after"]] is a string (absent and null are both [None]) *)
  Record args := { a_first : option Z; a_last : option Z; a_after : option bytes; a_before : option bytes }.

  (** one ResolveEdges(ctx, after, before, limit) call *)
  Record call := { k_after : option C; k_before : option C; k_limit : Z }.

  (** the application's ConnectionConfig callbacks *)
  Record app := {
    app_has_all : bool;                                               (* ResolveAllEdges != nil *)
    app_all : result (later (list E));                                (* ResolveAllEdges(ctx) *)
    app_edges : option C -> option C -> Z -> result (later (list E)); (* ResolveEdges(ctx, after, before, limit) *)
    app_total : option (result Z)                                     (* ResolveTotalCount(ctx); None: not configured *)
  }.

  (** serialised PageInfo *)
  Record spage := { sp_prev : bool; sp_next : bool; sp_start : bytes; sp_end : bytes }.

  (** the *connection object: [cn_page_info] / [cn_total] are what ResolvePageInfo() /
      ResolveTotalCount() return when (and only when) the field is selected;
      [cn_page_info_calls] are the ResolveEdges calls ResolvePageInfo() makes *)
  Record conn := {
    cn_edges : list E;
    cn_page_info : result (later spage);
    cn_total : result (later Z);
    cn_page_info_calls : list call
  }.

  Definition result_map {A B} (f : A -> B) (r : result A) : result B :=
    match r with Ok a => Ok (f a) | Err e => Err e end.

  (** completeConnection on a slice *)
  Definition complete_now (a : app) (ar : args) (before after : option C) (l : list E) : result conn :=
    let total :=
      match app_total a with
      | Some t => result_map Sync t
      | None => Ok (Sync (len l))
      end in
    match edges_to_return l after before (a_first ar) (a_last ar) with
    | Panic => Err EPanicked
    | Ret (edges, pi) =>
        Ok {| cn_edges := edges;
              cn_page_info := Ok (Sync {| sp_prev := pi_prev pi; sp_next := pi_next pi;
                                          sp_start := match pi_start pi with Some c => encode c | None => [] end;
                                          sp_end := match pi_end pi with Some c => encode c | None => [] end |});
              cn_total := total;
              cn_page_info_calls := [] |}
    end.

  (** completeConnection: a promise is chained *)
  Definition complete_connection (a : app) (ar : args) (before after : option C) (es : later (list E))
    : result (later conn) :=
    match es with
    | Promise p => Ok (Promise (chain p (complete_now a ar before after)))
    | Sync l => result_map Sync (complete_now a ar before after l)
    end.

  Definition check_counts (ar : args) : option err :=
    match a_first ar with
    | Some first =>
        if first <? 0 then Some EFirstNegative
        else match a_last ar with Some _ => Some EBothFirstLast | None => None end
    | None =>
        match a_last ar with
        | Some last => if last <? 0 then Some ELastNegative else None
        | None => Some ENoCount
        end
    end.

  (** [""] (and a missing / null / non-string argument) means "no cursor" *)
  Definition decode_arg (s : option bytes) (e : err) : result (option C) :=
    match s with
    | None | Some [] => Ok None
    | Some s' => match decode s' with Some c => Ok (Some c) | None => Err e end
    end.

  (** the resolver: its (value, error) pair and the ResolveEdges calls it made itself *)
  Definition resolve (a : app) (ar : args) : result (later conn) * list call :=
    match check_counts ar with
    | Some e => (Err e, [])
    | None =>
    match decode_arg (a_after ar) EInvalidAfter with
    | Err e => (Err e, [])
    | Ok after =>
    match decode_arg (a_before ar) EInvalidBefore with
    | Err e => (Err e, [])
    | Ok before =>
    match (match a_first ar with
           | Some first => Ret (first + 1)
           | None => match a_last ar with Some last => Ret (- (last + 1)) | None => Panic end
           end) with
    | Panic => (Err EPanicked, [])
    | Ret limit =>
        let do_resolve (_ : unit) : result (later (list E)) * list call :=
          if app_has_all a then (app_all a, [])
          else (app_edges a after before limit,
                [{| k_after := after; k_before := before; k_limit := limit |}]) in
        if (limit =? 1) || (limit =? -1) then
          (* no edges. don't do anything unless pageInfo is requested *)
          (Ok (Sync {|
             cn_edges := [];
             cn_total :=
               match app_total a with
               | Some t => result_map Sync t
               | None =>
                   if app_has_all a then
                     match app_all a with
                     | Err e => Err e
                     | Ok (Promise p) => Ok (Promise (chain p (fun l => Ok (len l))))
                     | Ok (Sync l) => Ok (Sync (len l))
                     end
                   else Err ETotalUnsupported
               end;
             cn_page_info :=
               match fst (do_resolve tt) with
               | Err e => Err e
               | Ok es =>
                   match complete_connection a ar before after es with
                   | Err e => Err e
                   | Ok (Promise p) => Ok (Promise (chain p (fun c => await (cn_page_info c))))
                   | Ok (Sync c) => cn_page_info c
                   end
               end;
             cn_page_info_calls := snd (do_resolve tt) |}), [])
        else
          match fst (do_resolve tt) with
          | Err e => (Err e, snd (do_resolve tt))
          | Ok es => (complete_connection a ar before after es, snd (do_resolve tt))
          end
    end end end end.

  (** ** what a client observes when it selects everything *)
  Inductive response :=
  | RError (e : err)                                        (* connection: null + an error *)
  | RData (edges : list E) (page_info : result spage) (total : result Z).

  Definition observe (r : result (later conn)) : response :=
    match await r with
    | Err e => RError e
    | Ok c => RData (cn_edges c) (await (cn_page_info c)) (await (cn_total c))
    end.

  Definition serve (a : app) (ar : args) : response := observe (fst (resolve a ar)).
End Model.

Arguments pi_prev {C}. Arguments pi_next {C}. Arguments pi_start {C}. Arguments pi_end {C}.
Arguments k_after {C}. Arguments k_before {C}. Arguments k_limit {C}.
Arguments app_has_all {C E}. Arguments app_all {C E}. Arguments app_edges {C E}. Arguments app_total {C E}.
Arguments cn_edges {C E}. Arguments cn_page_info {C E}. Arguments cn_total {C E}. Arguments cn_page_info_calls {C E}.
Arguments RError {E}. Arguments RData {E}.
