(** * Lex/LexRefine.v — C07: the scanner model against the reference lexer, from bytes, for every
    valid UTF-8 input: positions, soundness (an error-free scan is the grammar's tokenisation),
    completeness of errors, and refinement outside the two known classes. *)
From Coq Require Import List NArith ZArith Bool Lia ZifyBool ZifyNat ZifyN.
From ApiFu Require Import Base.Sexp Lex.ListAux Lex.Utf8 Lex.LexModel Lex.LexSpec Lex.LexRel Lex.Utf8Proofs
  Lex.LexProgress Lex.LexSync Lex.LexSpecFacts Lex.LexClasses Lex.LexStrings Lex.LexStep.
Import ListNotations.
Open Scope Z_scope.

Lemma tok_of_kind_string sk : tok_eqb (tok_of_kind sk) STRING_VALUE = true <-> sk = KString.
Proof. destruct sk; cbn; split; intro H; try reflexivity; try discriminate. Qed.

Lemma tok_of_kind_valid sk : tok_eqb (tok_of_kind sk) INVALID = false.
Proof. destruct sk; reflexivity. Qed.

Lemma tok_of_kind_ignored sk : is_ignored (tok_of_kind sk) = kind_ignored sk.
Proof. destruct sk; reflexivity. Qed.

Lemma nth_error_skipn_add {A} : forall (n j : nat) (l : list A), nth_error (skipn n l) j = nth_error l (n + j).
Proof. induction n as [|n IH]; intros j [|x l]; cbn [skipn nth_error Nat.add]; auto. destruct j; reflexivity. Qed.

Lemma firstn_app_exact {A} (a b : list A) : firstn (length a) (a ++ b) = a.
Proof. rewrite firstn_app, Nat.sub_diag, firstn_all. cbn [firstn]. apply app_nil_r. Qed.

Section Refine.
  Variable cps : list cp.
  Hypothesis Hscalar : forallb scalar_value cps = true.
  Notation sync := (LexSync.sync cps).

  (** the reference token [spec_scan] cuts *)
  Definition spec_token (idx : nat) (off : Z) (p : Z * Z) (L : list cp) (sk : kind) (j : nat) : stoken :=
    let text := firstn j L in
    {| st_kind := sk; st_start := idx; st_count := j; st_off := off; st_len := utf8_length text;
       st_line := fst p; st_col := snd p; st_text := text;
       st_value := match sk, match_string L with
                   | KString, Some (SMatch _ v) => v
                   | _, _ => text
                   end |}.

  (** ... at a synchronised state *)
  Definition stoken_at (n : nat) (L : list cp) (st : state) (sk : kind) (j : nat) : stoken :=
    spec_token n (s_off st) (s_line st, s_col st) L sk j.

  Lemma sync_off_after n L st j st1 : sync n L st -> sync (n + j) (skipn j L) st1 ->
    s_off st1 = s_off st + utf8_length (firstn j L).
  Proof.
    intros Hs Hs1. rewrite (sy_off _ _ _ _ Hs1), (sy_off _ _ _ _ Hs), <- (sy_L _ _ _ _ Hs).
    rewrite <- firstn_skipn_add, utf8_length_app. reflexivity.
  Qed.

  Lemma sync_pos_after n L st j st1 : sync n L st -> sync (n + j) (skipn j L) st1 ->
    (s_line st1, s_col st1) = advance_pos (s_line st, s_col st) j L.
  Proof.
    intros Hs Hs1. rewrite (sy_pos _ _ _ _ Hs1), (sy_pos _ _ _ _ Hs), <- (sy_L _ _ _ _ Hs).
    apply advance_pos_add.
  Qed.

  (** a good round builds exactly the reference token *)
  Lemma good_token n L st sk j k sv st1 : sync n L st -> good cps n L st sk j k sv st1 ->
    mk_token st k sv st1 = token_of_stoken (stoken_at n L st sk j).
  Proof.
    intros Hs (Hk & Hs1 & He & Hv). pose proof (sync_off_after _ _ _ _ _ Hs Hs1) as Hoff.
    assert (Hlen : s_off st1 - s_off st = utf8_length (firstn j L)) by lia.
    assert (Hlit : firstn (Z.to_nat (s_off st1 - s_off st)) (s_rest st) = utf8_encode_all (firstn j L)).
    { rewrite Hlen, (sy_rest _ _ _ _ Hs), <- utf8_length_encode, Nat2Z.id.
      rewrite <- (firstn_skipn j L) at 2. rewrite utf8_encode_all_app. apply firstn_app_exact. }
    unfold mk_token, token_of_stoken, stoken_at, spec_token.
    cbn [st_kind st_off st_len st_line st_col st_text st_value fst snd]. rewrite Hlit, Hlen, Hk. f_equal.
    destruct (tok_eqb (tok_of_kind sk) STRING_VALUE) eqn:E.
    - apply tok_of_kind_string in E. subst sk. destruct (Hv eq_refl) as (val & Hm & ->). rewrite Hm. reflexivity.
    - destruct sk; try reflexivity. discriminate.
  Qed.

  (** [scan] in ScanIgnored mode, one round *)
  Lemma scan_round_true f st k sv st1 : is_done st = false -> scan_switch st = Some (k, sv, st1) ->
    tok_eqb k INVALID = false -> scan (S f) true st = ScanTrue (mk_token st k sv st1) st1.
  Proof. intros Hd H Hk. cbn [scan]. rewrite Hd, H, Hk, andb_false_r. reflexivity. Qed.

  (** unfolding the reference lexer *)
  Lemma spec_scan_cons f idx off p c t sk j : longest_token (c :: t) = Some (sk, S j) ->
    spec_scan (S f) idx off p (c :: t) =
      let (ts, e) := spec_scan f (idx + S j)%nat (off + utf8_length (firstn (S j) (c :: t)))
                               (advance_pos p (S j) (c :: t)) (skipn (S j) (c :: t)) in
      (spec_token idx off p (c :: t) sk (S j) :: ts, e).
  Proof. intro H. cbn [spec_scan]. rewrite H. reflexivity. Qed.

  (** the two exclusion predicates of the specification, read at a synchronised state *)
  Lemma trouble_excl n L st sk j : sync n L st ->
    trouble n L sk j = dangling_exponent cps (stoken_at n L st sk j) || inner_bom (stoken_at n L st sk j).
  Proof.
    intro Hs. unfold trouble, dangling_exponent, inner_bom, stoken_at, spec_token. cbn [st_kind st_text st_start st_count].
    rewrite <- nth_error_skipn_add, (sy_L _ _ _ _ Hs).
    destruct sk; try reflexivity; rewrite ?orb_false_r; reflexivity.
  Qed.

  (** ** soundness: a scan without error is the grammar's tokenisation *)
  Lemma sound_gen : forall fm n L st ts es, sync n L st ->
    scan_all fm true st = Done ts es -> length es = length (s_errs st) ->
    forall fs, (length L < fs)%nat ->
    exists stoks, spec_scan fs n (s_off st) (s_line st, s_col st) L = (stoks, EndOk) /\
                  ts = map token_of_stoken stoks /\
                  existsb (dangling_exponent cps) stoks = false /\ existsb inner_bom stoks = false.
  Proof.
    induction fm as [|fm IH]; intros n L st ts es Hs H He fs Hfs; [discriminate|].
    cbn [scan_all] in H.
    destruct (scan_ok true (S (fuel_of st)) st) as [(st' & H1 & [K1 K2] & D1)|(t & st0 & st' & H1 & [K1 K2] & T1)];
      [unfold fuel_of; lia| |]; rewrite H1 in H.
    - (* end of input *)
      inversion H; subst ts es. pose proof (steps_errs_length _ _ _ K1) as Hmono.
      destruct (K2 eq_refl) as [Ho|Hl]; [|lia].
      pose proof (steps_same _ _ _ K1 Ho He). subst st'.
      destruct L as [|c t]; [|rewrite (sync_not_done _ _ _ _ _ Hs) in D1; discriminate].
      destruct fs; [lia|]. exists []. repeat split; reflexivity.
    - destruct (scan_all fm true st') as [|ts' es'] eqn:E; [discriminate|]. inversion H; subst ts es'.
      pose proof (steps_errs_length _ _ _ K1) as M1.
      pose proof (steps_errs_length _ _ _ (ta_steps _ _ _ T1)) as M2.
      pose proof (scan_all_errs_mono _ _ _ _ _ E) as M3.
      destruct (K2 eq_refl) as [Ho|Hl]; [|lia].
      assert (st0 = st) by (apply (steps_same _ _ _ K1 Ho); lia). subst st0.
      destruct (ta_switch _ _ _ T1) as (k & sv & Hsw & ->).
      destruct L as [|c t0].
      { pose proof (steps_length _ _ _ (ta_steps _ _ _ T1)) as Hl. rewrite (sy_rest _ _ _ _ Hs) in Hl. simpl in Hl. lia. }
      pose proof (scan_switch_sync _ Hscalar _ _ _ _ _ _ _ Hs Hsw) as HP. unfold step_post in HP.
      destruct (longest_token (c :: t0)) as [[sk j]|] eqn:Elt; [|unfold more_errs in HP; lia].
      destruct HP as [Hj HP]. pose proof (trouble_excl n (c :: t0) st sk j Hs) as Htr.
      destruct (trouble n (c :: t0) sk j) eqn:Etr; [unfold more_errs in HP; lia|].
      destruct HP as [HG|[HM _]]; [|unfold more_errs in HM; lia].
      pose proof (good_token _ _ _ _ _ _ _ _ Hs HG) as Htok.
      destruct HG as (Hk & Hs1 & He1 & Hv).
      destruct j as [|j]; [congruence|]. destruct fs as [|fs]; [lia|].
      destruct (IH _ _ _ _ _ Hs1 E ltac:(unfold same_errs in He1; lia) fs) as (stoks & HS & HT & HX1 & HX2).
      { rewrite skipn_length. simpl in *. lia. }
      rewrite (spec_scan_cons _ _ _ _ _ _ _ _ Elt).
      rewrite (sync_off_after _ _ _ _ _ Hs Hs1), (sync_pos_after _ _ _ _ _ Hs Hs1) in HS.
      rewrite HS. fold (stoken_at n (c :: t0) st sk (S j)). eexists. split; [reflexivity|]. cbn [map existsb].
      symmetry in Htr. apply orb_false_iff in Htr as [Htr1 Htr2].
      rewrite Htr1, Htr2, HX1, HX2. repeat split. rewrite Htok, HT. reflexivity.
  Qed.

  (** ** completeness: outside the two known classes, a text the grammar tokenises is scanned
      without error *)
  Lemma complete_gen : forall fs n L st stoks, sync n L st ->
    spec_scan fs n (s_off st) (s_line st, s_col st) L = (stoks, EndOk) ->
    existsb (dangling_exponent cps) stoks = false -> existsb inner_bom stoks = false ->
    forall fm, (length L < fm)%nat ->
    scan_all fm true st = Done (map token_of_stoken stoks) (s_errs st).
  Proof.
    induction fs as [|fs IH]; intros n L st stoks Hs HS HX1 HX2 fm Hfm.
    - destruct L; cbn [spec_scan] in HS; [|discriminate]. inversion HS; subst.
      destruct fm; [lia|]. cbn [scan_all scan]. rewrite (sync_done _ _ _ Hs). reflexivity.
    - destruct L as [|c t].
      + cbn [spec_scan] in HS. inversion HS; subst.
        destruct fm; [lia|]. cbn [scan_all scan]. rewrite (sync_done _ _ _ Hs). reflexivity.
      + pose proof (sync_not_done _ _ _ _ _ Hs) as Hnd.
        destruct (scan_switch_ok st Hnd) as (k & sv & st1 & Hsw & _).
        pose proof (scan_switch_sync _ Hscalar _ _ _ _ _ _ _ Hs Hsw) as HP. unfold step_post in HP.
        destruct (longest_token (c :: t)) as [[sk j]|] eqn:Elt; [|cbn [spec_scan] in HS; rewrite Elt in HS; discriminate].
        destruct j as [|j]; [cbn [spec_scan] in HS; rewrite Elt in HS; discriminate|].
        rewrite (spec_scan_cons _ _ _ _ _ _ _ _ Elt) in HS.
        destruct (spec_scan fs _ _ _ _) as [ts' e'] eqn:ES. injection HS as Hstoks He'. subst stoks e'.
        fold (stoken_at n (c :: t) st sk (S j)) in *.
        cbn [existsb] in HX1, HX2. apply orb_false_iff in HX1 as [HX1 HX1'], HX2 as [HX2 HX2'].
        destruct HP as [_ HP]. rewrite (trouble_excl n (c :: t) st sk (S j) Hs), HX1, HX2 in HP. cbn [orb] in HP.
        destruct HP as [HG|[_ (d & r & Hsk & Hnone)]].
        * pose proof (good_token _ _ _ _ _ _ _ _ Hs HG) as Htok.
          destruct HG as (Hk & Hs1 & He1 & Hv).
          rewrite <- (sync_off_after _ _ _ _ _ Hs Hs1) in ES.
          rewrite <- (sync_pos_after _ _ _ _ _ Hs Hs1) in ES.
          destruct fm as [|fm]; [lia|]. cbn [scan_all].
          rewrite (scan_round_true _ _ _ _ _ Hnd Hsw) by (rewrite Hk; apply tok_of_kind_valid).
          rewrite (IH _ _ _ _ Hs1 ES HX1' HX2' fm) by (rewrite skipn_length; simpl in *; lia).
          cbn [map]. rewrite Htok. unfold same_errs in He1. rewrite He1. reflexivity.
        * (* the grammar has no token after this comment: contradiction with its success *)
          exfalso. rewrite Hsk in ES. destruct fs as [|fs']; cbn [spec_scan] in ES; [discriminate|].
          rewrite Hnone in ES. discriminate.
  Qed.
End Refine.

(** ** The theorems, from bytes *)

Lemma spec_scan_no_fuel : forall fs idx off p L, (length L < fs)%nat -> snd (spec_scan fs idx off p L) <> EndFuel.
Proof.
  induction fs as [|fs IH]; intros idx off p L Hl; [lia|].
  destruct L as [|c t]; [cbn; discriminate|]. cbn [spec_scan].
  destruct (longest_token (c :: t)) as [[sk [|j]]|]; try (cbn; discriminate).
  specialize (IH (idx + S j)%nat (off + utf8_length (firstn (S j) (c :: t)))%Z (advance_pos p (S j) (c :: t)) (skipn (S j) (c :: t))).
  destruct (spec_scan fs _ _ _ _) as [ts e]. cbn [snd] in *. apply IH. rewrite skipn_length. cbn [length] in *. lia.
Qed.

(** the reference lexer is total: it ends at the end of the text or at a lexical error *)
Theorem spec_lex_total : forall cps, snd (spec_lex cps) <> EndFuel.
Proof. intro cps. apply spec_scan_no_fuel. lia. Qed.

(** an error-free scan is the grammar's tokenisation (and the text is in neither known class) *)
Theorem lex_sound : forall bs cps ts,
  utf8_decode bs = Some cps -> lex true bs = Done ts [] ->
  exists stoks, spec_lex cps = (stoks, EndOk) /\ ts = map token_of_stoken stoks /\
                excl_dangling_exponent cps stoks = false /\ excl_inner_bom stoks = false.
Proof.
  intros bs cps ts Hd H. destruct (utf8_decode_sound _ _ Hd) as [-> Hsc].
  unfold lex in H. unfold spec_lex.
  exact (sound_gen cps Hsc _ 0%nat cps _ ts [] (sync_init cps) H eq_refl (S (length cps)) ltac:(lia)).
Qed.

(** where the grammar has no token the scanner reports an error: unterminated strings, invalid
    escapes, characters outside SourceCharacter, stray punctuation *)
Theorem lex_error_complete : forall bs cps stoks why idx line col,
  utf8_decode bs = Some cps -> spec_lex cps = (stoks, EndError why idx line col) ->
  exists ts es, lex true bs = Done ts es /\ es <> [].
Proof.
  intros bs cps stoks why idx line col Hd Hs.
  destruct (lex_progress true bs) as (ts & es & H & _). exists ts, es. split; [exact H|].
  intro He. subst es. destruct (lex_sound _ _ _ Hd H) as (stoks' & Hs' & _). congruence.
Qed.

(** a text the grammar tokenises, outside the two known classes, is scanned without error into
    exactly the grammar's tokens: kinds, byte extents, lines and columns, literals, decoded values *)
Theorem lex_refines_spec : forall bs cps stoks,
  utf8_decode bs = Some cps -> spec_lex cps = (stoks, EndOk) ->
  excl_dangling_exponent cps stoks = false -> excl_inner_bom stoks = false ->
  lex true bs = Done (map token_of_stoken stoks) [].
Proof.
  intros bs cps stoks Hd Hs X1 X2. destruct (utf8_decode_sound _ _ Hd) as [-> Hsc].
  unfold lex. unfold spec_lex in Hs.
  apply (complete_gen cps Hsc _ 0%nat cps _ stoks (sync_init cps) Hs X1 X2).
  pose proof (utf8_length_encode cps). pose proof (utf8_length_ge cps). lia.
Qed.

(** the two known classes: texts the grammar accepts and the scanner always rejects *)
Theorem lex_known_classes_rejected : forall bs cps stoks,
  utf8_decode bs = Some cps -> spec_lex cps = (stoks, EndOk) ->
  excl_dangling_exponent cps stoks || excl_inner_bom stoks = true ->
  exists ts es, lex true bs = Done ts es /\ es <> [].
Proof.
  intros bs cps stoks Hd Hs HX.
  destruct (lex_progress true bs) as (ts & es & H & _). exists ts, es. split; [exact H|].
  intro He. subst es. destruct (lex_sound _ _ _ Hd H) as (stoks' & Hs' & _ & X1 & X2).
  assert (stoks' = stoks) by congruence. subst stoks'. rewrite X1, X2 in HX. discriminate.
Qed.

(** positions, for every valid UTF-8 text (lexically correct or not) and in both modes: every
    token starts at a code point boundary, and its line and column are the specification's
    position of that code point (LF, CR and CR LF each end one line; columns count code points) *)
Theorem lex_positions : forall m bs cps ts es,
  utf8_decode bs = Some cps -> lex m bs = Done ts es ->
  Forall (fun t => exists n, (n < length cps)%nat /\ t_off t = utf8_length (firstn n cps) /\
                             (t_line t, t_col t) = advance_pos (1, 1) n cps) ts.
Proof.
  intros m bs cps ts es Hd H. destruct (utf8_decode_sound _ _ Hd) as [-> Hsc]. unfold lex in H.
  assert (P0 : exists n L, sync cps n L (init (utf8_encode_all cps))) by (exists 0%nat, cps; apply sync_init).
  refine (scan_all_forall m (fun st => exists n L, sync cps n L st) _ _ _ _ _ _ _ P0 H).
  - intros k st st' Hst HPst.
    apply (steps_preserve (fun st => exists n L, sync cps n L st)) with (m := k) (st := st); [| |exact Hst|exact HPst].
    + intros s (n & L & Hs) Hnd. destruct L as [|c t]; [rewrite (sync_done _ _ _ Hs) in Hnd; discriminate|].
      exists (S n), t. apply (sync_consume _ Hsc _ _ _ _ Hs).
    + intros s (n & L & Hs). exists n, L. apply sync_errorf. exact Hs.
  - intros st0 st' t (n & L & Hs) T. exists n.
    destruct L as [|c t0].
    { pose proof (steps_length _ _ _ (ta_steps _ _ _ T)) as Hl. rewrite (sy_rest _ _ _ _ Hs) in Hl. simpl in Hl. lia. }
    split; [exact (skipn_lt_length _ _ _ _ (sy_L _ _ _ _ Hs))|].
    rewrite (ta_off _ _ _ T), (ta_line _ _ _ T), (ta_col _ _ _ T). split; [apply (sy_off _ _ _ _ Hs)|apply (sy_pos _ _ _ _ Hs)].
Qed.

(** agreement modulo the property's equivalence transfers the refinement to the observed scan *)
Lemma refines_respects_equiv : forall (model observed : lex_result) (toks : list token),
  model = Done toks [] -> obs_equiv model observed ->
  exists ts', observed = Done ts' [] /\ map observable ts' = map observable toks.
Proof.
  intros model observed toks -> H. destruct observed as [|ts' es']; [contradiction|].
  destruct H as (H1 & H2 & _). exists ts'. split; [|symmetry; exact H1].
  f_equal. apply H2. reflexivity.
Qed.
