(** * Lex/LexPrefixSpec.v — C07: how far the scanner must agree with the grammar on a text that has
    a lexical error (or is in a known class).  Definitions only.

    [spec_lex cps = (stoks, e)] gives the grammar's tokens up to the end of the text or up to the
    first place without a token.  [agreed cps stoks (is_end_error e)] is the part of [stoks] the
    scanner must reproduce token for token before anything may go wrong:
      - it stops before the first token of a known class (dangling-exponent, inner-bom);
      - when the grammar ends in an error and the LAST token before the failure point is a comment,
        it leaves that comment out: a comment that runs into a character outside SourceCharacter
        is reported by the scanner while it is still inside that comment (and the scanner's
        comment token extends to the end of the line).
    [agreed_count]: the number of code points the agreed tokens cover (they are contiguous from the
    start of the text), i.e. the index before which no error may be reported. *)
From Coq Require Import List NArith ZArith Bool.
From ApiFu Require Import Base.Sexp Lex.Utf8 Lex.LexSpec.
Import ListNotations.

Definition is_end_error (e : spec_end) : bool :=
  match e with EndError _ _ _ _ => true | _ => false end.

Definition is_comment (t : stoken) : bool :=
  match st_kind t with KComment => true | _ => false end.

Fixpoint agreed (cps : list cp) (stoks : list stoken) (failing : bool) : list stoken :=
  match stoks with
  | [] => []
  | t :: rest =>
      if dangling_exponent cps t || inner_bom t then []
      else match rest with
           | [] => if failing && is_comment t then [] else [t]
           | _ :: _ => t :: agreed cps rest failing
           end
  end.

Definition agreed_count (ag : list stoken) : nat := list_sum (map (fun t => length (st_text t)) ag).
