(** * Lex/LexErrors.v — C07: where the scanner reports its errors (ALL of them, not only the first).

    [boundary bs k st]: [st] is the error-free state reached from the start of [bs] by consuming
    exactly [k] whole runes, as utf8.DecodeRune delimits them ([k] may be the number of runes of
    [bs]: the end of input).  Every reported error carries the (line, column) of such a boundary,
    and the boundaries of successive errors never go backwards.  On valid UTF-8, boundary [k] is
    code point [k] and its (line, column) is the specification's [advance_pos].

    Also here: the state in which a complete scan ends ([scan_all_final]) and the position of
    the end of input ([end_state]), both used by Lex/LexApiProofs.v. *)
From Coq Require Import List NArith ZArith Bool Lia ZifyBool ZifyNat ZifyN Sorted.
From ApiFu Require Import Base.Sexp Lex.ListAux Lex.Utf8 Lex.LexModel Lex.LexSpec Lex.Utf8Proofs
  Lex.LexProgress Lex.LexSync.
Import ListNotations.
Open Scope Z_scope.

(** ** rune boundaries *)
Inductive boundary (bs : bytes) : nat -> state -> Prop :=
| boundary_0 : boundary bs 0 (init bs)
| boundary_S k st : boundary bs k st -> is_done st = false -> boundary bs (S k) (consume_rune st).

(** everything but the reported errors *)
Definition same_place (st st0 : state) : Prop :=
  s_rest st = s_rest st0 /\ s_off st = s_off st0 /\ s_line st = s_line st0 /\ s_col st = s_col st0.

(** the error [e] was reported at boundary [k] *)
Definition err_at (bs : bytes) (e : Z * Z) (k : nat) : Prop :=
  exists st, boundary bs k st /\ e = (s_line st, s_col st).

Lemma same_place_refl st : same_place st st.
Proof. repeat split. Qed.

Lemma same_place_done st st0 : same_place st st0 -> is_done st = is_done st0.
Proof. intros (H & _). unfold is_done. rewrite H. reflexivity. Qed.

Lemma same_place_consume st st0 : same_place st st0 -> same_place (consume_rune st) (consume_rune st0).
Proof.
  intros (H1 & H2 & H3 & H4). unfold same_place, consume_rune, next_rune, next_size.
  cbn [s_rest s_off s_line s_col]. rewrite H1, H2, H3, H4. repeat split.
Qed.

Lemma same_place_errorf st st0 : same_place st st0 -> same_place (errorf st) st0.
Proof. intros (H1 & H2 & H3 & H4). repeat split; assumption. Qed.

Lemma boundary_det bs : forall k st, boundary bs k st -> forall st', boundary bs k st' -> st = st'.
Proof.
  induction 1 as [|k st H IH Hd]; intros st' H'; inversion H'; subst; [reflexivity|].
  f_equal. apply IH. assumption.
Qed.

Lemma boundary_errs bs k st : boundary bs k st -> s_errs st = [].
Proof. induction 1 as [|k st H IH Hd]; [reflexivity|]. rewrite consume_rune_errs. exact IH. Qed.

(** ** the invariant: the state stands at a boundary, and the errors reported so far sit at
    boundaries [ks], in non-decreasing order, none beyond the current one *)
Definition errs_inv (bs : bytes) (st : state) : Prop :=
  exists k st0 ks, boundary bs k st0 /\ same_place st st0 /\
    Forall2 (err_at bs) (s_errs st) ks /\ StronglySorted le ks /\ Forall (fun i => (i <= k)%nat) ks.

Lemma errs_inv_init bs : errs_inv bs (init bs).
Proof.
  exists 0%nat, (init bs), []. split; [constructor|]. split; [apply same_place_refl|].
  split; [constructor|]. split; constructor.
Qed.

Lemma strongly_sorted_snoc ks k : StronglySorted le ks -> Forall (fun i => (i <= k)%nat) ks ->
  StronglySorted le (ks ++ [k]).
Proof.
  induction 1 as [|a l Hs IH Ha]; intro Hk; cbn [app].
  - constructor; constructor.
  - inversion Hk; subst. constructor; [apply IH; assumption|].
    apply Forall_app. split; [exact Ha|constructor; [assumption|constructor]].
Qed.

Lemma errs_inv_consume bs st : errs_inv bs st -> is_done st = false -> errs_inv bs (consume_rune st).
Proof.
  intros (k & st0 & ks & Hb & Hp & Hf & Hs & Hk) Hd.
  exists (S k), (consume_rune st0), ks. split.
  { constructor; [exact Hb|]. rewrite <- (same_place_done _ _ Hp). exact Hd. }
  split; [apply same_place_consume; exact Hp|]. rewrite consume_rune_errs.
  split; [exact Hf|]. split; [exact Hs|]. eapply Forall_impl; [|exact Hk]. cbn. intros; lia.
Qed.

Lemma errs_inv_errorf bs st : errs_inv bs st -> errs_inv bs (errorf st).
Proof.
  intros (k & st0 & ks & Hb & Hp & Hf & Hs & Hk).
  exists k, st0, (ks ++ [k]). split; [exact Hb|]. split; [apply same_place_errorf; exact Hp|].
  cbn [errorf s_errs]. split.
  { apply Forall2_app; [exact Hf|]. constructor; [|constructor]. exists st0. split; [exact Hb|].
    destruct Hp as (_ & _ & -> & ->). reflexivity. }
  split; [apply strongly_sorted_snoc; assumption|].
  apply Forall_app. split; [exact Hk|constructor; [lia|constructor]].
Qed.

Lemma errs_inv_steps bs m st st' : steps m st st' -> errs_inv bs st -> errs_inv bs st'.
Proof.
  apply (steps_preserve (errs_inv bs)).
  - intros s H Hd. apply errs_inv_consume; assumption.
  - intros s H. apply errs_inv_errorf; assumption.
Qed.

(** ** the state a complete scan ends in *)
Lemma scan_false_done m : forall fuel st st', scan fuel m st = ScanFalse st' -> is_done st' = true.
Proof.
  induction fuel as [|f IH]; intros st st' H; cbn [scan] in H.
  - destruct (is_done st) eqn:Hd; [inversion H; subst; exact Hd|discriminate].
  - destruct (is_done st) eqn:Hd; [inversion H; subst; exact Hd|].
    destruct (scan_switch st) as [[[k sv] st1]|]; [|discriminate].
    destruct (tok_eqb k INVALID || is_ignored k && negb m); [eapply IH; exact H|discriminate].
Qed.

Lemma scan_all_final m (P : state -> Prop) :
  (forall k st st', steps k st st' -> P st -> P st') ->
  forall fuel st ts es, P st -> scan_all fuel m st = Done ts es ->
  exists st', P st' /\ is_done st' = true /\ es = s_errs st'.
Proof.
  intros HP. induction fuel as [|f IH]; intros st ts es Hst H; [discriminate|].
  cbn [scan_all] in H.
  destruct (scan_ok m (S (fuel_of st)) st) as [(st' & H1 & [K1 K2] & D1)|(t & st0 & st' & H1 & [K1 K2] & T1)];
    [unfold fuel_of; lia| |]; rewrite H1 in H.
  - inversion H; subst. exists st'. split; [eapply HP; eassumption|]. split; [exact D1|reflexivity].
  - destruct (scan_all f m st') as [|ts' es'] eqn:E; [discriminate|]. inversion H; subst.
    eapply IH; [|exact E]. eapply HP; [apply (ta_steps _ _ _ T1)|]. eapply HP; eassumption.
Qed.

(** ** Main theorems *)

(** for EVERY byte string, in both modes: each reported error carries the (line, column) of a rune
    boundary of the text (possibly its end), and the boundaries of successive errors are
    non-decreasing *)
Theorem lex_error_positions_bytes : forall m bs ts es,
  lex m bs = Done ts es ->
  exists ks, Forall2 (err_at bs) es ks /\ StronglySorted le ks.
Proof.
  intros m bs ts es H. unfold lex in H.
  destruct (scan_all_final m (errs_inv bs) (errs_inv_steps bs) _ _ _ _ (errs_inv_init bs) H)
    as (st' & (k & st0 & ks & _ & _ & Hf & Hs & _) & _ & ->).
  exists ks. split; assumption.
Qed.

(** on valid UTF-8 the boundaries are the code points *)
Lemma boundary_sync cps : forallb scalar_value cps = true ->
  forall k st, boundary (utf8_encode_all cps) k st -> sync cps k (skipn k cps) st /\ (k <= length cps)%nat.
Proof.
  intros Hsc. induction 1 as [|k st H [IH Hk] Hd].
  - split; [apply sync_init|lia].
  - destruct (skipn k cps) as [|c t] eqn:E.
    + rewrite (sync_done _ _ _ IH) in Hd. discriminate.
    + pose proof (sync_consume _ Hsc _ _ _ _ IH) as Hs.
      pose proof (skipn_hd_tl _ _ _ _ E) as Et. rewrite <- Et in Hs. split; [exact Hs|].
      pose proof (skipn_lt_length _ _ _ _ E). lia.
Qed.

(** for every valid UTF-8 text (lexically correct or not), in both modes: the errors are reported
    at code points [ns] of the text (or at its end), in non-decreasing order, and each carries the
    specification's (line, column) of its code point *)
Theorem lex_error_positions : forall m bs cps ts es,
  utf8_decode bs = Some cps -> lex m bs = Done ts es ->
  exists ns, es = map (fun n => advance_pos (1, 1) n cps) ns /\
             Forall (fun n => (n <= length cps)%nat) ns /\ StronglySorted le ns.
Proof.
  intros m bs cps ts es Hd H. destruct (utf8_decode_sound _ _ Hd) as [-> Hsc].
  destruct (lex_error_positions_bytes _ _ _ _ H) as (ks & Hf & Hs).
  exists ks. split; [|split; [|exact Hs]].
  - clear Hs H. induction Hf as [|e k es ks (st & Hb & ->) Hf IH]; [reflexivity|].
    cbn [map]. rewrite <- IH. f_equal.
    destruct (boundary_sync _ Hsc _ _ Hb) as [Hy _]. apply (sy_pos _ _ _ _ Hy).
  - clear Hs H. induction Hf as [|e k es ks (st & Hb & _) Hf IH]; constructor; [|exact IH].
    apply (boundary_sync _ Hsc _ _ Hb).
Qed.

(** ** the end of input *)

(** consume whole runes until the input is exhausted *)
Fixpoint end_state (fuel : nat) (st : state) : state :=
  if is_done st then st
  else match fuel with
       | O => st
       | S f => end_state f (consume_rune st)
       end.

(** (line, column) of the end of input: what Position() answers once Scan() has returned false *)
Definition end_pos (bs : bytes) : Z * Z :=
  let st := end_state (length bs) (init bs) in (s_line st, s_col st).

Lemma end_state_done : forall fuel st, (length (s_rest st) <= fuel)%nat -> is_done (end_state fuel st) = true.
Proof.
  induction fuel as [|f IH]; intros st Hl; cbn [end_state]; destruct (is_done st) eqn:Hd; try exact Hd.
  - unfold is_done in Hd. destruct (s_rest st); [discriminate|simpl in Hl; lia].
  - apply IH. pose proof (consume_length st Hd). lia.
Qed.

Lemma end_state_fuel : forall f1 f2 st, (length (s_rest st) <= f1)%nat -> (length (s_rest st) <= f2)%nat ->
  end_state f1 st = end_state f2 st.
Proof.
  induction f1 as [|f1 IH]; intros f2 st H1 H2.
  - assert (Hd : is_done st = true) by (unfold is_done; destruct (s_rest st); [reflexivity|simpl in H1; lia]).
    destruct f2; cbn [end_state]; rewrite Hd; reflexivity.
  - destruct f2 as [|f2].
    + assert (Hd : is_done st = true) by (unfold is_done; destruct (s_rest st); [reflexivity|simpl in H2; lia]).
      cbn [end_state]. rewrite Hd. reflexivity.
    + cbn [end_state]. destruct (is_done st) eqn:Hd; [reflexivity|].
      pose proof (consume_length st Hd). apply IH; lia.
Qed.

(** from every boundary the walk ends in the same state *)
Lemma boundary_end bs k st : boundary bs k st ->
  end_state (length (s_rest st)) st = end_state (length bs) (init bs).
Proof.
  induction 1 as [|k st H IH Hd]; [reflexivity|].
  rewrite <- IH. pose proof (consume_length st Hd) as Hl.
  destruct (length (s_rest st)) as [|f] eqn:E; [lia|].
  cbn [end_state]. rewrite Hd. apply end_state_fuel; lia.
Qed.

(** a state that has exhausted the input and satisfies the invariant stands at the end position *)
Lemma errs_inv_done_pos bs st : errs_inv bs st -> is_done st = true -> (s_line st, s_col st) = end_pos bs.
Proof.
  intros (k & st0 & ks & Hb & Hp & _) Hd. unfold end_pos. rewrite <- (boundary_end _ _ _ Hb).
  rewrite (same_place_done _ _ Hp) in Hd.
  destruct Hp as (_ & _ & -> & ->).
  destruct (length (s_rest st0)); cbn [end_state]; rewrite Hd; reflexivity.
Qed.

(** on valid UTF-8 the end position is the specification's position after the last code point *)
Lemma end_state_boundary bs : forall fuel k st, boundary bs k st -> (length (s_rest st) <= fuel)%nat ->
  exists k', boundary bs k' (end_state fuel st).
Proof.
  induction fuel as [|f IH]; intros k st Hb Hl; cbn [end_state]; destruct (is_done st) eqn:Hd;
    try (exists k; exact Hb).
  pose proof (consume_length st Hd). apply (IH (S k)); [constructor; assumption|lia].
Qed.

Theorem end_pos_spec : forall bs cps, utf8_decode bs = Some cps ->
  end_pos bs = advance_pos (1, 1) (length cps) cps.
Proof.
  intros bs cps Hd. destruct (utf8_decode_sound _ _ Hd) as [-> Hsc]. unfold end_pos.
  destruct (end_state_boundary (utf8_encode_all cps) (length (utf8_encode_all cps)) 0 (init _) (boundary_0 _))
    as (k & Hb); [cbn [init s_rest]; lia|].
  destruct (boundary_sync _ Hsc _ _ Hb) as [Hy Hk].
  pose proof (end_state_done (length (utf8_encode_all cps)) (init (utf8_encode_all cps))) as Hdone.
  assert (Hdn : is_done (end_state (length (utf8_encode_all cps)) (init (utf8_encode_all cps))) = true)
    by (apply Hdone; cbn [init s_rest]; lia).
  destruct (skipn k cps) as [|c t] eqn:E.
  - assert (k = length cps).
    { assert (length (skipn k cps) = 0%nat) by (rewrite E; reflexivity). rewrite skipn_length in H. lia. }
    subst k. apply (sy_pos _ _ _ _ Hy).
  - rewrite (sync_not_done _ _ _ _ _ Hy) in Hdn. discriminate.
Qed.
