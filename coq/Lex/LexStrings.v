(** * Lex/LexStrings.v — C07: [consumeStringValue] on a synchronised state against the
    specification's StringValue (quoted and block), in both directions: the grammar matches iff
    the scanner reports no error, and then extent and decoded value agree. *)
From Coq Require Import List NArith ZArith Bool Lia ZifyBool ZifyNat ZifyN.
From ApiFu Require Import Base.Sexp Lex.ListAux Lex.Utf8 Lex.LexModel Lex.LexSpec Lex.Utf8Proofs
  Lex.LexProgress Lex.LexSync Lex.LexSpecFacts Lex.LexClasses Lex.BlockProofs.
Import ListNotations.
Open Scope Z_scope.

Ltac decide_ifs_in H :=
  repeat match type of H with
         | context [if ?b then _ else _] =>
             lazymatch b with true => fail | false => fail | _ => idtac end;
             first [ let E := fresh "Eb" in assert (E : b = true) by (timeout 600 lia); rewrite E in H; clear E
                   | let E := fresh "Eb" in assert (E : b = false) by (timeout 600 lia); rewrite E in H; clear E ]
         end.

(** ** specification side: one escape sequence, after the backslash *)
Definition escape_one (L : list cp) : option (nat * cp) :=
  match L with
  | e :: l2 =>
      if (e =? 117)%N then
        match l2 with
        | h1 :: h2 :: h3 :: h4 :: _ =>
            match escaped_unicode h1 h2 h3 h4 with Some v => Some (5%nat, v) | None => None end
        | _ => None
        end
      else match escaped_character e with Some v => Some (1%nat, v) | None => None end
  | [] => None
  end.

(** [quoted_rest] after a backslash *)
Definition esc_rest (L : list cp) : string_result :=
  match escape_one L with
  | Some (k, v) => prepend k [v] (quoted_rest (skipn k L))
  | None => SFail (match L with [] => RUnterminated | _ => RBadEscape end)
  end.

Lemma prepend_prepend a b u v r : prepend a u (prepend b v r) = prepend (a + b) (u ++ v) r.
Proof. destruct r as [n w|w]; cbn [prepend]; [|reflexivity]. rewrite Nat.add_assoc, app_assoc. reflexivity. Qed.

Lemma quoted_rest_backslash t : quoted_rest (92%N :: t) = prepend 1 [] (esc_rest t).
Proof.
  unfold esc_rest, escape_one. cbn [quoted_rest N.eqb Pos.eqb].
  destruct t as [|e l2]; [reflexivity|].
  destruct (e =? 117)%N.
  - destruct l2 as [|h1 [|h2 [|h3 [|h4 l6]]]]; try reflexivity.
    destruct (escaped_unicode h1 h2 h3 h4) as [v|]; [|reflexivity].
    rewrite prepend_prepend. reflexivity.
  - destruct (escaped_character e) as [v|]; [|reflexivity].
    rewrite prepend_prepend. reflexivity.
Qed.

Fixpoint hex_digits (k : nat) (L : list cp) (acc : N) : option (N * list cp) :=
  match k with
  | O => Some (acc, L)
  | S k' =>
      match L with
      | h :: L' => match hex_digit h with Some a => hex_digits k' L' (acc * 16 + a)%N | None => None end
      | [] => None
      end
  end.

Lemma hex_digit_lt h a : hex_digit h = Some a -> (a < 16)%N.
Proof.
  unfold hex_digit. repeat match goal with |- context [if ?b then _ else _] => destruct b eqn:? end;
    intro H; inversion H; lia.
Qed.

Lemma hex_rune_value_of_N h :
  hex_rune_value (Z.of_N h) = match hex_digit h with Some a => Z.of_N a | None => -1 end.
Proof.
  unfold hex_rune_value, hex_digit.
  repeat match goal with |- context [if ?b then _ else _] => destruct b eqn:? end; lia.
Qed.

Lemma escaped_unicode_hex h1 h2 h3 h4 l6 :
  match hex_digits 4 (h1 :: h2 :: h3 :: h4 :: l6) 0 with
  | Some (v, L') => L' = l6 /\ (v < 65536)%N /\
                    escaped_unicode h1 h2 h3 h4 = Some (if scalar_value v then v else 65533%N)
  | None => escaped_unicode h1 h2 h3 h4 = None
  end.
Proof.
  unfold escaped_unicode. cbn [hex_digits].
  destruct (hex_digit h1) as [a|] eqn:E1; [|reflexivity].
  destruct (hex_digit h2) as [b|] eqn:E2; [|reflexivity].
  destruct (hex_digit h3) as [c|] eqn:E3; [|reflexivity].
  destruct (hex_digit h4) as [d|] eqn:E4; [|reflexivity].
  apply hex_digit_lt in E1, E2, E3, E4.
  replace (((0 * 16 + a) * 16 + b) * 16 + c)%N with ((a * 16 + b) * 16 + c)%N by lia.
  split; [reflexivity|]. split; [lia|reflexivity].
Qed.

Lemma hex_digits_short k : forall L acc, (length L < k)%nat -> hex_digits k L acc = None.
Proof.
  induction k as [|k IH]; intros L acc H; [lia|]. cbn [hex_digits].
  destruct L as [|h L']; [reflexivity|]. destruct (hex_digit h); [|reflexivity]. apply IH. simpl in H. lia.
Qed.

(** ** specification side: [block_rest] one character at a time *)
Definition two_quotes (L : list cp) : bool :=
  match L with a :: b :: _ => (a =? 34)%N && (b =? 34)%N | _ => false end.

Lemma three_quotes_cons c L : three_quotes (c :: L) = (c =? 34)%N && two_quotes L.
Proof. destruct L as [|a [|b r]]; cbn [three_quotes two_quotes]; try (now rewrite andb_false_r). now rewrite andb_assoc. Qed.

Lemma br_quotes c l1 : three_quotes (c :: l1) = true -> block_rest (c :: l1) = SMatch 3 [].
Proof. intro H. cbn [block_rest]. rewrite H. reflexivity. Qed.

Lemma br_escape l4 : block_rest (92 :: 34 :: 34 :: 34 :: l4)%N = prepend 4 [34; 34; 34]%N (block_rest l4).
Proof. reflexivity. Qed.

Lemma br_plain c l1 : three_quotes (c :: l1) = false -> (c <> 92%N \/ three_quotes l1 = false) ->
  block_rest (c :: l1) = if source_character c then prepend 1 [c] (block_rest l1) else SFail RNonSourceInString.
Proof.
  intros H1 H2. cbn [block_rest]. rewrite H1. destruct (c =? 92)%N eqn:E; [|reflexivity].
  destruct H2 as [H2|H2]; [lia|]. destruct l1 as [|q1 [|q2 [|q3 l4]]]; try reflexivity.
  cbn [three_quotes] in H2. rewrite H2. reflexivity.
Qed.

Section Strings.
  Variable cps : list cp.
  Hypothesis Hscalar : forallb scalar_value cps = true.
  Notation sync := (LexSync.sync cps).

  Ltac sync_facts Hs :=
    let Hn := fresh "Hnext" in let Hd := fresh "Hnd" in let Hp := fresh "Hpeek" in
    let Hv := fresh "Hvalid" in let Hc := fresh "Hcons" in
    pose proof (sync_next _ Hscalar _ _ _ _ Hs) as Hn;
    pose proof (sync_not_done _ _ _ _ _ Hs) as Hd;
    pose proof (sync_peek _ Hscalar _ _ _ _ Hs) as Hp;
    pose proof (sync_valid _ Hscalar _ _ _ _ Hs) as Hv;
    pose proof (sync_consume _ Hscalar _ _ _ _ Hs) as Hc.

  (** ** the four hex digits of a unicode escape *)
  Lemma hex4_sync : forall k n L st code acc, sync n L st -> code = Z.of_N acc ->
    match hex_digits k L acc with
    | Some (v, L') => snd (hex4 k st code) = Z.of_N v /\ sync (n + k) L' (fst (hex4 k st code)) /\
                      same_errs st (fst (hex4 k st code))
    | None => more_errs st (fst (hex4 k st code))
    end.
  Proof.
    induction k as [|k IH]; intros n L st code acc Hs Hc; cbn [hex4 hex_digits].
    - cbn [fst snd]. rewrite Nat.add_0_r. split; [exact Hc|]. split; [exact Hs|reflexivity].
    - rewrite (sync_head _ Hscalar _ _ _ Hs). destruct L as [|h L']; cbn [head_rune].
      + cbn [hex_rune_value Z.leb Z.compare andb Z.ltb fst]. unfold more_errs. rewrite errorf_errs_length. lia.
      + rewrite hex_rune_value_of_N. destruct (hex_digit h) as [a|] eqn:Eh.
        * assert (E : (Z.of_N a <? 0) = false) by lia. rewrite E.
          pose proof (sync_consume _ Hscalar _ _ _ _ Hs) as Hcons.
          specialize (IH (S n) L' (consume_rune st) (code * 16 + Z.of_N a) (acc * 16 + a)%N Hcons ltac:(lia)).
          destruct (hex_digits k L' (acc * 16 + a)%N) as [[v L'']|].
          -- replace (n + S k)%nat with (S n + k)%nat by lia. exact IH.
          -- exact IH.
        * cbn [Z.ltb Z.compare fst]. unfold more_errs. rewrite errorf_errs_length. lia.
  Qed.

  (** ** one escape sequence *)
  Lemma escaped_step_sync n L st value : sync n L st -> L <> [] ->
    match escape_one L with
    | Some (k, v) => snd (escaped_step st value) = value ++ utf8_encode v /\
                     sync (n + k) (skipn k L) (fst (escaped_step st value)) /\
                     same_errs st (fst (escaped_step st value))
    | None => more_errs st (fst (escaped_step st value))
    end.
  Proof.
    intros Hs Hne. destruct L as [|e l2]; [congruence|]. sync_facts Hs.
    unfold escape_one, escaped_step. rewrite Hnext.
    assert (SIMPLE : forall v : cp, (v < 128)%N ->
              sync (n + 1) (skipn 1 (e :: l2)) (consume_rune st) /\ same_errs st (consume_rune st)).
    { intros v _. cbn [skipn]. replace (n + 1)%nat with (S n) by lia. split; [exact Hcons|reflexivity]. }
    destruct (e =? 117)%N eqn:E117.
    - (* \u *)
      decide_ifs.
      pose proof (hex4_sync 4 (S n) l2 (consume_rune st) 0 0%N Hcons eq_refl) as H4.
      destruct (hex4 4 (consume_rune st) 0) as [st1 code] eqn:Eh. cbn [fst snd] in *.
      destruct l2 as [|h1 [|h2 [|h3 [|h4 l6]]]];
        try (rewrite hex_digits_short in H4 by (simpl; lia); exact H4).
      pose proof (escaped_unicode_hex h1 h2 h3 h4 l6) as HU.
      destruct (hex_digits 4 (h1 :: h2 :: h3 :: h4 :: l6) 0) as [[v L']|].
      + destruct HU as (-> & Hv & ->). destruct H4 as (Hc & H4s & H4e).
        split; [|split].
        * f_equal. rewrite Hc. destruct (scalar_value v) eqn:Esc.
          -- apply encode_rune_scalar. exact Esc.
          -- apply encode_rune_surrogate. unfold scalar_value in Esc. lia.
        * cbn [skipn]. replace (n + 5)%nat with (S n + 4)%nat by lia. exact H4s.
        * exact H4e.
      + rewrite HU. exact H4.
    - unfold escaped_character.
      destruct (e =? 34)%N eqn:E34; [decide_ifs; cbn [fst snd]; assert (e = 34%N) by lia; subst e; split; [reflexivity|apply (SIMPLE 0%N); lia]|].
      destruct (e =? 92)%N eqn:E92; [decide_ifs; cbn [fst snd]; assert (e = 92%N) by lia; subst e; split; [reflexivity|apply (SIMPLE 0%N); lia]|].
      destruct (e =? 47)%N eqn:E47; [decide_ifs; cbn [fst snd]; assert (e = 47%N) by lia; subst e; split; [reflexivity|apply (SIMPLE 0%N); lia]|].
      destruct (e =? 98)%N eqn:E98; [decide_ifs; cbn [fst snd]; split; [reflexivity|apply (SIMPLE 0%N); lia]|].
      destruct (e =? 102)%N eqn:E102; [decide_ifs; cbn [fst snd]; split; [reflexivity|apply (SIMPLE 0%N); lia]|].
      destruct (e =? 110)%N eqn:E110; [decide_ifs; cbn [fst snd]; split; [reflexivity|apply (SIMPLE 0%N); lia]|].
      destruct (e =? 114)%N eqn:E114; [decide_ifs; cbn [fst snd]; split; [reflexivity|apply (SIMPLE 0%N); lia]|].
      destruct (e =? 116)%N eqn:E116; [decide_ifs; cbn [fst snd]; split; [reflexivity|apply (SIMPLE 0%N); lia]|].
      decide_ifs. cbn [fst]. unfold more_errs. rewrite consume_rune_errs, errorf_errs_length. lia.
  Qed.

  (** ** the main loop *)

  (** what a run of the loop from a state at [L] (value so far [value]) must have produced, given
      what the specification says about [L] *)
  Definition loop_post (r : string_result) (n : nat) (L : list cp) (st : state) (value : bytes)
             (st' : state) (value' : bytes) (tm : bool) : Prop :=
    match r with
    | SMatch j v => tm = true /\ value' = value ++ utf8_encode_all v /\
                    sync (n + j) (skipn j L) st' /\ same_errs st st'
    | SFail _ => (tm = false /\ (length (s_errs st) <= length (s_errs st'))%nat) \/ more_errs st st'
    end.

  Lemma loop_post_prepend r k vs n L st st1 value st' value' tm :
    same_errs st st1 ->
    loop_post r (n + k) (skipn k L) st1 (value ++ utf8_encode_all vs) st' value' tm ->
    loop_post (prepend k vs r) n L st value st' value' tm.
  Proof.
    intros He. unfold loop_post, same_errs, more_errs in *. destruct r as [j v|w]; cbn [prepend].
    - intros (H1 & H2 & H3 & H4). split; [exact H1|]. split; [|split].
      + rewrite H2, utf8_encode_all_app, app_assoc. reflexivity.
      + rewrite skipn_skipn in H3. rewrite Nat.add_assoc. exact H3.
      + congruence.
    - rewrite He. tauto.
  Qed.

  Lemma loop_post_error w n L st st1 value st' value' tm :
    more_errs st st1 -> (length (s_errs st1) <= length (s_errs st'))%nat ->
    loop_post (SFail w) n L st value st' value' tm.
  Proof. unfold loop_post, more_errs. intros H1 H2. right. lia. Qed.

  Lemma string_loop_errs blk fuel st value esc st' value' tm :
    (length (s_rest st) <= fuel)%nat -> string_loop fuel blk st value esc = Some (st', value', tm) ->
    (length (s_errs st) <= length (s_errs st'))%nat.
  Proof.
    intros Hf H. destruct (string_loop_ok blk fuel st value esc Hf) as (a & b & c & H1 & H2).
    rewrite H in H1. inversion H1; subst. eapply steps_errs_length; eassumption.
  Qed.

  Lemma fuel_after_consume st f : is_done st = false -> (length (s_rest st) <= S f)%nat ->
    (length (s_rest (consume_rune st)) <= f)%nat.
  Proof. intros Hd Hf. pose proof (consume_length st Hd). lia. Qed.

  Lemma consume_shrinks st : is_done st = false ->
    (length (s_rest (consume_rune st)) < length (s_rest st))%nat.
  Proof. intro Hd. pose proof (consume_length st Hd). lia. Qed.

  Lemma quoted_loop_sync : forall fuel n L st value esc st' value' tm,
    sync n L st -> (length (s_rest st) <= fuel)%nat ->
    string_loop fuel false st value esc = Some (st', value', tm) ->
    loop_post (if esc then esc_rest L else quoted_rest L) n L st value st' value' tm.
  Proof.
    assert (HEOF : forall (n : nat) (st : state) (value : bytes) (esc : bool), sync n [] st ->
              loop_post (if esc then esc_rest [] else quoted_rest []) n [] st value st value false).
    { intros n st value esc Hs. destruct esc; left; split; try reflexivity; lia. }
    induction fuel as [|f IH]; intros n L st value esc st' value' tm Hs Hf H; cbn [string_loop] in H.
    - destruct L as [|c t].
      + rewrite (sync_done _ _ _ Hs) in H. inversion H; subst. apply HEOF. exact Hs.
      + rewrite (sync_not_done _ _ _ _ _ Hs) in H. discriminate.
    - destruct L as [|c t].
      + rewrite (sync_done _ _ _ Hs) in H. inversion H; subst. apply HEOF. exact Hs.
      + sync_facts Hs. rewrite Hnd in H.
        destruct esc.
        * (* after a backslash *)
          pose proof (escaped_step_sync n (c :: t) st value Hs ltac:(congruence)) as HE.
          destruct (escaped_step st value) as [st1 value1] eqn:Ee. cbn [fst snd] in HE.
          assert (Hf1 : (length (s_rest st1) <= f)%nat).
          { pose proof (escaped_step_steps st value Hnd) as Hst. rewrite Ee in Hst. cbn [fst] in Hst.
            pose proof (steps_length _ _ _ Hst). lia. }
          unfold esc_rest. destruct (escape_one (c :: t)) as [[k v]|].
          -- destruct HE as (Hv & Hs1 & He1). subst value1.
             apply loop_post_prepend with (st1 := st1); [exact He1|].
             replace (utf8_encode_all [v]) with (utf8_encode v) by (cbn; now rewrite app_nil_r).
             apply (IH _ _ _ _ false _ _ _ Hs1 Hf1 H).
          -- eapply loop_post_error; [exact HE|]. eapply string_loop_errs; eassumption.
        * rewrite Hnext in H.
          pose proof (fuel_after_consume _ _ Hnd Hf) as Hf1.
          destruct (line_terminator_char c) eqn:Elt.
          { (* a line terminator ends the loop: unterminated *)
            unfold line_terminator_char in Elt. decide_ifs_in H. cbn [negb] in H. inversion H; subst.
            cbn [quoted_rest]. assert (E1 : (c =? 34)%N = false) by lia. assert (E2 : (c =? 92)%N = false) by lia.
            rewrite E1, E2. unfold line_terminator_char. rewrite Elt. left. split; [reflexivity|lia]. }
          unfold line_terminator_char in Elt.
          destruct (c =? 92)%N eqn:E92.
          { assert (c = 92%N) by lia. subst c. decide_ifs_in H. cbn [negb] in H.
            rewrite quoted_rest_backslash.
            apply loop_post_prepend with (st1 := consume_rune st); [reflexivity|].
            cbn [utf8_encode_all flat_map skipn]. rewrite app_nil_r. replace (n + 1)%nat with (S n) by lia.
            apply (IH _ _ _ _ true _ _ _ Hcons Hf1 H). }
          destruct (c =? 34)%N eqn:E34.
          { assert (c = 34%N) by lia. subst c. decide_ifs_in H. inversion H; subst.
            cbn [quoted_rest N.eqb Pos.eqb]. unfold loop_post. split; [reflexivity|].
            split; [cbn; now rewrite app_nil_r|]. cbn [skipn]. replace (n + 1)%nat with (S n) by lia.
            split; [exact Hcons|reflexivity]. }
          rewrite Hvalid, is_source_character_of_N in H. decide_ifs_in H.
          cbn [quoted_rest]. rewrite E34, E92. unfold line_terminator_char. rewrite Elt.
          destruct (source_character c) eqn:Esrc; cbn [negb] in H.
          { destruct (sync_scalar _ Hscalar _ _ _ _ Hs) as [Hsc _].
            rewrite (encode_rune_scalar _ Hsc) in H.
            apply loop_post_prepend with (st1 := consume_rune st); [reflexivity|].
            replace (utf8_encode_all [c]) with (utf8_encode c) by (cbn; now rewrite app_nil_r).
            cbn [skipn]. replace (n + 1)%nat with (S n) by lia.
            apply (IH _ _ _ _ false _ _ _ Hcons Hf1 H). }
          { eapply loop_post_error with (st1 := consume_rune (errorf st)).
            - unfold more_errs. rewrite consume_rune_errs, errorf_errs_length. lia.
            - eapply string_loop_errs; [|exact H].
              pose proof (fuel_after_consume (errorf st) f Hnd Hf). exact H0. }
  Qed.

  Lemma two_quotes_sync n L st : sync n L st ->
    ((next_rune st =? 34) && (peek st =? 34)) = two_quotes L.
  Proof.
    intro Hs. destruct L as [|a [|b r]].
    - rewrite (sync_eof _ _ _ Hs). reflexivity.
    - rewrite (sync_next _ Hscalar _ _ _ _ Hs), (sync_peek _ Hscalar _ _ _ _ Hs). cbn [two_quotes]. unfold RuneError. lia.
    - rewrite (sync_next _ Hscalar _ _ _ _ Hs), (sync_peek _ Hscalar _ _ _ _ Hs). cbn [two_quotes]. lia.
  Qed.

  Lemma block_loop_sync : forall fuel n L st value st' value' tm,
    sync n L st -> (length (s_rest st) <= fuel)%nat ->
    string_loop fuel true st value false = Some (st', value', tm) ->
    loop_post (block_rest L) n L st value st' value' tm.
  Proof.
    assert (HEOF : forall (n : nat) (st : state) (value : bytes), sync n [] st ->
              loop_post (block_rest []) n [] st value st value false).
    { intros n st value Hs. left; split; try reflexivity; lia. }
    induction fuel as [|f IH]; intros n L st value st' value' tm Hs Hf H; cbn [string_loop] in H.
    - destruct L as [|c t].
      + rewrite (sync_done _ _ _ Hs) in H. inversion H; subst. apply HEOF. exact Hs.
      + rewrite (sync_not_done _ _ _ _ _ Hs) in H. discriminate.
    - destruct L as [|c t].
      + rewrite (sync_done _ _ _ Hs) in H. inversion H; subst. apply HEOF. exact Hs.
      + sync_facts Hs. rewrite Hnd in H. rewrite Hnext in H. cbn [negb] in H.
        pose proof (fuel_after_consume _ _ Hnd Hf) as Hf1.
        destruct (sync_scalar _ Hscalar _ _ _ _ Hs) as [Hsc Hsct].
        (* one plain character [c] appended, continuing at [t] *)
        assert (PLAIN : three_quotes (c :: t) = false -> (c <> 92%N \/ three_quotes t = false) ->
                  source_character c = true ->
                  string_loop f true (consume_rune st) (value ++ utf8_encode c) false = Some (st', value', tm) ->
                  loop_post (block_rest (c :: t)) n (c :: t) st value st' value' tm).
        { intros T1 T2 Hsrc HL. rewrite (br_plain _ _ T1 T2), Hsrc.
          apply loop_post_prepend with (st1 := consume_rune st); [reflexivity|].
          replace (utf8_encode_all [c]) with (utf8_encode c) by (cbn; now rewrite app_nil_r).
          cbn [skipn]. replace (n + 1)%nat with (S n) by lia.
          apply (IH _ _ _ _ _ _ _ Hcons Hf1 HL). }
        destruct (line_terminator_char c) eqn:Elt.
        { unfold line_terminator_char in Elt.
          assert (Hsrc : source_character c = true) by (unfold source_character; lia).
          assert (T1 : three_quotes (c :: t) = false) by (rewrite three_quotes_cons; lia).
          decide_ifs_in H. rewrite (encode_rune_scalar _ Hsc) in H.
          rewrite (sync_head _ Hscalar _ _ _ Hcons) in H.
          destruct ((Z.of_N c =? 13) && (head_rune t =? 10)) eqn:Ecrlf.
          - (* CR LF in one round *)
            destruct t as [|d t']; [cbn [head_rune] in Ecrlf; lia|]. cbn [head_rune] in Ecrlf.
            assert (c = 13%N) by lia. assert (d = 10%N) by lia. subst c d.
            pose proof (sync_consume _ Hscalar _ _ _ _ Hcons) as Hcons2.
            assert (N13 : 13%N <> 92%N) by lia. assert (N10 : 10%N <> 92%N) by lia.
            assert (T10 : three_quotes (10%N :: t') = false) by (rewrite three_quotes_cons; reflexivity).
            rewrite (br_plain _ _ T1 (or_introl N13)).
            rewrite (br_plain _ _ T10 (or_introl N10)).
            cbn [source_character N.eqb Pos.eqb orb]. rewrite prepend_prepend.
            apply loop_post_prepend with (st1 := consume_rune (consume_rune st)); [reflexivity|].
            cbn [skipn Nat.add]. replace (n + 2)%nat with (S (S n)) by lia.
            change (encode_rune 10) with [10%N] in H. rewrite <- app_assoc in H.
            refine (IH _ _ _ _ _ _ _ Hcons2 _ H).
            pose proof (consume_shrinks _ (sync_not_done _ _ _ _ _ Hcons)). lia.
          - apply PLAIN; [exact T1|left; lia|exact Hsrc|exact H]. }
        unfold line_terminator_char in Elt.
        destruct (c =? 92)%N eqn:E92.
        { assert (c = 92%N) by lia. subst c. decide_ifs_in H.
          assert (T1 : three_quotes (92%N :: t) = false) by (rewrite three_quotes_cons; reflexivity).
          rewrite (sync_head _ Hscalar _ _ _ Hcons) in H.
          destruct (head_rune t =? 34) eqn:Eq; cbn [negb] in H.
          - destruct t as [|q t2]; [cbn [head_rune] in Eq; lia|]. cbn [head_rune] in Eq.
            assert (q = 34%N) by lia. subst q.
            pose proof (sync_consume _ Hscalar _ _ _ _ Hcons) as Hcons2.
            rewrite (two_quotes_sync _ _ _ Hcons2) in H.
            destruct (two_quotes t2) eqn:E2.
            + (* the escape sequence backslash, three quotes *)
              destruct t2 as [|a [|b l4]]; try discriminate. cbn [two_quotes] in E2.
              assert (a = 34%N) by lia. assert (b = 34%N) by lia. subst a b.
              pose proof (sync_consume _ Hscalar _ _ _ _ Hcons2) as Hcons3.
              pose proof (sync_consume _ Hscalar _ _ _ _ Hcons3) as Hcons4.
              rewrite br_escape.
              apply loop_post_prepend with (st1 := consume_rune (consume_rune (consume_rune (consume_rune st)))); [reflexivity|].
              cbn [skipn]. replace (n + 4)%nat with (S (S (S (S n)))) by lia.
              refine (IH _ _ _ _ _ _ _ Hcons4 _ H).
              pose proof (consume_shrinks _ (sync_not_done _ _ _ _ _ Hcons)).
              pose proof (consume_shrinks _ (sync_not_done _ _ _ _ _ Hcons2)).
              pose proof (consume_shrinks _ (sync_not_done _ _ _ _ _ Hcons3)). lia.
            + (* a backslash and a quote that do not start the escape sequence *)
              assert (T2 : three_quotes (34%N :: t2) = false) by (rewrite three_quotes_cons, E2; reflexivity).
              rewrite (br_plain _ _ T1 (or_intror T2)).
              assert (N34 : 34%N <> 92%N) by lia.
              rewrite (br_plain _ _ T2 (or_introl N34)).
              cbn [source_character N.eqb N.leb N.compare Pos.eqb Pos.compare Pos.compare_cont orb andb]. rewrite prepend_prepend.
              apply loop_post_prepend with (st1 := consume_rune (consume_rune st)); [reflexivity|].
              cbn [skipn Nat.add app]. replace (n + 2)%nat with (S (S n)) by lia.
              refine (IH _ _ _ _ _ _ _ Hcons2 _ H).
              pose proof (consume_shrinks _ (sync_not_done _ _ _ _ _ Hcons)). lia.
          - apply PLAIN; [exact T1| |reflexivity|exact H].
            right. destruct t as [|q t2]; [reflexivity|]. rewrite three_quotes_cons. cbn [head_rune] in Eq. lia. }
        destruct (c =? 34)%N eqn:E34.
        { assert (c = 34%N) by lia. subst c. decide_ifs_in H.
          rewrite (two_quotes_sync _ _ _ Hcons) in H.
          destruct (two_quotes t) eqn:E2.
          - inversion H; subst. destruct t as [|a [|b t3]]; try discriminate. cbn [two_quotes] in E2.
            assert (a = 34%N) by lia. assert (b = 34%N) by lia. subst a b.
            rewrite br_quotes by reflexivity. unfold loop_post. split; [reflexivity|].
            split; [cbn; now rewrite app_nil_r|]. cbn [skipn]. replace (n + 3)%nat with (S (S (S n))) by lia.
            split; [|reflexivity].
            pose proof (sync_consume _ Hscalar _ _ _ _ Hcons) as Hcons2.
            exact (sync_consume _ Hscalar _ _ _ _ Hcons2).
          - apply PLAIN; [rewrite three_quotes_cons, E2; reflexivity|left; lia|reflexivity|exact H]. }
        rewrite Hvalid, is_source_character_of_N in H. decide_ifs_in H.
        assert (T1 : three_quotes (c :: t) = false) by (rewrite three_quotes_cons, E34; reflexivity).
        destruct (source_character c) eqn:Esrc; cbn [negb] in H.
        { rewrite (encode_rune_scalar _ Hsc) in H. apply PLAIN; [exact T1|left; lia|reflexivity|exact H]. }
        { assert (Nc : c <> 92%N) by lia. rewrite (br_plain _ _ T1 (or_introl Nc)), Esrc.
          eapply loop_post_error with (st1 := consume_rune (errorf st)).
          - unfold more_errs. rewrite consume_rune_errs, errorf_errs_length. lia.
          - eapply string_loop_errs; [|exact H]. exact (fuel_after_consume (errorf st) f Hnd Hf). }
  Qed.

  (** ** [consumeStringValue] *)
  Lemma consume_string_value_sync n t st st' v : sync n (34%N :: t) st ->
    consume_string_value st = Some (st', v) ->
    match match_string (34%N :: t) with
    | Some (SMatch j val) => sync (n + j) (skipn j (34%N :: t)) st' /\ same_errs st st' /\ v = utf8_encode_all val
    | _ => more_errs st st'
    end.
  Proof.
    intros Hs H. sync_facts Hs. unfold consume_string_value in H.
    rewrite (two_quotes_sync _ _ _ Hcons) in H.
    unfold match_string. cbn [N.eqb Pos.eqb]. rewrite three_quotes_cons. cbn [N.eqb Pos.eqb andb].
    destruct (two_quotes t) eqn:E2.
    - (* block string *)
      destruct t as [|a [|b t3]]; try discriminate. cbn [two_quotes] in E2.
      assert (a = 34%N) by lia. assert (b = 34%N) by lia. subst a b.
      pose proof (sync_consume _ Hscalar _ _ _ _ Hcons) as Hcons2.
      pose proof (sync_consume _ Hscalar _ _ _ _ Hcons2) as Hcons3.
      set (st2 := consume_rune (consume_rune (consume_rune st))) in *.
      destruct (string_loop (S (fuel_of st2)) true st2 [] false) as [[[st3 value] tm]|] eqn:EL; [|discriminate].
      assert (HF : (length (s_rest st2) <= S (fuel_of st2))%nat) by (unfold fuel_of; lia).
      pose proof (block_loop_sync _ _ _ _ _ _ _ _ Hcons3 HF EL) as HP.
      cbn [skipn]. unfold loop_post in HP.
      destruct (block_rest t3) as [j raw|w].
      + destruct HP as (-> & Hv & Hs3 & He3). cbn [app] in Hv. subst value.
        rewrite block_value_eq, block_value_utf8 in H. inversion H; subst st' v.
        split; [|split; [exact He3|reflexivity]].
        replace (n + (3 + j))%nat with (S (S (S n)) + j)%nat by lia. cbn [Nat.add skipn]. exact Hs3.
      + destruct (block_string_value value) as [v0|]; [|discriminate]. inversion H; subst st' v.
        unfold more_errs, same_errs in *. change (s_errs st2) with (s_errs st) in HP.
        destruct HP as [[-> Hle]|Hm]; [rewrite errorf_errs_length; lia|].
        destruct tm; [exact Hm|rewrite errorf_errs_length; lia].
    - (* quoted string *)
      destruct (string_loop (S (fuel_of (consume_rune st))) false (consume_rune st) [] false) as [[[st3 value] tm]|] eqn:EL; [|discriminate].
      assert (HF : (length (s_rest (consume_rune st)) <= S (fuel_of (consume_rune st)))%nat) by (unfold fuel_of; lia).
      pose proof (quoted_loop_sync _ _ _ _ _ false _ _ _ Hcons HF EL) as HP.
      inversion H; subst st' v. unfold loop_post in HP.
      destruct (quoted_rest t) as [j val|w]; cbn [prepend].
      + destruct HP as (-> & Hv & Hs3 & He3). cbn [app] in *. subst value.
        split; [|split; [exact He3|reflexivity]].
        replace (n + (1 + j))%nat with (S n + j)%nat by lia. cbn [skipn Nat.add]. exact Hs3.
      + unfold more_errs, same_errs in *. change (s_errs (consume_rune st)) with (s_errs st) in HP.
        destruct HP as [[-> Hle]|Hm]; [rewrite errorf_errs_length; lia|].
        destruct tm; [exact Hm|rewrite errorf_errs_length; lia].
  Qed.
End Strings.
