(** * Lex/LexSync.v — C07: the scanner model on valid UTF-8.

    [sync cps n L st]: the state [st] stands at code point [n] of the text [cps] (whose UTF-8
    encoding is the input): the remaining bytes encode the remaining code points [L], the byte
    offset is the UTF-8 length of the first [n] code points, and (line, column) is the
    specification's position of code point [n].  The primitives of the scanner ([next_rune],
    [peek], [consume_rune], ...) are characterised on synchronised states; everything later is
    built on these lemmas and never looks at bytes again. *)
From Coq Require Import List NArith ZArith Bool Lia ZifyBool ZifyNat ZifyN.
From ApiFu Require Import Base.Sexp Lex.ListAux Lex.Utf8 Lex.LexModel Lex.LexSpec Lex.Utf8Proofs Lex.LexProgress.
Import ListNotations.
Open Scope Z_scope.

Lemma utf8_encode_all_cons c l : utf8_encode_all (c :: l) = utf8_encode c ++ utf8_encode_all l.
Proof. reflexivity. Qed.

Lemma utf8_encode_all_app a b : utf8_encode_all (a ++ b) = utf8_encode_all a ++ utf8_encode_all b.
Proof. unfold utf8_encode_all. apply flat_map_app. Qed.

Lemma utf8_length_app a b : utf8_length (a ++ b) = utf8_length a + utf8_length b.
Proof. unfold utf8_length. induction a as [|x a IH]; cbn [app fold_right]; [lia|]. rewrite IH. lia. Qed.

Lemma utf8_length_cons c l : utf8_length (c :: l) = utf8_width c + utf8_length l.
Proof. reflexivity. Qed.

Lemma utf8_length_encode l : Z.of_nat (length (utf8_encode_all l)) = utf8_length l.
Proof.
  induction l as [|c l IH]; [reflexivity|].
  rewrite utf8_encode_all_cons, app_length, utf8_length_cons, <- IH, <- utf8_encode_length. lia.
Qed.

Lemma utf8_width_pos c : 1 <= utf8_width c <= 4.
Proof. unfold utf8_width. repeat match goal with |- context [if ?b then _ else _] => destruct b end; lia. Qed.

Lemma utf8_length_nonneg l : 0 <= utf8_length l.
Proof. induction l as [|c l IH]; [cbn; lia|]. rewrite utf8_length_cons. pose proof (utf8_width_pos c). lia. Qed.

Lemma utf8_encode_nonempty c : utf8_encode c <> [].
Proof. pose proof (utf8_encode_length_pos c) as H. destruct (utf8_encode c); [simpl in H; lia|congruence]. Qed.

(** ** positions *)
Definition bump (p : Z * Z) (c : cp) (next : option cp) : Z * Z :=
  if ends_line c next then (fst p + 1, 1) else (fst p, snd p + 1).

Lemma advance_pos_S : forall n p l c t, skipn n l = c :: t ->
  advance_pos p (S n) l = bump (advance_pos p n l) c (hd_error t).
Proof.
  induction n as [|n IH]; intros p l c t H.
  - cbn [skipn] in H. subst l. cbn [advance_pos]. destruct t; reflexivity.
  - destruct l as [|x l]; [discriminate|]. cbn [skipn] in H.
    change (advance_pos p (S (S n)) (x :: l)) with (advance_pos (bump p x (hd_error l)) (S n) l).
    rewrite (IH _ _ _ _ H). reflexivity.
Qed.

Lemma advance_pos_add : forall a b p l,
  advance_pos p (a + b) l = advance_pos (advance_pos p a l) b (skipn a l).
Proof.
  induction a as [|a IH]; intros b p l; [reflexivity|].
  destruct l as [|x l].
  - cbn [Nat.add advance_pos skipn]. destruct b; reflexivity.
  - cbn [Nat.add skipn]. change (advance_pos p (S (a + b)) (x :: l)) with (advance_pos (bump p x (hd_error l)) (a + b) l).
    rewrite IH. reflexivity.
Qed.

Section Sync.
  Variable cps : list cp.
  Hypothesis Hscalar : forallb scalar_value cps = true.

  Record sync (n : nat) (L : list cp) (st : state) : Prop := {
    sy_L : skipn n cps = L;
    sy_rest : s_rest st = utf8_encode_all L;
    sy_off : s_off st = utf8_length (firstn n cps);
    sy_pos : (s_line st, s_col st) = advance_pos (1, 1) n cps
  }.

  Lemma sync_init : sync 0 cps (init (utf8_encode_all cps)).
  Proof. constructor; reflexivity. Qed.

  Lemma scalar_skipn n : forallb scalar_value (skipn n cps) = true.
  Proof.
    rewrite <- (firstn_skipn n cps) in Hscalar. rewrite forallb_app in Hscalar.
    apply andb_true_iff in Hscalar. tauto.
  Qed.

  Lemma sync_scalar n c t st : sync n (c :: t) st -> scalar_value c = true /\ forallb scalar_value t = true.
  Proof.
    intros [HL _ _ _]. pose proof (scalar_skipn n) as H. rewrite HL in H. cbn [forallb] in H.
    apply andb_true_iff in H. exact H.
  Qed.

  Lemma sync_read n c t st : sync n (c :: t) st ->
    read_next_rune (s_rest st) = (Z.of_N c, length (utf8_encode c)).
  Proof.
    intros H. destruct (sync_scalar _ _ _ _ H) as [Hc _]. rewrite (sy_rest _ _ _ H), utf8_encode_all_cons.
    apply read_next_rune_encode. exact Hc.
  Qed.

  Lemma sync_next n c t st : sync n (c :: t) st -> next_rune st = Z.of_N c.
  Proof. intro H. unfold next_rune. rewrite (sync_read _ _ _ _ H). reflexivity. Qed.

  Lemma sync_size n c t st : sync n (c :: t) st -> next_size st = length (utf8_encode c).
  Proof. intro H. unfold next_size. rewrite (sync_read _ _ _ _ H). reflexivity. Qed.

  Lemma sync_not_done n c t st : sync n (c :: t) st -> is_done st = false.
  Proof.
    intro H. unfold is_done. rewrite (sy_rest _ _ _ H), utf8_encode_all_cons.
    pose proof (utf8_encode_nonempty c). destruct (utf8_encode c); [congruence|reflexivity].
  Qed.

  Lemma sync_done n st : sync n [] st -> is_done st = true.
  Proof. intro H. unfold is_done. rewrite (sy_rest _ _ _ H). reflexivity. Qed.

  Lemma sync_eof n st : sync n [] st -> next_rune st = -1.
  Proof. intro H. unfold next_rune. rewrite (sy_rest _ _ _ H). reflexivity. Qed.

  (** the rune a state reads, as a function of the remaining code points *)
  Definition head_rune (L : list cp) : Z := match L with c :: _ => Z.of_N c | [] => -1 end.

  Lemma sync_head n L st : sync n L st -> next_rune st = head_rune L.
  Proof. destruct L; [apply sync_eof|apply sync_next]. Qed.

  Lemma sync_rest_after n c t st : sync n (c :: t) st ->
    skipn (next_size st) (s_rest st) = utf8_encode_all t.
  Proof.
    intro H. rewrite (sync_size _ _ _ _ H), (sy_rest _ _ _ H), utf8_encode_all_cons.
    rewrite skipn_app, skipn_all, Nat.sub_diag. reflexivity.
  Qed.

  Lemma read_next_encode_all L : forallb scalar_value L = true ->
    fst (read_next_rune (utf8_encode_all L)) = head_rune L.
  Proof.
    destruct L as [|d t]; [reflexivity|]. intro H. cbn [forallb] in H. apply andb_true_iff in H.
    rewrite utf8_encode_all_cons, read_next_rune_encode by tauto. reflexivity.
  Qed.

  Lemma sync_consume n c t st : sync n (c :: t) st -> sync (S n) t (consume_rune st).
  Proof.
    intro H. destruct (sync_scalar _ _ _ _ H) as [Hc Ht].
    pose proof (sync_next _ _ _ _ H) as Hn. pose proof (sync_size _ _ _ _ H) as Hs.
    pose proof (sync_rest_after _ _ _ _ H) as Hr.
    constructor.
    - eapply skipn_hd_tl. apply (sy_L _ _ _ H).
    - unfold consume_rune. cbn [s_rest]. exact Hr.
    - unfold consume_rune. cbn [s_off]. rewrite (sy_off _ _ _ H), Hs.
      rewrite (firstn_S_skipn _ _ _ _ (sy_L _ _ _ H)), utf8_length_app, utf8_length_cons.
      rewrite utf8_encode_length. cbn [utf8_length fold_right]. lia.
    - rewrite (advance_pos_S _ _ _ _ _ (sy_L _ _ _ H)), <- (sy_pos _ _ _ H).
      unfold consume_rune. cbn [s_line s_col]. rewrite Hr, Hn, (read_next_encode_all _ Ht).
      unfold bump, ends_line. cbn [fst snd].
      destruct t as [|d t']; cbn [hd_error head_rune];
        repeat match goal with |- context [if ?b then _ else _] => destruct b eqn:? end;
        try reflexivity; exfalso; lia.
  Qed.

  Lemma sync_errorf n L st : sync n L st -> sync n L (errorf st).
  Proof. intros [H1 H2 H3 H4]. constructor; assumption. Qed.

  Lemma sync_peek n c t st : sync n (c :: t) st ->
    peek st = match t with d :: _ => Z.of_N d | [] => RuneError end.
  Proof.
    intro H. destruct (sync_scalar _ _ _ _ H) as [_ Ht]. unfold peek. rewrite (sync_rest_after _ _ _ _ H).
    destruct t as [|d t']; [reflexivity|]. cbn [forallb] in Ht. apply andb_true_iff in Ht.
    rewrite utf8_encode_all_cons, decode_rune_encode by tauto. reflexivity.
  Qed.

  Lemma sync_valid n c t st : sync n (c :: t) st -> next_invalid st = false.
  Proof.
    intro H. unfold next_invalid. rewrite (sync_next _ _ _ _ H), (sync_size _ _ _ _ H).
    destruct (Z.of_N c =? RuneError) eqn:E; [|reflexivity]. unfold RuneError in E.
    assert (c = 65533%N) by lia. subst c. reflexivity.
  Qed.

  (** two states at the same place of the same text agree on everything but the errors *)
  Lemma sync_inj n L L' st st' : sync n L st -> sync n L' st' -> s_errs st = s_errs st' -> st = st'.
  Proof.
    intros [A1 A2 A3 A4] [B1 B2 B3 B4] He. assert (L = L') by congruence. subst L'.
    destruct st as [r o l c e], st' as [r' o' l' c' e']. cbn [s_rest s_off s_line s_col s_errs] in *. congruence.
  Qed.

  (** ** [consume_while] on a synchronised state: exactly the longest prefix satisfying [p] *)
  Lemma consume_while_sync (p : rune -> bool) (p' : cp -> bool) : (forall c, p (Z.of_N c) = p' c) ->
    forall fuel n L st st', sync n L st -> consume_while fuel p st = Some st' ->
      sync (n + span p' L) (skipn (span p' L) L) st' /\ s_errs st' = s_errs st.
  Proof.
    intros Hp. induction fuel as [|f IH]; intros n L st st' Hs H; cbn [consume_while] in H.
    - destruct L as [|c t].
      + rewrite (sync_done _ _ Hs) in H. cbn in H. inversion H; subst. cbn [span skipn].
        rewrite Nat.add_0_r. split; [exact Hs|reflexivity].
      + rewrite (sync_not_done _ _ _ _ Hs), (sync_next _ _ _ _ Hs), Hp in H. cbn [negb andb] in H.
        destruct (p' c) eqn:E; [discriminate|]. inversion H; subst. cbn [span]. rewrite E. cbn [skipn].
        rewrite Nat.add_0_r. split; [exact Hs|reflexivity].
    - destruct L as [|c t].
      + rewrite (sync_done _ _ Hs) in H. cbn in H. inversion H; subst. cbn [span skipn].
        rewrite Nat.add_0_r. split; [exact Hs|reflexivity].
      + rewrite (sync_not_done _ _ _ _ Hs), (sync_next _ _ _ _ Hs), Hp in H. cbn [negb andb] in H.
        cbn [span]. destruct (p' c) eqn:E.
        * destruct (IH _ _ _ _ (sync_consume _ _ _ _ Hs) H) as [H1 H2].
          cbn [skipn]. replace (n + S (span p' t))%nat with (S n + span p' t)%nat by lia.
          split; [exact H1|exact H2].
        * inversion H; subst. cbn [skipn]. rewrite Nat.add_0_r. split; [exact Hs|reflexivity].
  Qed.
End Sync.
